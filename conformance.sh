#!/bin/bash
# E4 — conformance of the harness's execution environment (E1) with solana-program-test.
# usage: ./conformance.sh [all|goldens|transitions|c10|c11]
# Builds /verif/conf (debug profile, first build ~3 min) against /repo's working tree, replays the
# covering set on both engines and writes /verif/evidence/E4-conformance[-family].json.
# exit 0 = every transaction agrees; exit 2 = a disagreement (the environment model is wrong; never a property verdict).
set -u
cd "$(dirname "$0")/conf"
export CARGO_NET_OFFLINE=true
cargo build 2> /tmp/e4_build_$$.log || { tail -20 /tmp/e4_build_$$.log; rm -f /tmp/e4_build_$$.log; echo "MACHINERY-FAILURE E4 build failed"; exit 2; }
rm -f /tmp/e4_build_$$.log
./target/debug/conf "${1:-all}" 2>&1 | grep -E "^E4 conformance|DISAGREE|phase 1" 
exit ${PIPESTATUS[0]}
