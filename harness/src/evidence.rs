//! Evidence files, known-findings handling, the verdict contract of `check`.

use serde_json::{json, Value};
use std::path::PathBuf;

static OUT: std::sync::Mutex<Option<std::fs::File>> = std::sync::Mutex::new(None);

/// Route fd 1 to /dev/null (third-party crates print program-side diagnostics with println!) and keep
/// a private handle to the original stdout for the harness' own report lines.
pub fn capture_stdout() {
    use std::os::fd::FromRawFd;
    unsafe {
        let saved = libc::dup(1);
        let devnull = libc::open(b"/dev/null\0".as_ptr() as *const libc::c_char, libc::O_WRONLY);
        if saved >= 0 && devnull >= 0 {
            libc::dup2(devnull, 1);
            libc::close(devnull);
            *OUT.lock().unwrap() = Some(std::fs::File::from_raw_fd(saved));
        }
    }
}

pub fn outln(s: &str) {
    use std::io::Write;
    let mut g = OUT.lock().unwrap();
    match g.as_mut() {
        Some(f) => {
            let _ = writeln!(f, "{s}");
        }
        None => println!("{s}"),
    }
}

pub fn verif_root() -> PathBuf {
    if let Ok(r) = std::env::var("VERIF_ROOT") {
        return PathBuf::from(r);
    }
    // target/release/check -> harness -> /verif
    let exe = std::env::current_exe().unwrap();
    exe.parent().unwrap().parent().unwrap().parent().unwrap().parent().unwrap().to_path_buf()
}

#[derive(Clone, Debug)]
pub struct Found {
    pub clause: String,
    /// stable discriminator of *which* input/call site fails (part of the finding signature)
    pub sig: String,
    pub detail: String,
    /// self-contained replay description
    pub replay: Value,
}

#[derive(Clone, Debug, Default)]
pub struct Outcome {
    pub level: String,
    pub coverage: Value,
    pub assumptions: Vec<String>,
    pub found: Vec<Found>,
    /// vacuity-guard failures, nondeterminism, conformance mismatches: exit 2, never a verdict
    pub machinery: Vec<String>,
}

#[derive(Clone, Debug)]
pub struct Known {
    pub status: String,
    pub property: String,
    pub clause: String,
    pub sig: String,
    pub what: String,
}

pub fn load_known() -> Vec<Known> {
    let p = verif_root().join("known_findings.json");
    let Ok(txt) = std::fs::read_to_string(&p) else { return vec![] };
    let v: Value = serde_json::from_str(&txt).expect("known_findings.json is not valid JSON");
    v.as_array()
        .map(|a| {
            a.iter()
                .map(|e| Known {
                    status: e["status"].as_str().unwrap_or("").to_string(),
                    property: e["property"].as_str().unwrap_or("").to_string(),
                    clause: e["signature"]["clause"].as_str().unwrap_or("").to_string(),
                    sig: e["signature"]["sig"].as_str().unwrap_or("").to_string(),
                    what: e["what"].as_str().unwrap_or("").to_string(),
                })
                .collect()
        })
        .unwrap_or_default()
}

fn hash8(s: &str) -> String {
    let h = blake3::hash(s.as_bytes());
    h.to_hex()[..12].to_string()
}

/// Writes evidence, prints KNOWN-FINDING / VIOLATION lines, returns the process exit code.
pub fn conclude(id: &str, tier: &str, seed: i64, wall_s: f64, o: &Outcome) -> i32 {
    let root = verif_root();
    let ev_dir = root.join("evidence");
    std::fs::create_dir_all(ev_dir.join("replays")).ok();
    let known = load_known();

    if std::env::var("VERIF_DEBUG").is_ok() {
        for f in &o.found {
            outln(&format!("DEBUG-FOUND clause={} sig={} :: {}", f.clause, f.sig, f.detail));
        }
    }
    let mut new_violations: Vec<(&Found, PathBuf)> = vec![];
    let mut known_hits: Vec<(&Known, usize)> = vec![];
    let mut seen_sigs: Vec<(String, String)> = vec![];
    for f in &o.found {
        if let Some(k) = known.iter().find(|k| k.status == "finding" && k.property == id && k.clause == f.clause && (k.sig == f.sig || k.sig == "*" || (k.sig.ends_with('*') && f.sig.starts_with(&k.sig[..k.sig.len() - 1])))) {
            match known_hits.iter_mut().find(|(kk, _)| std::ptr::eq(*kk, k)) {
                Some(e) => e.1 += 1,
                None => known_hits.push((k, 1)),
            }
            continue;
        }
        // one replay file per distinct (clause, sig)
        if seen_sigs.iter().any(|(c, s)| *c == f.clause && *s == f.sig) {
            continue;
        }
        seen_sigs.push((f.clause.clone(), f.sig.clone()));
        let name = format!("{}-{}.json", id, hash8(&format!("{}|{}|{}", f.clause, f.sig, f.replay)));
        let path = ev_dir.join("replays").join(name);
        let body = json!({"property": id, "clause": f.clause, "sig": f.sig, "detail": f.detail, "replay": f.replay});
        std::fs::write(&path, serde_json::to_string_pretty(&body).unwrap()).ok();
        new_violations.push((f, path));
    }

    let ev = json!({
        "property_id": id,
        "tier": tier,
        "seed": seed,
        "level": o.level,
        "coverage": o.coverage,
        "assumptions": o.assumptions,
        "wall_s": wall_s,
        "violations": new_violations.len(),
        "known_findings_reobserved": known_hits.iter().map(|(k, n)| json!({"clause": k.clause, "sig": k.sig, "count": n})).collect::<Vec<_>>(),
        "machinery_failures": o.machinery,
    });
    std::fs::write(ev_dir.join(format!("{id}.json")), serde_json::to_string_pretty(&ev).unwrap()).expect("write evidence");
    // the last thorough run is additionally kept next to it (the <id>.json file is rewritten by every run)
    if tier == "thorough" {
        let td = ev_dir.join("thorough");
        let _ = std::fs::create_dir_all(&td);
        let _ = std::fs::write(td.join(format!("{id}.json")), serde_json::to_string_pretty(&ev).unwrap());
    }

    for (k, n) in &known_hits {
        outln(&format!("KNOWN-FINDING: property={} clause={} sig={} occurrences={} {}", id, k.clause, k.sig, n, k.what));
    }
    for m in &o.machinery {
        outln(&format!("MACHINERY-FAILURE property={} {}", id, m));
    }
    if !new_violations.is_empty() {
        // a reproduced violation is a verdict even if a vacuity guard also tripped
        for (f, p) in &new_violations {
            outln(&format!("VIOLATION property={} replay={}", id, p.display()));
            outln(&format!("  clause={} sig={} :: {}", f.clause, f.sig, f.detail));
        }
        return 1;
    }
    if !o.machinery.is_empty() {
        return 2;
    }
    outln(&format!("OK property={} tier={} wall_s={:.1}", id, tier, wall_s));
    0
}
