//! E3 — exact reference arithmetic, independent of the program's I80F48 routines.
//!
//! Raw account bytes are decoded into integers (an I80F48 is an i128 numerator over 2^48) and all
//! reference quantities are computed without rounding, either as `BigInt`s at a fixed binary scale
//! (products of two I80F48 values are exact at scale 2^96) or as `BigRational`s.

use crate::svm::Store;
use crate::world::{self, BankH};
use marginfi_type_crate::types::{Bank, MarginfiAccount, WrappedI80F48};
use num_bigint::BigInt;
use num_rational::BigRational;
use num_traits::{One, Signed, Zero};
use solana_program::pubkey::Pubkey;

pub type Q = BigRational;

pub fn raw(w: WrappedI80F48) -> i128 {
    i128::from_le_bytes(w.value)
}

pub fn q_raw(r: i128) -> Q {
    Q::new(BigInt::from(r), BigInt::one() << 48)
}
pub fn q(w: WrappedI80F48) -> Q {
    q_raw(raw(w))
}
pub fn qi(x: i128) -> Q {
    Q::from_integer(BigInt::from(x))
}
pub fn qu(x: u64) -> Q {
    Q::from_integer(BigInt::from(x))
}
pub fn qfrac(n: i128, d: i128) -> Q {
    Q::new(BigInt::from(n), BigInt::from(d))
}
pub fn ulp() -> Q {
    Q::new(BigInt::one(), BigInt::one() << 48)
}
pub fn pow10(n: u32) -> Q {
    Q::from_integer(BigInt::from(10u8).pow(n))
}
pub fn qf64(x: &Q) -> f64 {
    use num_traits::ToPrimitive;
    let n = x.numer().to_f64().unwrap_or(f64::NAN);
    let d = x.denom().to_f64().unwrap_or(f64::NAN);
    if n.is_finite() && d.is_finite() {
        n / d
    } else {
        // scale down
        let bits = x.denom().bits().max(x.numer().bits());
        let sh = bits.saturating_sub(1000);
        let n = (x.numer() >> sh).to_f64().unwrap_or(f64::NAN);
        let d = (x.denom() >> sh).to_f64().unwrap_or(f64::NAN);
        n / d
    }
}
pub fn qfloor(x: &Q) -> BigInt {
    x.floor().to_integer()
}
pub fn qceil(x: &Q) -> BigInt {
    x.ceil().to_integer()
}
pub fn qmin(a: Q, b: Q) -> Q {
    if a <= b {
        a
    } else {
        b
    }
}
pub fn qmax(a: Q, b: Q) -> Q {
    if a >= b {
        a
    } else {
        b
    }
}
pub fn qabs(a: &Q) -> Q {
    a.abs()
}
pub fn qzero() -> Q {
    Q::zero()
}
pub fn qone() -> Q {
    Q::one()
}

/// Exact numbers of a bank and its vaults, as raw integers.
#[derive(Clone, Debug, PartialEq, Eq)]
pub struct BankNums {
    pub a_sh: i128,
    pub l_sh: i128,
    pub asv: i128,
    pub lsv: i128,
    pub f_ins: i128,
    pub f_grp: i128,
    pub f_prog: i128,
    pub vault: u64,
    pub ins_vault: u64,
    pub fee_vault: u64,
    pub flags: u64,
    pub op_state: u8,
    pub last_update: i64,
}

pub fn bank_nums_of(b: &Bank, vault: u64, ins_vault: u64, fee_vault: u64) -> BankNums {
    BankNums {
        a_sh: raw(b.total_asset_shares),
        l_sh: raw(b.total_liability_shares),
        asv: raw(b.asset_share_value),
        lsv: raw(b.liability_share_value),
        f_ins: raw(b.collected_insurance_fees_outstanding),
        f_grp: raw(b.collected_group_fees_outstanding),
        f_prog: raw(b.collected_program_fees_outstanding),
        vault,
        ins_vault,
        fee_vault,
        flags: b.flags,
        op_state: b.config.operational_state as u8,
        last_update: b.last_update,
    }
}

pub fn bank_nums(s: &Store, bh: &BankH) -> BankNums {
    let b = world::bank(s, &bh.key);
    bank_nums_of(&b, world::token_amount(s, &bh.lv), world::token_amount(s, &bh.iv), world::token_amount(s, &bh.fv))
}

fn big(x: i128) -> BigInt {
    BigInt::from(x)
}

impl BankNums {
    /// total deposits value at scale 2^96
    pub fn deposits96(&self) -> BigInt {
        big(self.a_sh) * big(self.asv)
    }
    pub fn liabs96(&self) -> BigInt {
        big(self.l_sh) * big(self.lsv)
    }
    pub fn fees96(&self) -> BigInt {
        (big(self.f_ins) + big(self.f_grp) + big(self.f_prog)) << 48
    }
    /// vault − (deposits − liabilities + fees), at scale 2^96
    pub fn gap96(&self) -> BigInt {
        (big(self.vault as i128) << 96) - self.deposits96() + self.liabs96() - self.fees96()
    }
    pub fn deposits(&self) -> Q {
        Q::new(self.deposits96(), BigInt::one() << 96)
    }
    pub fn liabs(&self) -> Q {
        Q::new(self.liabs96(), BigInt::one() << 96)
    }
    pub fn gap(&self) -> Q {
        Q::new(self.gap96(), BigInt::one() << 96)
    }
}

pub fn scale96_to_f64(x: &BigInt) -> f64 {
    qf64(&Q::new(x.clone(), BigInt::one() << 96))
}

/// one ULP (2^-48) expressed at scale 2^96
pub fn ulp96() -> BigInt {
    BigInt::one() << 48
}

/// Sum of position shares per bank over every marginfi account in the store (active balances).
pub fn position_sums(s: &Store, bank_key: &Pubkey) -> (i128, i128) {
    let mut a = 0i128;
    let mut l = 0i128;
    for (_, acct) in s.accts.iter() {
        if acct.owner == marginfi::ID
            && acct.data.len() == 8 + std::mem::size_of::<MarginfiAccount>()
            && acct.data[..8] == marginfi_type_crate::constants::discriminators::ACCOUNT
        {
            let ma: MarginfiAccount = world::read_pod(&acct.data);
            for b in ma.lending_account.balances.iter() {
                if b.active != 0 && b.bank_pk == *bank_key {
                    a += raw(b.asset_shares);
                    l += raw(b.liability_shares);
                }
            }
        }
    }
    (a, l)
}

/// all marginfi accounts in the store
pub fn all_accounts(s: &Store) -> Vec<(Pubkey, MarginfiAccount)> {
    let mut v = vec![];
    for (k, acct) in s.accts.iter() {
        if acct.owner == marginfi::ID
            && acct.data.len() == 8 + std::mem::size_of::<MarginfiAccount>()
            && acct.data[..8] == marginfi_type_crate::constants::discriminators::ACCOUNT
        {
            v.push((*k, world::read_pod::<MarginfiAccount>(&acct.data)));
        }
    }
    v
}
