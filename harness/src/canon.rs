//! Canonical state key. Key = blake3 over (clock, extra model variables, then for every account
//! in key order: key + memoised per-account digest). The per-account digest covers owner, lamports,
//! executable flag and data with exactly these write-only diagnostic fields zeroed:
//!   MarginfiAccount.health_cache, MarginfiAccount.last_update, Bank.cache,
//!   LiquidationRecord.entries, and Balance.last_update when the model has emissions off.
//! `Bank.last_update` is read by accrual and is kept. With VERIF_CANON=identity nothing is zeroed.

use crate::svm::{Acct, Store};
use marginfi_type_crate::constants::discriminators;
use marginfi_type_crate::types::{Balance, Bank, LendingAccount, LiquidationRecord, MarginfiAccount};
use std::mem::{offset_of, size_of};
use std::sync::atomic::{AtomicU8, Ordering};

/// 0 = default (zero caches + balance.last_update), 1 = keep balance.last_update (emissions on),
/// 2 = identity (nothing zeroed)
static MODE: AtomicU8 = AtomicU8::new(0);

pub fn set_mode(m: u8) {
    MODE.store(m, Ordering::SeqCst);
}
pub fn mode() -> u8 {
    MODE.load(Ordering::Relaxed)
}

fn zero(buf: &mut [u8], off: usize, len: usize) {
    for b in &mut buf[8 + off..8 + off + len] {
        *b = 0;
    }
}

pub fn canonical_data(a: &Acct) -> Option<Vec<u8>> {
    let mode = mode();
    if mode == 2 || a.owner != marginfi::ID || a.data.len() < 8 {
        return None;
    }
    let d = &a.data[..8];
    if d == discriminators::ACCOUNT && a.data.len() == 8 + size_of::<MarginfiAccount>() {
        let mut v = a.data.clone();
        zero(&mut v, offset_of!(MarginfiAccount, health_cache), size_of::<marginfi_type_crate::types::HealthCache>());
        zero(&mut v, offset_of!(MarginfiAccount, last_update), 8);
        if mode == 0 {
            let base = offset_of!(MarginfiAccount, lending_account) + offset_of!(LendingAccount, balances);
            for i in 0..16 {
                zero(&mut v, base + i * size_of::<Balance>() + offset_of!(Balance, last_update), 8);
            }
        }
        Some(v)
    } else if d == discriminators::BANK && a.data.len() == 8 + size_of::<Bank>() {
        let mut v = a.data.clone();
        zero(&mut v, offset_of!(Bank, cache), size_of::<marginfi_type_crate::types::BankCache>());
        Some(v)
    } else if d == discriminators::LIQUIDATION_RECORD && a.data.len() == 8 + size_of::<LiquidationRecord>() {
        let mut v = a.data.clone();
        zero(&mut v, offset_of!(LiquidationRecord, entries), size_of::<[marginfi_type_crate::types::LiquidationEntry; 4]>());
        Some(v)
    } else {
        None
    }
}

pub fn acct_digest(a: &Acct) -> [u8; 32] {
    *a.digest.get_or_init(|| {
        let mut h = blake3::Hasher::new();
        h.update(a.owner.as_ref());
        h.update(&a.lamports.to_le_bytes());
        h.update(&[a.executable as u8]);
        match canonical_data(a) {
            Some(v) => h.update(&v),
            None => h.update(&a.data),
        };
        *h.finalize().as_bytes()
    })
}

pub fn state_key(s: &Store, extra: &[u8]) -> [u8; 32] {
    let mut h = blake3::Hasher::new();
    h.update(&s.now.to_le_bytes());
    h.update(&s.slot.to_le_bytes());
    h.update(&(extra.len() as u64).to_le_bytes());
    h.update(extra);
    for (k, a) in &s.accts {
        h.update(k.as_ref());
        h.update(&acct_digest(a));
    }
    *h.finalize().as_bytes()
}
