//! E3 — reference risk engine in exact rationals, written from the property statements: collateral
//! at the low-biased price, debt at the high-biased one, initial checks on the time-weighted price,
//! maintenance on spot, bias = min(confidence scaled to 95 %, 5 % of price), e-mode = per-tag minimum
//! over all borrowed banks, never below the bank's own weight, positions under one share are empty.

use crate::refmodel::{self as rf, Q};
use crate::svm::Store;
use crate::world;
use marginfi_type_crate::constants::{CONF_INTERVAL_MULTIPLE, MAX_CONF_INTERVAL, STD_DEV_MULTIPLE};
use marginfi_type_crate::types::{Bank, BankOperationalState, MarginfiAccount, OracleSetup, RiskTier};
use num_bigint::BigInt;
use num_traits::{Signed, Zero};
use solana_program::pubkey::Pubkey;

#[derive(Clone, Copy, Debug, PartialEq, Eq)]
pub enum Req {
    Initial,
    Maintenance,
    Equity,
}

#[derive(Clone, Debug)]
pub struct OracleRef {
    /// spot price and its (already scaled and capped) confidence band
    pub spot: Q,
    pub spot_band: Result<Q, OracleErr>,
    /// time-weighted price and band
    pub twap: Q,
    pub twap_band: Result<Q, OracleErr>,
}

impl OracleRef {
    /// (price, band) of the requested kind; the band's validity matters only when it is used
    pub fn biased(&self, req: Req, high: bool) -> Result<Q, OracleErr> {
        let (p, b) = match req {
            Req::Maintenance => (&self.spot, &self.spot_band),
            _ => (&self.twap, &self.twap_band),
        };
        let b = b.clone()?;
        Ok(if high { p.clone() + b } else { p.clone() - b })
    }
}

#[derive(Clone, Debug, PartialEq, Eq)]
pub enum OracleErr {
    Missing,
    WrongOwner,
    WrongKey,
    BadData,
    Stale,
    LowVerification,
    ConfidenceTooWide,
    NotSetup,
    Unsupported,
}

fn q_const(x: fixed::types::I80F48) -> Q {
    rf::q_raw(x.to_bits())
}

fn band(price: &Q, conf: &Q, multiple: &Q, max_conf_u32: u32) -> Result<Q, OracleErr> {
    let scaled = conf.clone() * multiple.clone();
    let max_frac = if max_conf_u32 > 0 { rf::qu(max_conf_u32 as u64) } else { rf::qu(429_496_730) } / rf::qu(4_294_967_295);
    if scaled > price.clone() * max_frac {
        return Err(OracleErr::ConfidenceTooWide);
    }
    Ok(rf::qmin(scaled, price.clone() * q_const(MAX_CONF_INTERVAL)))
}

fn pow10_signed(e: i32) -> Q {
    if e >= 0 {
        rf::pow10(e as u32)
    } else {
        rf::qone() / rf::pow10((-e) as u32)
    }
}

/// Parse a PriceUpdateV2 account by hand (borsh layout).
pub struct PythRaw {
    pub full: bool,
    pub price: i64,
    pub conf: u64,
    pub expo: i32,
    pub publish_time: i64,
    pub ema_price: i64,
    pub ema_conf: u64,
}

pub fn parse_pyth(data: &[u8]) -> Option<PythRaw> {
    if data.len() < 8 + 32 + 1 {
        return None;
    }
    let mut o = 8 + 32;
    let full = match data[o] {
        0 => {
            o += 2;
            false
        }
        1 => {
            o += 1;
            true
        }
        _ => return None,
    };
    if data.len() < o + 32 + 8 + 8 + 4 + 8 + 8 + 8 + 8 {
        return None;
    }
    o += 32;
    let rd8 = |o: usize| -> [u8; 8] { data[o..o + 8].try_into().unwrap() };
    let price = i64::from_le_bytes(rd8(o));
    let conf = u64::from_le_bytes(rd8(o + 8));
    let expo = i32::from_le_bytes(data[o + 16..o + 20].try_into().unwrap());
    let publish_time = i64::from_le_bytes(rd8(o + 20));
    let ema_price = i64::from_le_bytes(rd8(o + 36));
    let ema_conf = u64::from_le_bytes(rd8(o + 44));
    Some(PythRaw { full, price, conf, expo, publish_time, ema_price, ema_conf })
}

/// The usable price of a bank from the presented oracle accounts (as found in the store), or why not.

/// the venue half of an exchange-rate-adjusted oracle: checks the configured reserve / market account (owner, layout,
/// refreshed in this slot / second) and returns the integer adjustment raw -> raw x rate the adapters apply
fn venue_adjuster(s: &Store, cfg: &marginfi_type_crate::types::BankConfig, flavour: OracleSetup) -> Result<Box<dyn Fn(i128) -> i128>, OracleErr> {
            let v = s.get(&cfg.oracle_keys[1]).ok_or(OracleErr::Missing)?;
            // (numerator, denominator) of the exchange rate, and freshness of the venue account
            let mut venue_decimals: u32 = 0;
            let (num, den, fresh): (u128, u128, bool) = match flavour {
                OracleSetup::KaminoPythPush => {
                    if v.owner != kamino_mocks::ID || v.data.len() < 8 + std::mem::size_of::<kamino_mocks::state::MinimalReserve>() {
                        return Err(OracleErr::BadData);
                    }
                    let r: kamino_mocks::state::MinimalReserve = bytemuck::pod_read_unaligned(&v.data[8..8 + std::mem::size_of::<kamino_mocks::state::MinimalReserve>()]);
                    venue_decimals = r.mint_decimals as u32;
                    (r.available_amount as u128, r.mint_total_supply as u128, r.slot >= s.slot)
                }
                OracleSetup::SolendPythPull => {
                    // Solend is not an Anchor program: its accounts start with a one-byte version tag
                    let off = solend_mocks::state::RESERVE_DISCRIMINATOR.len();
                    if v.owner != solend_mocks::ID || v.data.len() < off + std::mem::size_of::<solend_mocks::state::SolendMinimalReserve>() || v.data[..off] != solend_mocks::state::RESERVE_DISCRIMINATOR {
                        return Err(OracleErr::BadData);
                    }
                    let r: solend_mocks::state::SolendMinimalReserve = bytemuck::pod_read_unaligned(&v.data[off..off + std::mem::size_of::<solend_mocks::state::SolendMinimalReserve>()]);
                    venue_decimals = r.liquidity_mint_decimals as u32;
                    (r.liquidity_available_amount as u128, r.collateral_mint_total_supply as u128, r.last_update_slot >= s.slot)
                }
                _ => {
                    if v.owner != drift_mocks::ID || v.data.len() < 8 + std::mem::size_of::<drift_mocks::state::MinimalSpotMarket>() {
                        return Err(OracleErr::BadData);
                    }
                    let m: drift_mocks::state::MinimalSpotMarket = bytemuck::pod_read_unaligned(&v.data[8..8 + std::mem::size_of::<drift_mocks::state::MinimalSpotMarket>()]);
                    (u128::from_le_bytes(m.cumulative_deposit_interest), 10_000_000_000u128, m.last_interest_ts as i64 >= s.now)
                }
            };
            if !fresh {
                return Err(OracleErr::Stale);
            }
            if den == 0 {
                return Err(OracleErr::BadData);
            }
            let drift = flavour == OracleSetup::DriftPythPull;
            Ok(Box::new(move |raw: i128| -> i128 {
                if drift {
                    // integer arithmetic: raw x cumulative interest / 10^10, floored
                    (raw * num as i128).div_euclid(den as i128)
                } else {
                    // both supplies are held in whole tokens at 2^-48 resolution (rounded down); the rate is
                    // their quotient at 2^-48 resolution with the collateral side taken one ulp up, so that
                    // it never exceeds the exact rate (C20 checks that independently); product floored
                    use num_bigint::BigInt;
                    use num_traits::ToPrimitive;
                    let scale = BigInt::from(10u128.pow(venue_decimals.min(23)));
                    let l48: BigInt = (BigInt::from(num) << 48) / &scale;
                    let c48: BigInt = (BigInt::from(den) << 48) / &scale + 1;
                    let rate48: BigInt = (l48 << 48) / c48;
                    let prod: BigInt = (BigInt::from(raw) * rate48) >> 48;
                    prod.to_i128().unwrap_or(i128::MAX)
                }
            }))
}

pub fn oracle_ref(s: &Store, bank: &Bank) -> Result<OracleRef, OracleErr> {
    let cfg = &bank.config;
    let max_age: i64 = match (cfg.oracle_max_age, cfg.oracle_setup) {
        (0, OracleSetup::PythPushOracle) => 60,
        (n, _) => n as i64,
    };
    match cfg.oracle_setup {
        OracleSetup::Fixed => {
            let p = rf::q(cfg.fixed_price);
            if p.is_negative() {
                return Err(OracleErr::BadData);
            }
            Ok(OracleRef { spot: p.clone(), spot_band: Ok(rf::qzero()), twap: p, twap_band: Ok(rf::qzero()) })
        }
        OracleSetup::PythPushOracle => {
            let a = s.get(&cfg.oracle_keys[0]).ok_or(OracleErr::Missing)?;
            if a.owner != pyth_solana_receiver_sdk::id() {
                return Err(OracleErr::WrongOwner);
            }
            let disc = <pyth_solana_receiver_sdk::price_update::PriceUpdateV2 as anchor_lang::Discriminator>::DISCRIMINATOR;
            if a.data.len() < 8 || &a.data[..8] != disc {
                return Err(OracleErr::BadData);
            }
            let p = parse_pyth(&a.data).ok_or(OracleErr::BadData)?;
            if !p.full {
                return Err(OracleErr::LowVerification);
            }
            if p.publish_time.saturating_add(max_age) < s.now {
                return Err(OracleErr::Stale);
            }
            let scale = pow10_signed(p.expo);
            let mult = q_const(CONF_INTERVAL_MULTIPLE);
            let spot = rf::qi(p.price as i128) * scale.clone();
            let twap = rf::qi(p.ema_price as i128) * scale.clone();
            let sb = band(&spot, &(rf::qu(p.conf) * scale.clone()), &mult, cfg.oracle_max_confidence);
            let tb = band(&twap, &(rf::qu(p.ema_conf) * scale), &mult, cfg.oracle_max_confidence);
            // a band is only needed when a biased price of that type is asked for: errors stay lazy
            Ok(OracleRef { spot, spot_band: sb, twap, twap_band: tb })
        }
        OracleSetup::SwitchboardPull => {
            let a = s.get(&cfg.oracle_keys[0]).ok_or(OracleErr::Missing)?;
            if a.owner != marginfi::constants::SWITCHBOARD_PULL_ID {
                return Err(OracleErr::WrongOwner);
            }
            let sz = std::mem::size_of::<switchboard_on_demand::PullFeedAccountData>();
            if a.data.len() < 8 + sz || a.data[..8] != <switchboard_on_demand::PullFeedAccountData as switchboard_on_demand::Discriminator>::DISCRIMINATOR {
                return Err(OracleErr::BadData);
            }
            let feed: switchboard_on_demand::PullFeedAccountData = bytemuck::pod_read_unaligned(&a.data[8..8 + sz]);
            if s.now.saturating_sub(feed.last_update_timestamp) > max_age {
                return Err(OracleErr::Stale);
            }
            let e18 = rf::pow10(18);
            let p = rf::qi(feed.result.value) / e18.clone();
            let c = rf::qi(feed.result.std_dev) / e18;
            let b = band(&p, &c, &q_const(STD_DEV_MULTIPLE), cfg.oracle_max_confidence);
            Ok(OracleRef { spot: p.clone(), spot_band: b.clone(), twap: p, twap_band: b })
        }
        OracleSetup::StakedWithPythPush => {
            // SOL price from the Pyth account, times the pool's exchange rate: (delegated stake minus
            // the pool's permanent 1 SOL) / LST supply, applied to the raw integer prices (confidence
            // stays that of the SOL price)
            let a = s.get(&cfg.oracle_keys[0]).ok_or(OracleErr::Missing)?;
            if a.owner != pyth_solana_receiver_sdk::id() {
                return Err(OracleErr::WrongOwner);
            }
            let disc = <pyth_solana_receiver_sdk::price_update::PriceUpdateV2 as anchor_lang::Discriminator>::DISCRIMINATOR;
            if a.data.len() < 8 || &a.data[..8] != disc {
                return Err(OracleErr::BadData);
            }
            let p = parse_pyth(&a.data).ok_or(OracleErr::BadData)?;
            if !p.full {
                return Err(OracleErr::LowVerification);
            }
            if p.publish_time.saturating_add(max_age) < s.now {
                return Err(OracleErr::Stale);
            }
            let mint = s.get(&cfg.oracle_keys[1]).ok_or(OracleErr::Missing)?;
            let pool = s.get(&cfg.oracle_keys[2]).ok_or(OracleErr::Missing)?;
            if mint.data.len() < 44 || pool.data.len() < 164 {
                return Err(OracleErr::BadData);
            }
            let supply = u64::from_le_bytes(mint.data[36..44].try_into().unwrap());
            // StakeStateV2::Stake: tag u32, Meta (8 + 64 + 48 = 120 bytes), Delegation { voter 32, stake u64, .. }
            let stake = u64::from_le_bytes(pool.data[4 + 120 + 32..4 + 120 + 32 + 8].try_into().unwrap());
            if supply == 0 || stake < 1_000_000_000 {
                return Err(OracleErr::BadData);
            }
            let adj = (stake - 1_000_000_000) as i128;
            let scale = pow10_signed(p.expo);
            let mult = q_const(CONF_INTERVAL_MULTIPLE);
            let spot = rf::qi((p.price as i128 * adj).div_euclid(supply as i128)) * scale.clone();
            let twap = rf::qi((p.ema_price as i128 * adj).div_euclid(supply as i128)) * scale.clone();
            let sb = band(&spot, &(rf::qu(p.conf) * scale.clone()), &mult, cfg.oracle_max_confidence);
            let tb = band(&twap, &(rf::qu(p.ema_conf) * scale), &mult, cfg.oracle_max_confidence);
            Ok(OracleRef { spot, spot_band: sb, twap, twap_band: tb })
        }
        OracleSetup::KaminoSwitchboardPull | OracleSetup::SolendSwitchboardPull | OracleSetup::DriftSwitchboardPull => {
            // Switchboard data of the underlying (value and standard deviation, integers at 1e18), each multiplied
            // by the venue's exchange rate exactly as for the Pyth flavours below
            let a = s.get(&cfg.oracle_keys[0]).ok_or(OracleErr::Missing)?;
            if a.owner != marginfi::constants::SWITCHBOARD_PULL_ID {
                return Err(OracleErr::WrongOwner);
            }
            let sz = std::mem::size_of::<switchboard_on_demand::PullFeedAccountData>();
            if a.data.len() < 8 + sz || a.data[..8] != <switchboard_on_demand::PullFeedAccountData as switchboard_on_demand::Discriminator>::DISCRIMINATOR {
                return Err(OracleErr::BadData);
            }
            let feed: switchboard_on_demand::PullFeedAccountData = bytemuck::pod_read_unaligned(&a.data[8..8 + sz]);
            if s.now.saturating_sub(feed.last_update_timestamp) > max_age {
                return Err(OracleErr::Stale);
            }
            let pyth_twin = match cfg.oracle_setup {
                OracleSetup::KaminoSwitchboardPull => OracleSetup::KaminoPythPush,
                OracleSetup::SolendSwitchboardPull => OracleSetup::SolendPythPull,
                _ => OracleSetup::DriftPythPull,
            };
            let adj = venue_adjuster(s, cfg, pyth_twin)?;
            let e18 = rf::pow10(18);
            let p = rf::qi(adj(feed.result.value)) / e18.clone();
            let c = rf::qi(adj(feed.result.std_dev)) / e18;
            let b = band(&p, &c, &q_const(STD_DEV_MULTIPLE), cfg.oracle_max_confidence);
            Ok(OracleRef { spot: p.clone(), spot_band: b.clone(), twap: p, twap_band: b })
        }
        OracleSetup::KaminoPythPush | OracleSetup::SolendPythPull | OracleSetup::DriftPythPull => {
            // Pyth data of the underlying, with price, confidence, EMA price and EMA confidence each
            // multiplied by the venue's exchange rate (reference restricted to reserves / markets whose
            // rate is a plain ratio of two stored integers; rate held at 2^-48 resolution, products floored
            // to the feed's integer units, as the venue adapters document)
            let a = s.get(&cfg.oracle_keys[0]).ok_or(OracleErr::Missing)?;
            if a.owner != pyth_solana_receiver_sdk::id() {
                return Err(OracleErr::WrongOwner);
            }
            let disc = <pyth_solana_receiver_sdk::price_update::PriceUpdateV2 as anchor_lang::Discriminator>::DISCRIMINATOR;
            if a.data.len() < 8 || &a.data[..8] != disc {
                return Err(OracleErr::BadData);
            }
            let p = parse_pyth(&a.data).ok_or(OracleErr::BadData)?;
            if !p.full {
                return Err(OracleErr::LowVerification);
            }
            if p.publish_time.saturating_add(max_age) < s.now {
                return Err(OracleErr::Stale);
            }
            let adj = venue_adjuster(s, cfg, cfg.oracle_setup)?;
            let scale = pow10_signed(p.expo);
            let mult = q_const(CONF_INTERVAL_MULTIPLE);
            let spot = rf::qi(adj(p.price as i128)) * scale.clone();
            let twap = rf::qi(adj(p.ema_price as i128)) * scale.clone();
            let sb = band(&spot, &(rf::qi(adj(p.conf as i128)) * scale.clone()), &mult, cfg.oracle_max_confidence);
            let tb = band(&twap, &(rf::qi(adj(p.ema_conf as i128)) * scale), &mult, cfg.oracle_max_confidence);
            Ok(OracleRef { spot, spot_band: sb, twap, twap_band: tb })
        }
        OracleSetup::None => Err(OracleErr::NotSetup),
        _ => Err(OracleErr::Unsupported),
    }
}

#[derive(Clone, Debug)]
pub struct PositionRef {
    pub bank: Pubkey,
    pub is_liability: bool,
    pub amount: Q,
    pub weight: Q,
    pub price: Q,
    pub value: Q,
    pub oracle_err: Option<OracleErr>,
}

#[derive(Clone, Debug)]
pub struct HealthRef {
    pub assets: Q,
    pub liabs: Q,
    /// set when the engine itself must fail (unusable price where a price is mandatory)
    pub engine_err: Option<OracleErr>,
    pub positions: Vec<PositionRef>,
    /// rounding allowance in dollars for |assets - liabs|
    pub allow: Q,
    pub isolated_violation: bool,
    /// unweighted dollar value (low-biased price) of the deposits held in isolated-tier banks; the program's risk
    /// engine counts them as zero for every requirement type, so they are *not* part of `assets`. The statement of
    /// C07 speaks of "unweighted assets": that check adds this to the equity assets.
    pub isolated_unweighted: Q,
}

impl HealthRef {
    pub fn health(&self) -> Q {
        self.assets.clone() - self.liabs.clone()
    }
}

fn one_share() -> Q {
    rf::qone()
}

fn bank_weight(bank: &Bank, req: Req, liability: bool) -> Q {
    match (req, liability) {
        (Req::Equity, _) => rf::qone(),
        (Req::Initial, false) => rf::q(bank.config.asset_weight_init),
        (Req::Maintenance, false) => rf::q(bank.config.asset_weight_maint),
        (Req::Initial, true) => rf::q(bank.config.liability_weight_init),
        (Req::Maintenance, true) => rf::q(bank.config.liability_weight_maint),
    }
}

/// reference health of a marginfi account, from raw store bytes
pub fn health_of(s: &Store, acct: &MarginfiAccount, req: Req) -> HealthRef {
    let mut out = HealthRef { assets: rf::qzero(), liabs: rf::qzero(), engine_err: None, positions: vec![], allow: rf::qzero(), isolated_violation: false, isolated_unweighted: rf::qzero() };
    let active: Vec<_> = acct.lending_account.balances.iter().filter(|b| b.active != 0).collect();
    let banks: Vec<Option<Bank>> = active.iter().map(|b| world::try_bank(s, &b.bank_pk)).collect();
    // e-mode: per collateral tag, the least favourable entry over every borrowed bank; a tag missing
    // in any borrowed bank's table gets no benefit
    let borrowed: Vec<&Bank> = active
        .iter()
        .zip(banks.iter())
        .filter(|(bal, bk)| bk.is_some() && rf::q(bal.liability_shares) >= one_share())
        .map(|(_, bk)| bk.as_ref().unwrap())
        .collect();
    let emode_entry = |tag: u16| -> Option<(Q, Q)> {
        if tag == 0 || borrowed.is_empty() {
            return None;
        }
        let mut best: Option<(Q, Q)> = None;
        for bk in &borrowed {
            let e = bk.emode.emode_config.entries.iter().find(|e| e.collateral_bank_emode_tag == tag)?;
            let (i, m) = (rf::q(e.asset_weight_init), rf::q(e.asset_weight_maint));
            best = Some(match best {
                None => (i, m),
                Some((bi, bm)) => (rf::qmin(bi, i), rf::qmin(bm, m)),
            });
        }
        best
    };
    let mut liab_count = 0;
    let mut isolated_liabs = 0;
    let ulp = rf::ulp();
    for (bal, bk) in active.iter().zip(banks.iter()) {
        let Some(bank) = bk else {
            out.engine_err = Some(OracleErr::Missing);
            continue;
        };
        let a_sh = rf::q(bal.asset_shares);
        let l_sh = rf::q(bal.liability_shares);
        let dec = rf::pow10(if bank.config.asset_tag == 4 { 9 } else { bank.mint_decimals as u32 });
        let oref = oracle_ref(s, bank);
        if l_sh >= one_share() {
            liab_count += 1;
            if bank.config.risk_tier == RiskTier::Isolated {
                isolated_liabs += 1;
            }
            let amount = l_sh * rf::q(bank.liability_share_value);
            match oref.as_ref().map_err(|e| e.clone()).and_then(|o| o.biased(req, true)) {
                Err(e) => {
                    out.engine_err.get_or_insert(e.clone());
                    out.positions.push(PositionRef { bank: bal.bank_pk, is_liability: true, amount, weight: rf::qzero(), price: rf::qzero(), value: rf::qzero(), oracle_err: Some(e.clone()) });
                }
                Ok(price) => {
                    let w = bank_weight(bank, req, true);
                    let value = amount.clone() * w.clone() * price.clone() / dec.clone();
                    out.allow = out.allow.clone() + ulp.clone() * rf::qi(8) * (rf::qone() + (amount.clone() + rf::qone()) * (w.clone() + rf::qone()) / dec.clone() + price.clone() * (w.clone() + rf::qone()) / dec.clone() + value.clone());
                    out.liabs = out.liabs.clone() + value.clone();
                    out.positions.push(PositionRef { bank: bal.bank_pk, is_liability: true, amount, weight: w, price, value, oracle_err: None });
                }
            }
        } else if a_sh >= one_share() {
            let amount = a_sh * rf::q(bank.asset_share_value);
            // isolated-tier deposits back no borrowing (zero for initial and maintenance margin) but are assets
            // in the unweighted equity valuation (as repaired in /repo: 'fix: isolated-tier deposits count in
            // the equity valuation'); with the pre-fix behaviour C07 sees them through `isolated_unweighted`
            if bank.config.risk_tier == RiskTier::Isolated && req != Req::Equity {
                if let Ok(o) = &oref {
                    if let Ok(price) = o.biased(req, false) {
                        out.isolated_unweighted = out.isolated_unweighted.clone() + amount.clone() * price / dec.clone();
                    }
                }
                out.positions.push(PositionRef { bank: bal.bank_pk, is_liability: false, amount, weight: rf::qzero(), price: rf::qzero(), value: rf::qzero(), oracle_err: None });
                continue;
            }
            if bank.config.operational_state == BankOperationalState::ReduceOnly && req == Req::Initial {
                out.positions.push(PositionRef { bank: bal.bank_pk, is_liability: false, amount, weight: rf::qzero(), price: rf::qzero(), value: rf::qzero(), oracle_err: None });
                continue;
            }
            // an unusable collateral oracle counts as zero for initial checks and fails the others;
            // a too-wide confidence band surfaces when the biased price is asked for and always fails
            let priced = match &oref {
                Err(e) => Err((e.clone(), true)),
                Ok(o) => o.biased(req, false).map_err(|e| (e, false)),
            };
            match priced {
                Err((e, load_failure)) => {
                    if req != Req::Initial || !load_failure {
                        out.engine_err.get_or_insert(e.clone());
                    }
                    out.positions.push(PositionRef { bank: bal.bank_pk, is_liability: false, amount, weight: rf::qzero(), price: rf::qzero(), value: rf::qzero(), oracle_err: Some(e.clone()) });
                }
                Ok(price) => {
                    let mut w = bank_weight(bank, req, false);
                    if let Some((ei, em)) = emode_entry(bank.emode.emode_tag) {
                        let ew = match req {
                            Req::Initial => ei,
                            Req::Maintenance => em,
                            Req::Equity => rf::qone(),
                        };
                        w = rf::qmax(w, ew);
                    }
                    let mut disc_amp = rf::qzero();
                    if req == Req::Initial && bank.config.total_asset_value_init_limit != 0 {
                        let total = rf::q(bank.total_asset_shares) * rf::q(bank.asset_share_value) * price.clone() / dec.clone();
                        let lim = rf::qu(bank.config.total_asset_value_init_limit);
                        if total > lim {
                            w = w * lim / total;
                            disc_amp = amount.clone() * price.clone() / dec.clone();
                        }
                    }
                    let value = amount.clone() * w.clone() * price.clone() / dec.clone();
                    out.allow = out.allow.clone() + ulp.clone() * rf::qi(8) * (rf::qone() + (amount.clone() + rf::qone()) * (w.clone() + rf::qone()) / dec.clone() + price.clone() * (w.clone() + rf::qone()) / dec.clone() + value.clone() + disc_amp * rf::qi(4));
                    out.assets = out.assets.clone() + value.clone();
                    out.positions.push(PositionRef { bank: bal.bank_pk, is_liability: false, amount, weight: w, price, value, oracle_err: None });
                }
            }
        }
    }
    out.isolated_violation = isolated_liabs > 0 && liab_count != 1;
    out.allow = out.allow.clone() * rf::qi(4);
    let _ = BigInt::zero();
    out
}

pub fn health(s: &Store, account: &Pubkey, req: Req) -> Option<HealthRef> {
    world::try_account(s, account).map(|a| health_of(s, &a, req))
}
