//! A stand-in for the Drift program inside E1, so that `drift_deposit` / `drift_withdraw` of marginfi can be driven
//! through the real entrypoint. It implements the *interface effects* marginfi relies on and nothing else:
//! `update_spot_market_cumulative_interest` stamps the market as refreshed now; `deposit` moves `amount` tokens from
//! the depositor's token account into the market vault and raises the user's scaled balance by Drift's own
//! increment formula (`MinimalSpotMarket::get_scaled_balance_increment`, from the repository's drift-mocks crate);
//! `withdraw` lowers it by the decrement formula (rounded up) and pays `amount` out of the market vault. Token
//! movements go through the real SPL Token processor. It is NOT Drift: interest, borrows, health and fees of the
//! venue do not exist. What it makes reachable is marginfi's own gating of these two instructions (signer,
//! account substitution, bank state, pause, asset tags, risk check after a venue withdrawal).

use crate::svm::{self, Acct, Store};
use crate::world::{self, World};
use drift_mocks::state::{MinimalSpotMarket, MinimalUser, SPOT_MARKET_DISCRIMINATOR, USER_DISCRIMINATOR};
use solana_program::account_info::AccountInfo;
use solana_program::entrypoint::ProgramResult;
use solana_program::program_error::ProgramError;
use solana_program::pubkey::Pubkey;
use solana_program::sysvar::Sysvar;

const DISC_DEPOSIT: [u8; 8] = [242, 35, 198, 137, 82, 225, 242, 182];
const DISC_WITHDRAW: [u8; 8] = [183, 18, 70, 156, 148, 109, 161, 34];
const DISC_UPDATE: [u8; 8] = [39, 166, 139, 243, 158, 165, 155, 225];

fn market_of<'a, 'b>(ais: &'a [AccountInfo<'b>]) -> Result<&'a AccountInfo<'b>, ProgramError> {
    ais.iter().find(|a| *a.owner == drift_mocks::ID && a.data_len() >= 8 && a.try_borrow_data().map(|d| d[..8] == SPOT_MARKET_DISCRIMINATOR).unwrap_or(false)).ok_or(ProgramError::NotEnoughAccountKeys)
}

fn read_market(ai: &AccountInfo) -> Result<MinimalSpotMarket, ProgramError> {
    let d = ai.try_borrow_data()?;
    Ok(bytemuck::pod_read_unaligned(&d[8..8 + std::mem::size_of::<MinimalSpotMarket>()]))
}

fn token_transfer<'a>(token_program: &Pubkey, from: &AccountInfo<'a>, to: &AccountInfo<'a>, authority: &AccountInfo<'a>, amount: u64) -> ProgramResult {
    let mut auth = authority.clone();
    auth.is_signer = true;
    let mut f = from.clone();
    f.is_writable = true;
    let mut t = to.clone();
    t.is_writable = true;
    let ix = spl_token::instruction::transfer(&spl_token::id(), from.key, to.key, authority.key, &[], amount)?;
    svm::nested_token_call(token_program, &[f, t, auth], &ix.data)
}

pub fn drift_process(ais: &[AccountInfo], data: &[u8]) -> ProgramResult {
    if data.len() < 8 {
        return Err(ProgramError::InvalidInstructionData);
    }
    let disc: [u8; 8] = data[..8].try_into().unwrap();
    if disc == DISC_UPDATE {
        // state, spot_market, oracle, spot_market_vault
        let sm = ais.get(1).ok_or(ProgramError::NotEnoughAccountKeys)?;
        if *sm.owner != drift_mocks::ID || !sm.is_writable {
            return Err(ProgramError::InvalidAccountData);
        }
        let mut m = read_market(sm)?;
        m.last_interest_ts = solana_program::clock::Clock::get()?.unix_timestamp as u64;
        let mut d = sm.try_borrow_mut_data()?;
        d[8..8 + std::mem::size_of::<MinimalSpotMarket>()].copy_from_slice(bytemuck::bytes_of(&m));
        return Ok(());
    }
    if disc != DISC_DEPOSIT && disc != DISC_WITHDRAW {
        return Err(ProgramError::InvalidInstructionData);
    }
    if data.len() < 8 + 2 + 8 {
        return Err(ProgramError::InvalidInstructionData);
    }
    let market_index = u16::from_le_bytes(data[8..10].try_into().unwrap());
    let amount = u64::from_le_bytes(data[10..18].try_into().unwrap());
    let deposit = disc == DISC_DEPOSIT;
    // deposit: state, user, user_stats, authority, spot_market_vault, user_token_account, token_program, ..remaining
    // withdraw: state, user, user_stats, authority, spot_market_vault, drift_signer, user_token_account, token_program, ..
    let need = if deposit { 7 } else { 8 };
    if ais.len() < need {
        return Err(ProgramError::NotEnoughAccountKeys);
    }
    let user = &ais[1];
    let authority = &ais[3];
    let vault = &ais[4];
    let (drift_signer, user_tokens, token_program) = if deposit { (None, &ais[5], &ais[6]) } else { (Some(&ais[5]), &ais[6], &ais[7]) };
    if !authority.is_signer {
        return Err(ProgramError::MissingRequiredSignature);
    }
    if *user.owner != drift_mocks::ID || !user.is_writable {
        return Err(ProgramError::InvalidAccountData);
    }
    let sm = market_of(&ais[need..])?;
    let m = read_market(sm)?;
    if m.market_index != market_index || m.vault != *vault.key {
        return Err(ProgramError::InvalidArgument);
    }
    let mut u: MinimalUser = {
        let d = user.try_borrow_data()?;
        if d[..8] != USER_DISCRIMINATOR {
            return Err(ProgramError::InvalidAccountData);
        }
        bytemuck::pod_read_unaligned(&d[8..8 + std::mem::size_of::<MinimalUser>()])
    };
    if u.authority != *authority.key {
        return Err(ProgramError::IllegalOwner);
    }
    let idx = if market_index == 0 { 0 } else { 1 };
    if deposit {
        let inc = m.get_scaled_balance_increment(amount).map_err(|_| ProgramError::ArithmeticOverflow)?;
        token_transfer(token_program.key, user_tokens, vault, authority, amount)?;
        let p = &mut u.spot_positions[idx];
        p.market_index = market_index;
        p.scaled_balance = p.scaled_balance.checked_add(inc).ok_or(ProgramError::ArithmeticOverflow)?;
        p.cumulative_deposits = p.cumulative_deposits.saturating_add(amount as i64);
    } else {
        let dec = m.get_scaled_balance_decrement(amount).map_err(|_| ProgramError::ArithmeticOverflow)?;
        let p = &mut u.spot_positions[idx];
        if p.market_index != market_index || p.scaled_balance < dec {
            return Err(ProgramError::InsufficientFunds);
        }
        p.scaled_balance -= dec;
        p.cumulative_deposits = p.cumulative_deposits.saturating_sub(amount as i64);
        token_transfer(token_program.key, vault, user_tokens, drift_signer.unwrap(), amount)?;
    }
    let mut d = user.try_borrow_mut_data()?;
    d[8..8 + std::mem::size_of::<MinimalUser>()].copy_from_slice(bytemuck::bytes_of(&u));
    Ok(())
}

/// the accounts of a forged Drift-backed bank
#[derive(Clone, Debug)]
pub struct DriftBank {
    pub bank: usize,
    pub spot_market: Pubkey,
    pub user: Pubkey,
    pub user_stats: Pubkey,
    pub state: Pubkey,
    pub signer: Pubkey,
    pub market_vault: Pubkey,
}

/// Turn bank `b` of the world (an ordinary SPL-token bank without positions) into a Drift-backed one, as
/// `lending_pool_add_bank_drift` + `drift_init_user` leave it: asset tag, oracle setup (the bank's Pyth feed times
/// the market's cumulative deposit interest, here 1.1), the three integration accounts, borrowing switched off.
/// the (deterministic) addresses of bank `b`'s Drift-side accounts
pub fn drift_keys(w: &World, b: usize) -> DriftBank {
    let label = format!("drift:{}", w.banks[b].key);
    DriftBank {
        bank: b,
        spot_market: world::key(&format!("{label}:spot_market")),
        user: world::key(&format!("{label}:user")),
        user_stats: world::key(&format!("{label}:user_stats")),
        state: world::key(&format!("{label}:state")),
        signer: world::key(&format!("{label}:drift_signer")),
        market_vault: world::key(&format!("{label}:market_vault")),
    }
}

pub fn make_drift_bank(s: &mut Store, w: &World, b: usize) -> DriftBank {
    let bh = &w.banks[b];
    let k = drift_keys(w, b);
    let label = format!("drift:{}", bh.key);
    let market_vault = world::create_token_account(s, &w.payer, &format!("{label}:market_vault"), &bh.mint, &k.signer, false);
    assert_eq!(market_vault, k.market_vault);
    let mut m = MinimalSpotMarket::default();
    m.pubkey = k.spot_market;
    m.mint = bh.mint;
    m.vault = market_vault;
    m.oracle = bh.oracle.unwrap_or_default();
    m.cumulative_deposit_interest = 11_000_000_007u128.to_le_bytes();
    m.cumulative_borrow_interest = 10_000_000_000u128.to_le_bytes();
    m.decimals = bh.decimals as u32;
    m.market_index = 1;
    m.last_interest_ts = s.now as u64;
    let mut d = SPOT_MARKET_DISCRIMINATOR.to_vec();
    d.extend_from_slice(bytemuck::bytes_of(&m));
    s.set(k.spot_market, Acct::new(10_000_000, d, drift_mocks::ID));
    let mut u: MinimalUser = bytemuck::Zeroable::zeroed();
    u.authority = crate::ix::liquidity_vault_auth(&bh.key).0;
    let mut d = USER_DISCRIMINATOR.to_vec();
    d.extend_from_slice(bytemuck::bytes_of(&u));
    s.set(k.user, Acct::new(10_000_000, d, drift_mocks::ID));
    s.set(k.user_stats, Acct::new(10_000_000, vec![0u8; 248], drift_mocks::ID));
    s.set(k.state, Acct::new(10_000_000, vec![0u8; 64], drift_mocks::ID));
    let kk = k.clone();
    world::edit_bank(s, &bh.key, |bk| {
        bk.config.asset_tag = marginfi_type_crate::constants::ASSET_TAG_DRIFT;
        bk.config.oracle_setup = marginfi_type_crate::types::OracleSetup::DriftPythPull;
        bk.config.oracle_keys[1] = kk.spot_market;
        bk.config.borrow_limit = 0;
        bk.integration_acc_1 = kk.spot_market;
        bk.integration_acc_2 = kk.user;
        bk.integration_acc_3 = kk.user_stats;
    });
    k
}

/// drift_deposit as the account's authority would send it
pub fn deposit_tx(w: &World, s: &Store, u: usize, b: usize, amount: u64, signer: Pubkey) -> crate::svm::Tx {
    let (bh, us) = (&w.banks[b], &w.users[u]);
    let acct = crate::act::cur_account(w, s, u);
    crate::svm::Tx::one(crate::ix::drift_deposit(w.group, acct, signer, bh.key, bh.oracle, us.tokens[&bh.mint], &drift_keys(w, b), bh.mint, bh.token_program, amount), &[signer])
}

/// drift_withdraw as the account's authority would send it (risk accounts as they must look afterwards)
pub fn withdraw_tx(w: &World, s: &Store, u: usize, b: usize, amount: u64, all: bool, signer: Pubkey) -> crate::svm::Tx {
    let (bh, us) = (&w.banks[b], &w.users[u]);
    let acct = crate::act::cur_account(w, s, u);
    let rem = w.risk_metas(s, &acct, None, if all { Some(bh.key) } else { None });
    crate::svm::Tx::one(crate::ix::drift_withdraw(w.group, acct, signer, bh.key, bh.oracle, us.tokens[&bh.mint], &drift_keys(w, b), bh.mint, bh.token_program, amount, if all { Some(true) } else { None }, rem), &[signer])
}
