//! Golden calls: for every instruction of the program (that E1 can execute) a prepared state and a
//! transaction that succeeds from it, with the signer of the entitled role as a parameter.
//! Used by the authorisation (C08), privilege-frame (C12) and gating (C14) matrices.

use crate::act::{self, Action};
use crate::checks::histcommon::{spec_b6, spec_b9, spec_bf};
use crate::ix;
use crate::svm::{process_tx, Acct, Ix, Store, Tx};
use crate::world::{self, *};
use fixed::types::I80F48;
use marginfi_type_crate::constants::*;
use marginfi_type_crate::types::{BankConfigOpt, EmodeEntry, InterestRateConfigOpt, RiskTier, ACCOUNT_DISABLED};
use solana_program::pubkey::Pubkey;

#[derive(Clone, Copy, Debug, PartialEq, Eq)]
pub enum Role {
    /// authority of user i's account (admin while frozen; anyone in receivership for withdraw/repay)
    Authority(usize),
    GroupAdmin,
    Emode,
    Curve,
    Limit,
    Emissions,
    Metadata,
    Risk,
    FeeAdmin,
    AdminOrRisk,
    AdminOrEmode,
    /// no particular signer is required by the statement (permissionless, or "whoever signs")
    Anyone,
}

#[derive(Clone, Copy, Debug, PartialEq, Eq)]
pub enum Kind {
    /// changes balances of / moves funds out of a user account: the account-state matrix applies
    User { receivership_ok: bool },
    Admin,
    Open,
}

pub struct Env {
    pub w: World,
    pub f: World,
    pub s: Store,
    pub em_mint: Pubkey,
    pub em_funding: Pubkey,
    pub em_dest_u0: Pubkey,
    pub fees_dest: Pubkey,
    pub empty_account: Pubkey,
    pub receiver: Pubkey,
    pub receiver_tokens: Vec<Pubkey>,
    pub spare_bank: Pubkey,
}

pub struct Golden {
    pub name: &'static str,
    pub role: Role,
    pub kind: Kind,
    /// which user's account is the subject (for the account-state matrix)
    pub subject: Option<usize>,
    pub prep: Box<dyn Fn(&Env) -> Store + Sync + Send>,
    pub make: Box<dyn Fn(&Env, &Store, Pubkey) -> Tx + Sync + Send>,
    /// banks (indices in env.w.banks) the instruction transacts in, with the role each plays
    pub banks: Vec<usize>,
}

pub fn role_key(env: &Env, r: Role) -> Pubkey {
    let w = &env.w;
    match r {
        Role::Authority(u) => w.users[u].authority,
        Role::GroupAdmin | Role::AdminOrRisk | Role::AdminOrEmode => w.roles.admin,
        Role::Emode => w.roles.emode,
        Role::Curve => w.roles.curve,
        Role::Limit => w.roles.limit,
        Role::Emissions => w.roles.emissions,
        Role::Metadata => w.roles.metadata,
        Role::Risk => w.roles.risk,
        Role::FeeAdmin => w.fee_admin,
        Role::Anyone => act::stranger(),
    }
}

fn em_spec() -> MintSpec {
    MintSpec::spl("emis", 6)
}

pub fn build_env() -> Env {
    let mut s = Store::default();
    let mut b9 = spec_b9();
    b9.config.ir.protocol_origination_fee = I80F48::ZERO;
    // bank 3 (BD) becomes a Drift-backed bank further down (venue.rs); nobody holds a position in it in the base state
    let mut bd = spec_b6();
    bd.label = "BD".into();
    bd.mint = MintSpec::spl("bd", 6);
    let w = build_world_in(&mut s, &WorldSpec::new("G", vec![spec_b6(), b9, spec_bf(100, 5000), bd], &["u0", "u1", "seeder"]));
    crate::venue::make_drift_bank(&mut s, &w, 3);
    let mut fb6 = spec_b6();
    fb6.label = "FB6".into();
    let mut fb9 = spec_b9();
    fb9.label = "FB9".into();
    fb9.config.ir.protocol_origination_fee = I80F48::ZERO;
    let f = build_world_in(&mut s, &WorldSpec::new("FG", vec![fb6, fb9], &["u0", "fu1"]));
    fund(&mut s, &act::stranger(), RICH);
    let go = |s: &mut Store, a: Action, ww: &World| {
        let r = act::apply(ww, s, &a);
        assert!(r.committed, "env construction: {:?} -> {}", a, crate::svm::err_name(r.code));
    };
    for b in 0..3 {
        let amt = 100_000 * 10u64.pow(w.banks[b].decimals as u32);
        go(&mut s, Action::Deposit { u: 2, b, amt, up_to_limit: None }, &w);
    }
    go(&mut s, Action::Deposit { u: 0, b: 0, amt: 5_000_000_000, up_to_limit: None }, &w);
    go(&mut s, Action::Borrow { u: 0, b: 1, amt: 4_000_000_000 }, &w);
    go(&mut s, Action::Deposit { u: 1, b: 1, amt: 500_000_000_000, up_to_limit: None }, &w);
    go(&mut s, Action::Borrow { u: 1, b: 0, amt: 700_000_000 }, &w);
    // foreign group: same shape
    go(&mut s, Action::Deposit { u: 1, b: 0, amt: 90_000_000_000, up_to_limit: None }, &f);
    go(&mut s, Action::Deposit { u: 1, b: 1, amt: 900_000_000_000, up_to_limit: None }, &f);
    go(&mut s, Action::Deposit { u: 0, b: 0, amt: 5_000_000_000, up_to_limit: None }, &f);
    go(&mut s, Action::Borrow { u: 0, b: 1, amt: 4_000_000_000 }, &f);
    // an account of the foreign group whose authority is the main group's u0
    {
        let k = key("FG:acct:shared");
        must(&mut s, Tx::one(ix::account_initialize(f.group, k, w.users[0].authority, f.payer), &[w.users[0].authority, f.payer, k]), "shared-authority foreign account");
        let ta = w.users[0].tokens[&f.banks[0].mint];
        must(&mut s, Tx::one(ix::deposit(f.group, k, w.users[0].authority, f.banks[0].key, ta, f.banks[0].token_program, 2_000_000_000, None, vec![]), &[w.users[0].authority]), "shared account deposit");
        must(&mut s, Tx::one(ix::init_liq_record(k, f.payer), &[f.payer]), "shared account liq record");
    }
    // liquidation records
    for ww in [&w, &f] {
        for u in 0..2 {
            must(&mut s, Tx::one(ix::init_liq_record(ww.users[u].account, ww.payer), &[ww.payer]), "init liq record");
        }
    }
    // the foreign group differs from the main one in its fee settings (so that a bank accrued under the
    // wrong group is observably different)
    must(&mut s, Tx::one(ix::config_group_fee(f.group, f.fee_admin, false), &[f.fee_admin]), "foreign group: program fees off");
    // emissions on bank 0 of both groups
    let em_mint = create_mint(&mut s, &w.payer, &w.mint_auth, &em_spec());
    let em_funding = create_token_account(&mut s, &w.payer, "G:em_funding", &em_mint, &w.roles.emissions, false);
    mint_to(&mut s, &w.mint_auth, &em_mint, &em_funding, false, 1_000_000_000_000);
    must(
        &mut s,
        Tx::one(ix::setup_emissions(w.group, w.roles.emissions, w.banks[0].key, em_mint, em_funding, spl_token::id(), EMISSIONS_FLAG_LENDING_ACTIVE, 1_000_000, 1_000_000_000), &[w.roles.emissions]),
        "setup emissions",
    );
    let f_funding = create_token_account(&mut s, &w.payer, "FG:em_funding", &em_mint, &f.roles.emissions, false);
    mint_to(&mut s, &w.mint_auth, &em_mint, &f_funding, false, 1_000_000_000_000);
    must(
        &mut s,
        Tx::one(ix::setup_emissions(f.group, f.roles.emissions, f.banks[0].key, em_mint, f_funding, spl_token::id(), EMISSIONS_FLAG_LENDING_ACTIVE, 1_000_000, 1_000_000_000), &[f.roles.emissions]),
        "setup emissions (foreign)",
    );
    // emissions destination of u0: the canonical ATA of a wallet of their choice
    let dest_wallet = key("G:u0:emissions_wallet");
    let em_dest_u0 = ata(&dest_wallet, &em_mint, &spl_token::id());
    create_token_account_at(&mut s, &w.payer, &em_dest_u0, &em_mint, &dest_wallet, false);
    must(&mut s, Tx::one(ix::update_emissions_destination(w.users[0].account, w.users[0].authority, dest_wallet), &[w.users[0].authority]), "update emissions dest");
    // metadata, staked settings
    for ww in [&w, &f] {
        must(&mut s, Tx::one(ix::init_bank_metadata(ww.banks[0].key, ww.payer), &[ww.payer]), "init metadata");
        let cfg = marginfi::instructions::StakedSettingsConfig {
            // both groups' staked settings name the same SOL feed, as groups on a real cluster do
            oracle: w.banks[1].oracle.unwrap(),
            asset_weight_init: I80F48::from_num(0.7).into(),
            asset_weight_maint: I80F48::from_num(0.8).into(),
            deposit_limit: 1_000_000_000_000,
            total_asset_value_init_limit: 0,
            oracle_max_age: 60,
            risk_tier: RiskTier::Collateral,
        };
        must(&mut s, Tx::one(ix::init_staked_settings(ww.group, ww.roles.admin, ww.payer, cfg), &[ww.roles.admin, ww.payer]), "init staked settings");
    }
    // a year passes; fees are collected so that fee and insurance vaults hold tokens
    s.advance(31_536_000);
    refresh_oracles(&mut s, &w);
    refresh_oracles(&mut s, &f);
    for ww in [&w, &f] {
        for b in 0..ww.banks.len() {
            go(&mut s, Action::Accrue { b }, ww);
            go(&mut s, Action::CollectFees { b }, ww);
        }
    }
    // fees destination of bank 0: ATA of a wallet
    let fees_wallet = key("G:fees_wallet");
    let fees_dest = ata(&fees_wallet, &w.banks[0].mint, &spl_token::id());
    create_token_account_at(&mut s, &w.payer, &fees_dest, &w.banks[0].mint, &fees_wallet, false);
    must(&mut s, Tx::one(ix::update_fees_destination(w.group, w.banks[0].key, w.roles.admin, fees_dest), &[w.roles.admin]), "fees destination");
    let ffees = ata(&fees_wallet, &f.banks[0].mint, &spl_token::id());
    must(&mut s, Tx::one(ix::update_fees_destination(f.group, f.banks[0].key, f.roles.admin, ffees), &[f.roles.admin]), "fees destination (foreign)");
    // an empty second account of u0, and a spare empty bank that can be closed
    let empty_account = key("G:acct:u0:empty");
    must(&mut s, Tx::one(ix::account_initialize(w.group, empty_account, w.users[0].authority, w.payer), &[w.users[0].authority, w.payer, empty_account]), "empty account");
    let spare_bank = key("G:bank:spare");
    must(
        &mut s,
        Tx::one(ix::add_bank(w.group, w.roles.admin, w.payer, w.fee_wallet, w.banks[0].mint, spare_bank, spl_token::id(), BankCfg::default().compact()), &[w.roles.admin, w.payer, spare_bank]),
        "spare bank",
    );
    // a third-party liquidator with funded token accounts
    let receiver = key("G:receiver");
    fund(&mut s, &receiver, RICH);
    let mut receiver_tokens = vec![];
    for b in 0..3 {
        let ta = create_token_account(&mut s, &w.payer, &format!("G:receiver:ta{b}"), &w.banks[b].mint, &receiver, w.banks[b].t22);
        mint_to(&mut s, &w.mint_auth, &w.banks[b].mint, &ta, w.banks[b].t22, 1_000_000_000_000);
        receiver_tokens.push(ta);
    }
    Env { w, f, s, em_mint, em_funding, em_dest_u0, fees_dest, empty_account, receiver, receiver_tokens, spare_bank }
}

fn base(e: &Env) -> Store {
    e.s.clone()
}

/// u0 holds a position in the Drift-backed bank (deposited through the real drift_deposit)
pub fn drift_prep(e: &Env) -> Store {
    let mut s = e.s.clone();
    let sg = e.w.users[0].authority;
    must(&mut s, crate::venue::deposit_tx(&e.w, &e.s, 0, 3, 50_000_000, sg), "drift_deposit for the drift_withdraw goldens");
    s
}

/// u0 of the main group is made unhealthy (debt asset x1.9) — liquidatable, not bankrupt
pub fn unhealthy(e: &Env) -> Store {
    let mut s = e.s.clone();
    scale_pyth_price(&mut s, &e.w.banks[1].oracle.unwrap(), 13, 1);
    s
}

/// token account of `mint` whose owner field is `owner` (first match in the store)
pub fn token_account_of(s: &Store, mint: &Pubkey, owner: &Pubkey) -> Option<Pubkey> {
    s.accts
        .iter()
        .find(|(_, a)| (a.owner == spl_token::id() || a.owner == spl_token_2022::id()) && a.data.len() >= 165 && a.data[0..32] == mint.to_bytes() && a.data[32..64] == owner.to_bytes())
        .map(|(k, _)| *k)
}

/// every identity of the signer menu gets funded token accounts for banks 0 and 1
pub fn fund_all_identities(e: &Env, s: &mut Store) {
    let w = &e.w;
    let ids = [w.users[0].authority, w.users[1].authority, act::stranger(), w.roles.admin, w.roles.emode, w.roles.curve, w.roles.limit, w.roles.emissions, w.roles.metadata, w.roles.risk, w.fee_admin, e.f.roles.admin];
    for (i, k) in ids.iter().enumerate() {
        fund(s, k, 1_000_000_000_000);
        for b in 0..2 {
            if token_account_of(s, &w.banks[b].mint, k).is_none() {
                let t = create_token_account(s, &w.payer, &format!("G:idfund:{i}:{b}"), &w.banks[b].mint, k, w.banks[b].t22);
                mint_to(s, &w.mint_auth, &w.banks[b].mint, &t, w.banks[b].t22, 1_000_000_000_000);
            }
        }
    }
}

fn one_ix(i: Ix, signers: &[Pubkey]) -> Tx {
    Tx::one(i, signers)
}

fn user_action(a: Action, u: usize, kind: Kind, name: &'static str, banks: Vec<usize>, prep: Box<dyn Fn(&Env) -> Store + Sync + Send>) -> Golden {
    Golden {
        name,
        role: Role::Authority(u),
        kind,
        subject: Some(u),
        prep,
        make: Box::new(move |e, s, signer| {
            let i = act::user_ix(&e.w, s, &a, signer).unwrap();
            let mut sg = vec![signer];
            sg.extend(act::extra_signers(&e.w, s, &a));
            Tx::one(i, &sg)
        }),
        banks,
    }
}

fn no_entries() -> [EmodeEntry; 10] {
    [EmodeEntry { collateral_bank_emode_tag: 0, flags: 0, pad0: [0; 5], asset_weight_init: I80F48::ZERO.into(), asset_weight_maint: I80F48::ZERO.into() }; 10]
}

/// forge u0 into a bankrupt account: no assets, debt in bank 1
pub fn bankrupt(e: &Env) -> Store {
    let mut s = e.s.clone();
    let w = &e.w;
    let b0 = w.banks[0].key;
    // drop the collateral position, keep totals consistent
    let acct = world::account(&s, &w.users[0].account);
    let bal = acct.lending_account.balances.iter().find(|b| b.active != 0 && b.bank_pk == b0).cloned().unwrap();
    world::edit_bank(&mut s, &b0, |b| {
        b.total_asset_shares = (I80F48::from(b.total_asset_shares) - I80F48::from(bal.asset_shares)).into();
        b.lending_position_count -= 1;
    });
    world::edit_account(&mut s, &w.users[0].account, |a| {
        let mut bals: Vec<_> = a.lending_account.balances.iter().filter(|b| b.active != 0 && b.bank_pk != b0).cloned().collect();
        bals.sort_by(|x, y| y.bank_pk.cmp(&x.bank_pk));
        for (i, slot) in a.lending_account.balances.iter_mut().enumerate() {
            *slot = if i < bals.len() { bals[i] } else { marginfi_type_crate::types::Balance::empty_deactivated() };
        }
    });
    s
}

/// bank 1 (u1's collateral) is forged into a staked-collateral bank (pool exchange rate ~1.05), bank 0
/// (u1's debt) carries the SOL tag such banks may be borrowed against
pub fn staked_prep(e: &Env) -> Store {
    let mut s = e.s.clone();
    let supply = u64::from_le_bytes(s.get(&e.w.banks[1].mint).unwrap().data[36..44].try_into().unwrap());
    world::make_staked_bank(&mut s, &e.w, 1, (supply as u128 * 105 / 100) as u64 + 1_000_000_000);
    world::edit_bank(&mut s, &e.w.banks[0].key, |b| b.config.asset_tag = marginfi_type_crate::constants::ASSET_TAG_SOL);
    s
}

pub fn goldens() -> Vec<Golden> {
    let mut v: Vec<Golden> = vec![];
    let user = Kind::User { receivership_ok: false };
    let user_r = Kind::User { receivership_ok: true };
    // ---------------- user instructions
    v.push(user_action(Action::Deposit { u: 0, b: 0, amt: 10_000_000, up_to_limit: None }, 0, user, "lending_account_deposit", vec![0], Box::new(base)));
    v.push(user_action(Action::Withdraw { u: 0, b: 0, amt: 10_000_000, all: false }, 0, user_r, "lending_account_withdraw", vec![0], Box::new(base)));
    v.push(user_action(Action::Borrow { u: 0, b: 1, amt: 10_000_000 }, 0, user, "lending_account_borrow", vec![1], Box::new(base)));
    v.push(user_action(Action::Repay { u: 0, b: 1, amt: 10_000_000, all: false }, 0, user_r, "lending_account_repay", vec![1], Box::new(base)));
    v.push(user_action(Action::Deposit { u: 0, b: 2, amt: 1_000_000, up_to_limit: None }, 0, user, "lending_account_deposit(token2022)", vec![2], Box::new(base)));
    v.push(user_action(
        Action::CloseBalance { u: 0, b: 2 },
        0,
        user,
        "lending_account_close_balance",
        vec![2],
        Box::new(|e| {
            let mut s = e.s.clone();
            // bank 2's mint charges a 1 % transfer fee: withdrawing 99 debits ceil(99/0.99) = 100
            assert!(act::apply(&e.w, &mut s, &Action::Deposit { u: 0, b: 2, amt: 100, up_to_limit: None }).committed);
            assert!(act::apply(&e.w, &mut s, &Action::Withdraw { u: 0, b: 2, amt: 99, all: false }).committed);
            s
        }),
    ));
    // venue instructions through the harness's Drift stand-in (venue.rs)
    v.push(Golden {
        name: "drift_deposit",
        role: Role::Authority(0),
        kind: user,
        subject: Some(0),
        prep: Box::new(base),
        make: Box::new(|e, s, signer| crate::venue::deposit_tx(&e.w, s, 0, 3, 50_000_000, signer)),
        banks: vec![3],
    });
    v.push(Golden {
        name: "drift_withdraw",
        role: Role::Authority(0),
        kind: user_r,
        subject: Some(0),
        prep: Box::new(drift_prep),
        make: Box::new(|e, s, signer| crate::venue::withdraw_tx(&e.w, s, 0, 3, 10_000_000, false, signer)),
        banks: vec![3],
    });
    v.push(Golden {
        name: "drift_withdraw(withdraw_all)",
        role: Role::Authority(0),
        kind: user_r,
        subject: Some(0),
        prep: Box::new(drift_prep),
        make: Box::new(|e, s, signer| crate::venue::withdraw_tx(&e.w, s, 0, 3, 0, true, signer)),
        banks: vec![3],
    });
    // liquidation: the liquidator (u1) is the acting account
    v.push(Golden {
        name: "lending_account_liquidate",
        role: Role::Authority(1),
        kind: user,
        subject: Some(1),
        prep: Box::new(unhealthy),
        make: Box::new(|e, s, signer| {
            let a = Action::Liquidate { liquidator: 1, liquidatee: 0, asset: 0, liab: 1, amt: 20_000_000 };
            Tx::one(act::user_ix(&e.w, s, &a, signer).unwrap(), &[signer])
        }),
        banks: vec![0, 1],
    });
    v.push(user_action(Action::Transfer { u: 0 }, 0, user, "transfer_to_new_account", vec![], Box::new(base)));
    v.push(Golden {
        name: "transfer_to_new_account_pda",
        role: Role::Authority(0),
        kind: user,
        subject: Some(0),
        prep: Box::new(base),
        make: Box::new(|e, _s, signer| {
            let w = &e.w;
            let (_k, i) = ix::transfer_to_new_account_pda(w.group, w.users[0].account, signer, w.payer, key("G:new_authority"), w.fee_wallet, 3, None);
            Tx::one(i, &[signer, w.payer])
        }),
        banks: vec![],
    });
    v.push(Golden {
        name: "marginfi_account_initialize_pda",
        role: Role::Anyone,
        kind: Kind::Open,
        subject: None,
        prep: Box::new(base),
        make: Box::new(|e, _s, signer| {
            let (_k, i) = ix::account_initialize_pda(e.w.group, signer, e.w.payer, 9, None);
            one_ix(i, &[signer, e.w.payer])
        }),
        banks: vec![],
    });
    // a borrow whose health check reads a staked-collateral bank (three oracle accounts)
    v.push(Golden {
        name: "lending_account_borrow(staked collateral)",
        role: Role::Authority(1),
        kind: user,
        subject: Some(1),
        prep: Box::new(staked_prep),
        make: Box::new(|e, s, signer| {
            let a = Action::Borrow { u: 1, b: 0, amt: 1_000_000 };
            Tx::one(act::user_ix(&e.w, s, &a, signer).unwrap(), &[signer])
        }),
        banks: vec![0],
    });
    v.push(Golden {
        name: "marginfi_account_close",
        role: Role::Authority(0),
        kind: Kind::Admin, // only the authority, even while frozen (no admin take-over for closing)
        subject: None,
        prep: Box::new(base),
        make: Box::new(|e, _s, signer| Tx::one(ix::account_close(e.empty_account, signer, e.w.payer), &[signer, e.w.payer])),
        banks: vec![],
    });
    // flash loan bracket with a borrow inside
    v.push(Golden {
        name: "lending_account_start_flashloan+end_flashloan",
        role: Role::Authority(0),
        kind: Kind::Admin, // authority only: no admin take-over, no receivership
        subject: None,
        prep: Box::new(base),
        make: Box::new(|e, s, signer| {
            let w = &e.w;
            let acct = w.users[0].account;
            let rem = w.risk_metas(s, &acct, None, None);
            Tx::new(vec![ix::start_flashloan(acct, signer, 1), ix::end_flashloan(acct, signer, rem)], &[signer])
        }),
        banks: vec![],
    });
    // receivership liquidation bracket by a third party
    v.push(Golden {
        name: "start_liquidation+repay+withdraw+end_liquidation",
        role: Role::Anyone,
        kind: Kind::Open,
        subject: Some(0),
        prep: Box::new(|e| {
            let mut s = unhealthy(e);
            fund_all_identities(e, &mut s);
            s
        }),
        make: Box::new(|e, s, signer| {
            let w = &e.w;
            let acct = w.users[0].account;
            let rem = w.risk_metas(s, &acct, None, None);
            // the receiver's own token accounts pay / receive
            let ta0 = token_account_of(s, &w.banks[0].mint, &signer).unwrap_or(e.receiver_tokens[0]);
            let ta1 = token_account_of(s, &w.banks[1].mint, &signer).unwrap_or(e.receiver_tokens[1]);
            let repay = ix::repay(w.group, acct, signer, w.banks[1].key, ta1, w.banks[1].token_program, 100_000_000, None, vec![]);
            let wd = ix::withdraw(w.group, acct, signer, w.banks[0].key, ta0, w.banks[0].token_program, 4_000_000, None, rem.clone());
            Tx::new(vec![ix::start_liquidation(acct, signer, rem.clone()), repay, wd, ix::end_liquidation(acct, signer, w.fee_wallet, rem)], &[signer])
        }),
        banks: vec![0, 1],
    });
    // forced deleverage bracket by the risk admin
    v.push(Golden {
        name: "start_deleverage+repay+end_deleverage",
        role: Role::Risk,
        kind: Kind::Admin,
        subject: Some(0),
        prep: Box::new(|e| {
            let mut s = e.s.clone();
            let ta = create_token_account(&mut s, &e.w.payer, "G:risk:ta1", &e.w.banks[1].mint, &e.w.roles.risk, false);
            mint_to(&mut s, &e.w.mint_auth, &e.w.banks[1].mint, &ta, false, 1_000_000_000_000);
            for (i, k) in [e.w.roles.emode, e.w.roles.curve, e.w.roles.admin, act::stranger(), e.w.users[0].authority, e.w.users[1].authority, e.w.roles.limit, e.w.roles.emissions, e.w.roles.metadata, e.w.fee_admin].iter().enumerate() {
                let t = create_token_account(&mut s, &e.w.payer, &format!("G:risk:alt{i}"), &e.w.banks[1].mint, k, false);
                mint_to(&mut s, &e.w.mint_auth, &e.w.banks[1].mint, &t, false, 1_000_000_000);
            }
            s
        }),
        make: Box::new(|e, s, signer| {
            let w = &e.w;
            let acct = w.users[0].account;
            let rem = w.risk_metas(s, &acct, None, None);
            // the payer token account: the one owned by the signer (searched in the store)
            let ta = s.accts.iter().find(|(_, a)| a.owner == spl_token::id() && a.data.len() == 165 && a.data[0..32] == e.w.banks[1].mint.to_bytes() && a.data[32..64] == signer.to_bytes()).map(|(k, _)| *k).unwrap_or(e.receiver_tokens[1]);
            let repay = ix::repay(w.group, acct, signer, w.banks[1].key, ta, w.banks[1].token_program, 100_000_000, None, vec![]);
            Tx::new(vec![ix::start_deleverage(w.group, acct, signer, rem.clone()), repay, ix::end_deleverage(w.group, acct, signer, rem)], &[signer])
        }),
        banks: vec![1],
    });
    v.push(Golden {
        name: "marginfi_account_set_freeze",
        role: Role::GroupAdmin,
        kind: Kind::Admin,
        subject: Some(0),
        prep: Box::new(base),
        make: Box::new(|e, _s, signer| one_ix(ix::set_account_freeze(e.w.group, e.w.users[0].account, signer, true), &[signer])),
        banks: vec![],
    });
    v.push(Golden {
        name: "lending_account_withdraw_emissions",
        role: Role::Authority(0),
        kind: user,
        subject: Some(0),
        prep: Box::new(|e| {
            let mut s = e.s.clone();
            s.advance(86_400 * 30);
            refresh_oracles(&mut s, &e.w);
            s
        }),
        make: Box::new(|e, _s, signer| one_ix(ix::withdraw_emissions(e.w.group, e.w.users[0].account, signer, e.w.banks[0].key, e.em_mint, e.em_dest_u0, spl_token::id()), &[signer])),
        banks: vec![0],
    });
    v.push(Golden {
        name: "lending_account_withdraw_emissions_permissionless",
        role: Role::Anyone,
        kind: Kind::Open,
        subject: Some(0),
        prep: Box::new(|e| {
            let mut s = e.s.clone();
            s.advance(86_400 * 30);
            refresh_oracles(&mut s, &e.w);
            s
        }),
        make: Box::new(|e, _s, signer| one_ix(ix::withdraw_emissions_permissionless(e.w.group, e.w.users[0].account, e.w.banks[0].key, e.em_mint, e.em_dest_u0, spl_token::id()), &[signer])),
        banks: vec![0],
    });
    v.push(Golden {
        name: "lending_account_settle_emissions",
        role: Role::Anyone,
        kind: Kind::Open,
        subject: Some(0),
        prep: Box::new(base),
        make: Box::new(|e, _s, signer| one_ix(ix::settle_emissions(e.w.users[0].account, e.w.banks[0].key), &[signer])),
        banks: vec![0],
    });
    v.push(Golden {
        name: "marginfi_account_update_emissions_destination_account",
        role: Role::Authority(0),
        kind: Kind::Admin,
        subject: None,
        prep: Box::new(base),
        make: Box::new(|e, _s, signer| one_ix(ix::update_emissions_destination(e.w.users[0].account, signer, key("G:other_wallet")), &[signer])),
        banks: vec![],
    });
    v.push(Golden {
        name: "marginfi_account_initialize",
        role: Role::Anyone,
        kind: Kind::Open,
        subject: None,
        prep: Box::new(base),
        make: Box::new(|e, _s, signer| {
            let k = key("G:acct:fresh");
            one_ix(ix::account_initialize(e.w.group, k, signer, e.w.payer), &[signer, e.w.payer, k])
        }),
        banks: vec![],
    });
    v.push(Golden {
        name: "marginfi_account_init_liq_record",
        role: Role::Anyone,
        kind: Kind::Open,
        subject: None,
        prep: Box::new(base),
        make: Box::new(|e, _s, signer| one_ix(ix::init_liq_record(e.empty_account, signer), &[signer])),
        banks: vec![],
    });
    v.push(Golden {
        name: "purge_deleverage_balance",
        role: Role::Risk,
        kind: Kind::Admin,
        subject: Some(1),
        prep: Box::new(|e| {
            let mut s = e.s.clone();
            // bank 2 in completed tokenless-repayment mode; u1 lends it and owes nothing there
            assert!(act::apply(&e.w, &mut s, &Action::Deposit { u: 1, b: 2, amt: 1_000_000, up_to_limit: None }).committed);
            world::edit_bank(&mut s, &e.w.banks[2].key, |b| b.flags |= TOKENLESS_REPAYMENTS_ALLOWED | TOKENLESS_REPAYMENTS_COMPLETE);
            s
        }),
        make: Box::new(|e, _s, signer| one_ix(ix::purge_deleverage_balance(e.w.group, e.w.users[1].account, signer, e.w.banks[2].key), &[signer])),
        banks: vec![2],
    });
    v.push(Golden {
        name: "lending_account_pulse_health",
        role: Role::Anyone,
        kind: Kind::Open,
        subject: None,
        prep: Box::new(base),
        make: Box::new(|e, s, signer| one_ix(ix::pulse_health(e.w.users[0].account, e.w.risk_metas(s, &e.w.users[0].account, None, None)), &[signer])),
        banks: vec![],
    });
    // ---------------- group / bank administration
    let admin = |name: &'static str, role: Role, prep: Box<dyn Fn(&Env) -> Store + Sync + Send>, make: Box<dyn Fn(&Env, &Store, Pubkey) -> Tx + Sync + Send>, banks: Vec<usize>| Golden { name, role, kind: if role == Role::Anyone { Kind::Open } else { Kind::Admin }, subject: None, prep, make, banks };
    v.push(admin("marginfi_group_configure", Role::GroupAdmin, Box::new(base), Box::new(|e, _s, sg| one_ix(ix::group_configure(e.w.group, sg, &e.w.roles, None, None), &[sg])), vec![]));
    v.push(admin(
        "lending_pool_configure_bank",
        Role::GroupAdmin,
        Box::new(base),
        Box::new(|e, _s, sg| one_ix(ix::configure_bank(e.w.group, sg, e.w.banks[0].key, BankConfigOpt { deposit_limit: Some(1 << 60), asset_weight_init: Some(I80F48::from_num(0.75).into()), ..Default::default() }), &[sg])),
        vec![0],
    ));
    v.push(admin(
        "lending_pool_configure_bank_interest_only",
        Role::Curve,
        Box::new(base),
        Box::new(|e, _s, sg| one_ix(ix::configure_bank_interest_only(e.w.group, sg, e.w.banks[0].key, InterestRateConfigOpt { hundred_util_rate: Some(rate_u32(5.0)), ..Default::default() }), &[sg])),
        vec![0],
    ));
    v.push(admin("lending_pool_configure_bank_limits_only", Role::Limit, Box::new(base), Box::new(|e, _s, sg| one_ix(ix::configure_bank_limits_only(e.w.group, sg, e.w.banks[0].key, Some(1 << 59), Some(1 << 58), Some(12345)), &[sg])), vec![0]));
    v.push(admin(
        "lending_pool_force_tokenless_repay_complete",
        Role::Risk,
        Box::new(|e| {
            let mut s = e.s.clone();
            world::edit_bank(&mut s, &e.w.banks[2].key, |b| b.flags |= TOKENLESS_REPAYMENTS_ALLOWED);
            s
        }),
        Box::new(|e, _s, sg| one_ix(ix::force_tokenless_repay_complete(e.w.group, sg, e.w.banks[2].key), &[sg])),
        vec![2],
    ));
    v.push(admin(
        "lending_pool_configure_bank_oracle",
        Role::GroupAdmin,
        Box::new(base),
        Box::new(|e, _s, sg| {
            let o = e.w.banks[2].oracle.unwrap();
            one_ix(ix::configure_bank_oracle(e.w.group, sg, e.w.banks[0].key, 3, o, vec![ix::ro(o)]), &[sg])
        }),
        vec![0],
    ));
    v.push(admin("lending_pool_set_fixed_oracle_price", Role::GroupAdmin, Box::new(base), Box::new(|e, _s, sg| one_ix(ix::set_fixed_oracle_price(e.w.group, sg, e.w.banks[0].key, I80F48::from_num(1.01).into()), &[sg])), vec![0]));
    v.push(admin(
        "lending_pool_configure_bank_emode",
        Role::Emode,
        Box::new(base),
        Box::new(|e, _s, sg| {
            let mut en = no_entries();
            en[0] = EmodeEntry { collateral_bank_emode_tag: 3, flags: 0, pad0: [0; 5], asset_weight_init: I80F48::from_num(0.85).into(), asset_weight_maint: I80F48::from_num(0.9).into() };
            one_ix(ix::configure_bank_emode(e.w.group, sg, e.w.banks[1].key, 9, en), &[sg])
        }),
        vec![1],
    ));
    v.push(admin("lending_pool_clone_emode", Role::AdminOrEmode, Box::new(base), Box::new(|e, _s, sg| one_ix(ix::clone_emode(e.w.group, sg, e.w.banks[0].key, e.w.banks[1].key), &[sg])), vec![0, 1]));
    v.push(admin(
        "lending_pool_add_bank",
        Role::GroupAdmin,
        Box::new(base),
        Box::new(|e, _s, sg| {
            let k = key("G:bank:new");
            one_ix(ix::add_bank(e.w.group, sg, e.w.payer, e.w.fee_wallet, e.w.banks[1].mint, k, spl_token::id(), BankCfg::default().compact()), &[sg, e.w.payer, k])
        }),
        vec![],
    ));
    v.push(admin(
        "lending_pool_add_bank_with_seed",
        Role::GroupAdmin,
        Box::new(base),
        Box::new(|e, _s, sg| {
            let (_k, i) = ix::add_bank_with_seed(e.w.group, sg, e.w.payer, e.w.fee_wallet, e.w.banks[1].mint, spl_token::id(), BankCfg::default().compact(), 77);
            one_ix(i, &[sg, e.w.payer])
        }),
        vec![],
    ));
    v.push(admin(
        "lending_pool_add_bank_permissionless",
        Role::Anyone,
        Box::new(|e| {
            let mut s = e.s.clone();
            world::forge_single_pool(&mut s, "G", &e.w.banks[1].mint, 5_000_000_000_000);
            s
        }),
        Box::new(|e, s, sg| {
            let pool = world::key("singlepool:G");
            let (mint, sol_pool) = ix::single_pool_keys(&pool);
            let st: marginfi_type_crate::types::StakedSettings = crate::world::read_pod(s.data(&ix::staked_settings_key(&e.w.group)));
            let (_k, i) = ix::add_bank_permissionless(e.w.group, sg, pool, 5, vec![ix::ro(st.oracle), ix::ro(mint), ix::ro(sol_pool)]);
            one_ix(i, &[sg])
        }),
        vec![],
    ));
    v.push(admin(
        "marginfi_group_initialize",
        Role::Anyone,
        Box::new(base),
        Box::new(|_e, _s, sg| {
            let g = world::key("G:fresh-group");
            one_ix(ix::group_initialize(g, sg), &[sg, g])
        }),
        vec![],
    ));
    v.push(admin(
        "lending_pool_handle_bankruptcy",
        Role::AdminOrRisk,
        Box::new(bankrupt),
        Box::new(|e, s, sg| {
            let a = Action::Bankruptcy { signer: act::Signer::GroupAdmin, u: 0, b: 1 };
            one_ix(act::user_ix(&e.w, s, &a, sg).unwrap(), &[sg])
        }),
        vec![1],
    ));
    v.push(admin("lending_pool_collect_bank_fees", Role::Anyone, Box::new(|e| {
            // a further year of interest so that every fee bucket holds whole tokens again
            let mut s = e.s.clone();
            s.advance(31_536_000);
            refresh_oracles(&mut s, &e.w);
            assert!(act::apply(&e.w, &mut s, &Action::Accrue { b: 0 }).committed);
            s
        }), Box::new(|e, s, sg| one_ix(act::user_ix(&e.w, s, &Action::CollectFees { b: 0 }, sg).unwrap(), &[sg])), vec![0]));
    v.push(admin("lending_pool_collect_bank_fees(fee wallet rotated, group cache stale)", Role::Anyone, Box::new(|e| {
            let mut s = e.s.clone();
            s.advance(31_536_000);
            refresh_oracles(&mut s, &e.w);
            assert!(act::apply(&e.w, &mut s, &Action::Accrue { b: 0 }).committed);
            // the global fee admin moves the fee wallet; nobody propagates the change to the group
            let fs = world::fee_state(&s);
            let nw = world::key("G:rotated-fee-wallet");
            must(&mut s, Tx::one(ix::edit_global_fee_state(e.w.fee_admin, e.w.fee_admin, nw, fs.bank_init_flat_sol_fee, fs.liquidation_flat_sol_fee, fs.program_fee_fixed, fs.program_fee_rate, fs.liquidation_max_fee), &[e.w.fee_admin]), "rotate fee wallet");
            let b0 = &e.w.banks[0];
            let na = ata(&nw, &b0.mint, &b0.token_program);
            create_token_account_at(&mut s, &e.w.payer, &na, &b0.mint, &nw, b0.t22);
            s
        }), Box::new(|e, s, sg| {
            let b0 = &e.w.banks[0];
            let na = ata(&world::fee_state(s).global_fee_wallet, &b0.mint, &b0.token_program);
            one_ix(ix::collect_bank_fees(e.w.group, b0.key, na, b0.token_program, e.w.mint_meta(b0)), &[sg])
        }), vec![0]));
    v.push(admin(
        "lending_pool_accrue_bank_interest",
        Role::Anyone,
        Box::new(|e| {
            // a day has passed: the accrual has an observable effect
            let mut s = e.s.clone();
            s.advance(86_400);
            refresh_oracles(&mut s, &e.w);
            s
        }),
        Box::new(|e, _s, sg| one_ix(ix::accrue(e.w.group, e.w.banks[0].key), &[sg])),
        vec![0],
    ));
    // an empty receivership bracket (nothing seized, nothing repaid)
    v.push(Golden {
        name: "start_liquidation+end_liquidation(empty)",
        role: Role::Anyone,
        kind: Kind::Open,
        subject: Some(0),
        prep: Box::new(|e| {
            let mut s = unhealthy(e);
            fund_all_identities(e, &mut s);
            s
        }),
        make: Box::new(|e, s, signer| {
            let w = &e.w;
            let acct = w.users[0].account;
            let rem = w.risk_metas(s, &acct, None, None);
            Tx::new(vec![ix::start_liquidation(acct, signer, rem.clone()), ix::end_liquidation(acct, signer, w.fee_wallet, rem)], &[signer])
        }),
        banks: vec![0, 1],
    });
    v.push(admin(
        "lending_pool_withdraw_fees",
        Role::GroupAdmin,
        Box::new(base),
        Box::new(|e, _s, sg| one_ix(ix::withdraw_fees(e.w.group, e.w.banks[0].key, sg, e.w.users[1].tokens[&e.w.banks[0].mint], spl_token::id(), 5, vec![]), &[sg])),
        vec![0],
    ));
    v.push(admin(
        "lending_pool_withdraw_insurance",
        Role::GroupAdmin,
        Box::new(base),
        Box::new(|e, _s, sg| one_ix(ix::withdraw_insurance(e.w.group, e.w.banks[0].key, sg, e.w.users[1].tokens[&e.w.banks[0].mint], spl_token::id(), 5, vec![]), &[sg])),
        vec![0],
    ));
    v.push(admin(
        "lending_pool_update_fees_destination_account",
        Role::GroupAdmin,
        Box::new(base),
        Box::new(|e, _s, sg| one_ix(ix::update_fees_destination(e.w.group, e.w.banks[0].key, sg, e.w.users[1].tokens[&e.w.banks[0].mint]), &[sg])),
        vec![0],
    ));
    v.push(admin(
        "lending_pool_withdraw_fees_permissionless",
        Role::Anyone,
        Box::new(base),
        Box::new(|e, _s, sg| one_ix(ix::withdraw_fees_permissionless(e.w.group, e.w.banks[0].key, e.fees_dest, spl_token::id(), 5, vec![]), &[sg])),
        vec![0],
    ));
    v.push(admin("lending_pool_close_bank", Role::GroupAdmin, Box::new(base), Box::new(|e, _s, sg| one_ix(ix::close_bank(e.w.group, e.spare_bank, sg), &[sg])), vec![]));
    v.push(admin("panic_pause", Role::FeeAdmin, Box::new(base), Box::new(|_e, _s, sg| one_ix(ix::panic_pause(sg), &[sg])), vec![]));
    v.push(admin(
        "panic_unpause",
        Role::FeeAdmin,
        Box::new(|e| {
            let mut s = e.s.clone();
            must(&mut s, Tx::one(ix::panic_pause(e.w.fee_admin), &[e.w.fee_admin]), "pause");
            s
        }),
        Box::new(|_e, _s, sg| one_ix(ix::panic_unpause(sg), &[sg])),
        vec![],
    ));
    v.push(admin(
        "panic_unpause_permissionless",
        Role::Anyone,
        Box::new(|e| {
            let mut s = e.s.clone();
            must(&mut s, Tx::one(ix::panic_pause(e.w.fee_admin), &[e.w.fee_admin]), "pause");
            s.advance(1800);
            s
        }),
        Box::new(|_e, _s, sg| one_ix(ix::panic_unpause_permissionless(), &[sg])),
        vec![],
    ));
    v.push(admin(
        "edit_global_fee_state",
        Role::FeeAdmin,
        Box::new(base),
        Box::new(|e, _s, sg| one_ix(ix::edit_global_fee_state(sg, e.w.fee_admin, e.w.fee_wallet, 2000, 6000, I80F48::from_num(0.003).into(), I80F48::from_num(0.04).into(), I80F48::from_num(0.06).into()), &[sg])),
        vec![],
    ));
    v.push(admin("config_group_fee", Role::FeeAdmin, Box::new(base), Box::new(|e, _s, sg| one_ix(ix::config_group_fee(e.w.group, sg, false), &[sg])), vec![]));
    v.push(admin("propagate_fee_state", Role::Anyone, Box::new(base), Box::new(|e, _s, sg| one_ix(ix::propagate_fee_state(e.w.group), &[sg])), vec![]));
    v.push(admin(
        "init_staked_settings",
        Role::GroupAdmin,
        Box::new(|e| {
            let mut s = e.s.clone();
            s.accts.remove(&ix::staked_settings_key(&e.w.group));
            s
        }),
        Box::new(|e, _s, sg| {
            let cfg = marginfi::instructions::StakedSettingsConfig { oracle: e.w.banks[1].oracle.unwrap(), asset_weight_init: I80F48::from_num(0.5).into(), asset_weight_maint: I80F48::from_num(0.6).into(), deposit_limit: 10, total_asset_value_init_limit: 0, oracle_max_age: 60, risk_tier: RiskTier::Collateral };
            one_ix(ix::init_staked_settings(e.w.group, sg, e.w.payer, cfg), &[sg, e.w.payer])
        }),
        vec![],
    ));
    v.push(admin(
        "edit_staked_settings",
        Role::GroupAdmin,
        Box::new(base),
        Box::new(|e, _s, sg| one_ix(ix::edit_staked_settings(e.w.group, sg, marginfi::instructions::StakedSettingsEditConfig { oracle: None, asset_weight_init: None, asset_weight_maint: None, deposit_limit: Some(42), total_asset_value_init_limit: None, oracle_max_age: None, risk_tier: None }), &[sg])),
        vec![],
    ));
    v.push(admin(
        "propagate_staked_settings",
        Role::Anyone,
        Box::new(staked_prep),
        Box::new(|e, _s, sg| {
            let b = &e.w.banks[1];
            // the group's settings name an oracle of their own; the bank's two staking accounts follow it
            let st: marginfi_type_crate::types::StakedSettings = crate::world::read_pod(_s.data(&ix::staked_settings_key(&e.w.group)));
            let cfg = crate::world::bank(_s, &b.key).config;
            one_ix(ix::propagate_staked_settings(e.w.group, b.key, vec![ix::ro(st.oracle), ix::ro(cfg.oracle_keys[1]), ix::ro(cfg.oracle_keys[2])]), &[sg])
        }),
        vec![],
    ));
    v.push(admin("configure_deleverage_withdrawal_limit", Role::GroupAdmin, Box::new(base), Box::new(|e, _s, sg| one_ix(ix::configure_deleverage_withdrawal_limit(e.w.group, sg, 1000), &[sg])), vec![]));
    v.push(admin("write_bank_metadata", Role::Metadata, Box::new(base), Box::new(|e, _s, sg| one_ix(ix::write_bank_metadata(e.w.group, e.w.banks[0].key, sg, Some(b"USDC".to_vec()), Some(b"usd coin".to_vec())), &[sg])), vec![0]));
    v.push(admin("init_bank_metadata", Role::Anyone, Box::new(base), Box::new(|e, _s, sg| one_ix(ix::init_bank_metadata(e.w.banks[1].key, sg), &[sg])), vec![1]));
    v.push(admin(
        "lending_pool_setup_emissions",
        Role::Emissions,
        Box::new(|e| {
            let mut s = e.s.clone();
            // every candidate signer gets a funded emissions-mint account so that only the role check decides
            for (i, k) in [e.w.roles.admin, e.w.roles.emode, e.w.roles.curve, e.w.roles.limit, e.w.roles.metadata, e.w.roles.risk, e.w.fee_admin, act::stranger(), e.w.users[0].authority, e.w.users[1].authority].iter().enumerate() {
                let t = create_token_account(&mut s, &e.w.payer, &format!("G:emfund:alt{i}"), &e.em_mint, k, false);
                mint_to(&mut s, &e.w.mint_auth, &e.em_mint, &t, false, 1_000_000_000);
            }
            s
        }),
        Box::new(|e, s, sg| {
            let ta = s.accts.iter().find(|(_, a)| a.owner == spl_token::id() && a.data.len() == 165 && a.data[0..32] == e.em_mint.to_bytes() && a.data[32..64] == sg.to_bytes()).map(|(k, _)| *k).unwrap_or(e.em_funding);
            one_ix(ix::setup_emissions(e.w.group, sg, e.w.banks[1].key, e.em_mint, ta, spl_token::id(), EMISSIONS_FLAG_BORROW_ACTIVE, 5, 1000), &[sg])
        }),
        vec![1],
    ));
    v.push(admin(
        "lending_pool_update_emissions_parameters",
        Role::Emissions,
        Box::new(|e| {
            let mut s = e.s.clone();
            for (i, k) in [e.w.roles.admin, e.w.roles.emode, e.w.roles.curve, e.w.roles.limit, e.w.roles.metadata, e.w.roles.risk, e.w.fee_admin, act::stranger(), e.w.users[0].authority, e.w.users[1].authority].iter().enumerate() {
                let t = create_token_account(&mut s, &e.w.payer, &format!("G:emfund:alt{i}"), &e.em_mint, k, false);
                mint_to(&mut s, &e.w.mint_auth, &e.em_mint, &t, false, 1_000_000_000);
            }
            s
        }),
        Box::new(|e, s, sg| {
            let ta = s.accts.iter().find(|(_, a)| a.owner == spl_token::id() && a.data.len() == 165 && a.data[0..32] == e.em_mint.to_bytes() && a.data[32..64] == sg.to_bytes()).map(|(k, _)| *k).unwrap_or(e.em_funding);
            one_ix(ix::update_emissions_parameters(e.w.group, sg, e.w.banks[0].key, e.em_mint, ta, spl_token::id(), Some(EMISSIONS_FLAG_LENDING_ACTIVE | EMISSIONS_FLAG_BORROW_ACTIVE), Some(7), Some(500)), &[sg])
        }),
        vec![0],
    ));
    v.push(admin("lending_pool_pulse_bank_price_cache", Role::Anyone, Box::new(base), Box::new(|e, s, sg| one_ix(ix::pulse_bank_price_cache(e.w.group, e.w.banks[0].key, e.w.observation(s, &e.w.banks[0].key)[1..].to_vec()), &[sg])), vec![0]));
    v.push(admin("migrate_curve", Role::Anyone, Box::new(base), Box::new(|e, _s, sg| one_ix(ix::migrate_curve(e.w.banks[0].key), &[sg])), vec![0]));
    let _ = (Acct::default(), ACCOUNT_DISABLED, process_tx);
    v
}
