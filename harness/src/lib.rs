pub mod svm;
pub mod ix;
pub mod world;
pub mod act;
