pub mod svm;
