//! E2 — explicit-state explorer: breadth-first by layers over a `Model` whose successor relation is
//! the real program. Every action of every reachable state up to the depth bound is executed; states
//! are deduplicated by a 32-byte canonical key; the oracle sees every transition (also rejected
//! ones, which are self-loops). The last layer's states are checked but not stored.

use dashmap::DashMap;
use rayon::prelude::*;
use std::collections::BTreeMap;
use std::fmt::Debug;
use std::sync::atomic::{AtomicU64, Ordering};
use std::sync::Mutex;
use std::time::Instant;

pub type Key = [u8; 32];

#[derive(Clone, Debug)]
pub struct Violation {
    /// oracle clause that failed (stable identifier, part of the finding signature)
    pub clause: String,
    /// human readable details: observed vs expected
    pub detail: String,
}

pub trait Model: Sync {
    type State: Clone + Send + Sync;
    type Action: Clone + Send + Sync + Debug + serde::Serialize;

    fn roots(&self) -> Vec<(String, Self::State)>;
    fn actions(&self, s: &Self::State) -> Vec<Self::Action>;
    /// Execute; returns the successor (None = rejected / self-loop), an outcome class string for the
    /// coverage histogram, and any violations of the oracle on this transition.
    fn step(&self, s: &Self::State, a: &Self::Action) -> Step<Self::State>;
    fn key(&self, s: &Self::State) -> Key;
    /// invariant evaluated on every distinct state (roots included)
    fn check_state(&self, _s: &Self::State) -> Vec<Violation> {
        vec![]
    }
}

pub struct Step<S> {
    pub next: Option<S>,
    pub class: String,
    pub violations: Vec<Violation>,
}

#[derive(Clone, Debug)]
pub struct Counterexample {
    pub root: String,
    pub trace: Vec<String>,
    pub violation: Violation,
    pub depth: usize,
}

#[derive(Clone, Debug, Default)]
pub struct Report {
    pub roots: usize,
    pub states: u64,
    pub transitions: u64,
    pub states_per_layer: Vec<u64>,
    pub depth_completed: usize,
    pub exhaustive: bool,
    pub cap_hit: Option<String>,
    pub classes: BTreeMap<String, u64>,
    pub counterexamples: Vec<Counterexample>,
    pub sample_traces: Vec<(String, Vec<String>)>,
    pub wall_s: f64,
}

pub struct Limits {
    pub max_depth: usize,
    pub max_states: u64,
    pub max_wall_s: f64,
    pub max_counterexamples: usize,
    pub threads: usize,
}

impl Default for Limits {
    fn default() -> Self {
        Limits { max_depth: 3, max_states: 20_000_000, max_wall_s: 3600.0, max_counterexamples: 32, threads: 16 }
    }
}

struct Node<M: Model> {
    state: M::State,
    key: Key,
}

/// parent pointer for path reconstruction: (parent key, action rendered)
type Parents = DashMap<Key, (Key, String, u32)>;

fn trace_of(parents: &Parents, mut k: Key) -> (u32, Vec<String>) {
    let mut v = vec![];
    let mut root = 0u32;
    while let Some(e) = parents.get(&k) {
        let (pk, a, r) = e.value().clone();
        root = r;
        if pk == k {
            break;
        }
        v.push(a);
        k = pk;
    }
    v.reverse();
    (root, v)
}

pub fn explore<M: Model>(m: &M, lim: &Limits) -> Report {
    let t0 = Instant::now();
    let pool = rayon::ThreadPoolBuilder::new()
        .num_threads(lim.threads.max(1))
        .stack_size(64 << 20)
        .build()
        .expect("thread pool");
    let parents: Parents = DashMap::new();
    let classes: Mutex<BTreeMap<String, u64>> = Mutex::new(BTreeMap::new());
    let cexs: Mutex<Vec<Counterexample>> = Mutex::new(vec![]);
    let transitions = AtomicU64::new(0);

    let roots = m.roots();
    let root_names: Vec<String> = roots.iter().map(|r| r.0.clone()).collect();
    let mut frontier: Vec<Node<M>> = vec![];
    for (i, (name, st)) in roots.into_iter().enumerate() {
        let k = m.key(&st);
        if parents.insert(k, (k, String::new(), i as u32)).is_none() {
            for v in m.check_state(&st) {
                cexs.lock().unwrap().push(Counterexample { root: name.clone(), trace: vec![], violation: v, depth: 0 });
            }
            frontier.push(Node { state: st, key: k });
        }
    }
    let mut rep = Report { roots: root_names.len(), ..Default::default() };
    rep.states_per_layer.push(frontier.len() as u64);
    let mut exhaustive = true;

    for depth in 1..=lim.max_depth {
        if frontier.is_empty() {
            rep.depth_completed = lim.max_depth;
            break;
        }
        let last = depth == lim.max_depth;
        let over = |rep_states: u64| -> Option<String> {
            if t0.elapsed().as_secs_f64() > lim.max_wall_s {
                Some(format!("wall clock cap {}s", lim.max_wall_s))
            } else if rep_states > lim.max_states {
                Some(format!("state cap {}", lim.max_states))
            } else {
                None
            }
        };
        if let Some(c) = over(parents.len() as u64) {
            rep.cap_hit = Some(c);
            exhaustive = false;
            break;
        }
        let aborted = std::sync::atomic::AtomicBool::new(false);
        let next: Vec<Node<M>> = pool.install(|| {
            frontier
                .par_iter()
                .flat_map_iter(|node| {
                    let mut out: Vec<Node<M>> = vec![];
                    if aborted.load(Ordering::Relaxed) {
                        return out.into_iter();
                    }
                    if t0.elapsed().as_secs_f64() > lim.max_wall_s * 1.5 {
                        aborted.store(true, Ordering::Relaxed);
                        return out.into_iter();
                    }
                    let mut local_classes: BTreeMap<String, u64> = BTreeMap::new();
                    let acts = m.actions(&node.state);
                    for a in acts {
                        let st = m.step(&node.state, &a);
                        transitions.fetch_add(1, Ordering::Relaxed);
                        *local_classes.entry(st.class).or_insert(0) += 1;
                        if !st.violations.is_empty() {
                            let (r, mut tr) = trace_of(&parents, node.key);
                            tr.push(serde_json::to_string(&a).unwrap());
                            let mut c = cexs.lock().unwrap();
                            for v in st.violations {
                                if c.len() < 4096 {
                                    c.push(Counterexample { root: root_names[r as usize].clone(), trace: tr.clone(), violation: v, depth });
                                }
                            }
                        }
                        if let Some(ns) = st.next {
                            let k = m.key(&ns);
                            let (_, _, r) = parents.get(&node.key).map(|e| e.value().clone()).unwrap();
                            let fresh = match parents.entry(k) {
                                dashmap::mapref::entry::Entry::Occupied(_) => false,
                                dashmap::mapref::entry::Entry::Vacant(v) => {
                                    v.insert((node.key, serde_json::to_string(&a).unwrap(), r));
                                    true
                                }
                            };
                            if fresh {
                                let vs = m.check_state(&ns);
                                if !vs.is_empty() {
                                    let (r, tr) = trace_of(&parents, k);
                                    let mut c = cexs.lock().unwrap();
                                    for v in vs {
                                        if c.len() < 4096 {
                                            c.push(Counterexample { root: root_names[r as usize].clone(), trace: tr.clone(), violation: v, depth });
                                        }
                                    }
                                }
                                if !last {
                                    out.push(Node { state: ns, key: k });
                                }
                            }
                        }
                    }
                    let mut g = classes.lock().unwrap();
                    for (k, v) in local_classes {
                        *g.entry(k).or_insert(0) += v;
                    }
                    out.into_iter()
                })
                .collect()
        });
        if aborted.load(Ordering::Relaxed) {
            rep.cap_hit = Some(format!("wall clock cap {}s (layer {} aborted)", lim.max_wall_s, depth));
            exhaustive = false;
            break;
        }
        rep.depth_completed = depth;
        let total_now = parents.len() as u64;
        let prev_total: u64 = rep.states_per_layer.iter().sum();
        rep.states_per_layer.push(total_now - prev_total);
        frontier = next;
        // keep the frontier order deterministic (by key) so that sample traces are stable
        frontier.par_sort_unstable_by(|a, b| a.key.cmp(&b.key));
    }

    rep.states = parents.len() as u64;
    rep.transitions = transitions.load(Ordering::Relaxed);
    rep.exhaustive = exhaustive;
    rep.classes = classes.into_inner().unwrap();
    let mut c = cexs.into_inner().unwrap();
    c.sort_by(|a, b| (a.depth, &a.violation.clause, &a.trace).cmp(&(b.depth, &b.violation.clause, &b.trace)));
    rep.counterexamples = c;
    // a few sample traces: the lexicographically smallest deepest states
    let mut deepest: Vec<Key> = frontier.iter().take(3).map(|n| n.key).collect();
    if deepest.is_empty() {
        deepest = parents.iter().take(3).map(|e| *e.key()).collect();
    }
    for k in deepest {
        let (r, tr) = trace_of(&parents, k);
        rep.sample_traces.push((root_names[r as usize].clone(), tr));
    }
    rep.wall_s = t0.elapsed().as_secs_f64();
    rep
}
