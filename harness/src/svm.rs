//! E1 — a small, fast, deterministic Solana execution environment for `marginfi::entry`.
//!
//! * accounts are marshalled in the exact BPF-loader (aligned) input format and handed to
//!   `solana_program::entrypoint::deserialize`, so `AccountInfo::{realloc, assign}`, Anchor
//!   `init`/`close`, duplicate-account aliasing and RefCell borrow conflicts behave as on chain;
//! * CPI arrives at `SyscallStubs::sol_invoke_signed`, is privilege-checked like the runtime does
//!   and dispatched to the SPL-Token / Token-2022 native processors or a small system program;
//! * sysvars (clock, rent, epoch schedule), stack height, return data and the instructions sysvar
//!   are provided from a thread-local context, so exploration can be multi-threaded;
//! * a transaction is atomic: the store is committed only if every instruction succeeds.

use solana_program::{
    account_info::AccountInfo,
    clock::Clock,
    entrypoint::ProgramResult,
    epoch_schedule::EpochSchedule,
    instruction::{AccountMeta, Instruction},
    program_error::ProgramError,
    pubkey::Pubkey,
    rent::Rent,
    system_instruction::SystemInstruction,
    system_program,
    sysvar,
};
use std::cell::RefCell;
use std::collections::{BTreeMap, BTreeSet};
use std::sync::Arc;
use std::sync::Once;

pub const MAX_PERMITTED_DATA_INCREASE: usize = 10_240;
pub const NON_DUP_MARKER: u8 = u8::MAX;

/// Harness-level failure reasons that are not program verdicts. They are reported as error codes
/// above the 32-bit custom range so they can never be confused with a program error.
pub const ERR_PANIC: u64 = 0xFFFF_0001_0000_0000;
pub const ERR_UNSUPPORTED_CPI: u64 = 0xFFFF_0002_0000_0000;
pub const ERR_RUNTIME_READONLY_MODIFIED: u64 = 0xFFFF_0003_0000_0000;
pub const ERR_RUNTIME_EXTERNAL_DATA_MODIFIED: u64 = 0xFFFF_0004_0000_0000;
pub const ERR_RUNTIME_UNBALANCED: u64 = 0xFFFF_0005_0000_0000;
pub const ERR_RUNTIME_PRIVILEGE: u64 = 0xFFFF_0006_0000_0000;
pub const ERR_RUNTIME_MISSING_ACCOUNT: u64 = 0xFFFF_0007_0000_0000;
pub const ERR_RUNTIME_EXECUTABLE_MODIFIED: u64 = 0xFFFF_0008_0000_0000;
pub const ERR_MISSING_SIGNATURE_FOR_FEE: u64 = 0xFFFF_0009_0000_0000;

#[derive(Clone, Debug, Default)]
pub struct Acct {
    pub lamports: u64,
    pub data: Vec<u8>,
    pub owner: Pubkey,
    pub executable: bool,
    /// memoised canonical digest (see canon.rs); reset on every mutable access through the store
    pub digest: std::sync::OnceLock<[u8; 32]>,
}

impl PartialEq for Acct {
    fn eq(&self, o: &Self) -> bool {
        self.lamports == o.lamports && self.owner == o.owner && self.executable == o.executable && self.data == o.data
    }
}
impl Eq for Acct {}

impl Acct {
    pub fn new(lamports: u64, data: Vec<u8>, owner: Pubkey) -> Self {
        Acct { lamports, data, owner, executable: false, digest: Default::default() }
    }
}

/// A complete chain state as far as any model needs it: accounts + clock.
#[derive(Clone, PartialEq, Eq, Debug)]
pub struct Store {
    pub accts: BTreeMap<Pubkey, Arc<Acct>>,
    pub now: i64,
    pub slot: u64,
    pub epoch: u64,
}

impl Default for Store {
    fn default() -> Self {
        let mut s = Store { accts: BTreeMap::new(), now: 1_700_000_000, slot: 1_000, epoch: 0 };
        // program accounts (executable), as any cluster has them
        let native_loader = solana_program::pubkey!("NativeLoader1111111111111111111111111111111");
        let bpf_loader = solana_program::bpf_loader::id();
        let upgradeable = solana_program::bpf_loader_upgradeable::id();
        for (k, owner) in [
            (system_program::id(), native_loader),
            (spl_token::id(), bpf_loader),
            (spl_token_2022::id(), upgradeable),
            (spl_associated_token_account::id(), bpf_loader),
            (marginfi::ID, upgradeable),
        ] {
            s.set(k, Acct { lamports: 1, data: vec![], owner, executable: true, digest: Default::default() });
        }
        s
    }
}

impl Store {
    pub fn get(&self, k: &Pubkey) -> Option<&Acct> {
        self.accts.get(k).map(|a| a.as_ref())
    }
    pub fn set(&mut self, k: Pubkey, a: Acct) {
        self.accts.insert(k, Arc::new(a));
    }
    pub fn get_mut(&mut self, k: &Pubkey) -> Option<&mut Acct> {
        self.accts.get_mut(k).map(|a| {
            let a = Arc::make_mut(a);
            a.digest = Default::default();
            a
        })
    }
    pub fn data(&self, k: &Pubkey) -> &[u8] {
        &self.accts.get(k).unwrap_or_else(|| panic!("no account {k}")).data
    }
    pub fn advance(&mut self, dt: i64) {
        self.now += dt;
        // ~2 slots per second, always at least one slot per advance so that "this slot" style
        // freshness checks (Kamino/Solend reserves) observe the passage of time.
        self.slot += (dt.max(0) as u64) * 2 + 1;
    }
    pub fn clock(&self) -> Clock {
        Clock {
            slot: self.slot,
            epoch_start_timestamp: 0,
            epoch: self.epoch,
            // as on a real cluster: the leader schedule is known one epoch ahead
            leader_schedule_epoch: self.epoch + 1,
            unix_timestamp: self.now,
        }
    }
}

#[derive(Clone, Debug, PartialEq, Eq)]
pub struct Ix {
    pub program_id: Pubkey,
    pub accounts: Vec<AccountMeta>,
    pub data: Vec<u8>,
    /// If set, the instruction is modelled as being invoked by this (third-party) top-level program
    /// through CPI: the instructions sysvar shows the proxy's instruction and the stack height is 2.
    pub proxy: Option<Pubkey>,
}

impl Ix {
    pub fn from(i: Instruction) -> Self {
        Ix { program_id: i.program_id, accounts: i.accounts, data: i.data, proxy: None }
    }
    pub fn via(mut self, proxy: Pubkey) -> Self {
        self.proxy = Some(proxy);
        self
    }
}

#[derive(Clone, Debug, PartialEq, Eq)]
pub struct Tx {
    pub ixs: Vec<Ix>,
    pub signers: BTreeSet<Pubkey>,
}

impl Tx {
    pub fn new(ixs: Vec<Ix>, signers: &[Pubkey]) -> Self {
        Tx { ixs, signers: signers.iter().cloned().collect() }
    }
    pub fn one(ix: Ix, signers: &[Pubkey]) -> Self {
        Self::new(vec![ix], signers)
    }
}

#[derive(Clone, Debug, PartialEq, Eq)]
pub struct TxResult {
    /// None = committed; Some((index, code)) = first failing instruction and its error code
    pub err: Option<(usize, u64)>,
}

impl TxResult {
    pub fn ok(&self) -> bool {
        self.err.is_none()
    }
    pub fn code(&self) -> u64 {
        self.err.map(|e| e.1).unwrap_or(0)
    }
    /// Anchor/marginfi custom code (e.g. 6009), or 0 when ok, or the raw builtin code.
    pub fn custom(&self) -> u32 {
        match self.err {
            None => 0,
            Some((_, c)) if c < (1u64 << 32) => c as u32,
            Some((_, c)) => (c >> 32) as u32 | 0x8000_0000,
        }
    }
    pub fn is_machinery_failure(&self) -> bool {
        matches!(self.err, Some((_, c)) if c == ERR_UNSUPPORTED_CPI)
    }
}

pub fn err_name(code: u64) -> String {
    match code {
        0 => "ok".into(),
        ERR_PANIC => "PANIC".into(),
        ERR_UNSUPPORTED_CPI => "UNSUPPORTED_CPI".into(),
        ERR_RUNTIME_READONLY_MODIFIED => "RT_READONLY_MODIFIED".into(),
        ERR_RUNTIME_EXTERNAL_DATA_MODIFIED => "RT_EXTERNAL_DATA_MODIFIED".into(),
        ERR_RUNTIME_UNBALANCED => "RT_UNBALANCED".into(),
        ERR_RUNTIME_PRIVILEGE => "RT_PRIVILEGE_ESCALATION".into(),
        ERR_RUNTIME_MISSING_ACCOUNT => "RT_MISSING_ACCOUNT".into(),
        ERR_RUNTIME_EXECUTABLE_MODIFIED => "RT_EXECUTABLE_MODIFIED".into(),
        c if c < (1u64 << 32) => format!("{}", c),
        c => format!("builtin:{}", ProgramError::from(c)),
    }
}

// ------------------------------------------------------------------------------------------------
// thread-local execution context read by the syscall stubs

struct Ctx {
    clock: Clock,
    stack_height: u64,
    program_stack: Vec<Pubkey>,
    return_data: Option<(Pubkey, Vec<u8>)>,
    /// (callee program, keys passed writable) for every CPI of the current top-level instruction
    cpi_writes: Vec<(Pubkey, Vec<Pubkey>)>,
    unsupported_cpi: bool,
    last_panic: Option<String>,
}

thread_local! {
    static CTX: RefCell<Ctx> = RefCell::new(Ctx {
        clock: Clock::default(),
        stack_height: 1,
        program_stack: Vec::new(),
        return_data: None,
        cpi_writes: Vec::new(),
        unsupported_cpi: false,
        last_panic: None,
    });
}

pub fn last_panic() -> Option<String> {
    CTX.with(|c| c.borrow().last_panic.clone())
}

struct Stubs;

impl solana_program::program_stubs::SyscallStubs for Stubs {
    fn sol_log(&self, _message: &str) {}
    fn sol_log_compute_units(&self) {}
    fn sol_remaining_compute_units(&self) -> u64 {
        1_400_000
    }
    fn sol_invoke_signed(
        &self,
        instruction: &Instruction,
        account_infos: &[AccountInfo],
        signers_seeds: &[&[&[u8]]],
    ) -> ProgramResult {
        cpi(instruction, account_infos, signers_seeds)
    }
    fn sol_get_clock_sysvar(&self, var_addr: *mut u8) -> u64 {
        CTX.with(|c| unsafe {
            std::ptr::write_unaligned(var_addr as *mut Clock, c.borrow().clock.clone());
        });
        0
    }
    fn sol_get_epoch_schedule_sysvar(&self, var_addr: *mut u8) -> u64 {
        unsafe { std::ptr::write_unaligned(var_addr as *mut EpochSchedule, EpochSchedule::default()) };
        0
    }
    fn sol_get_rent_sysvar(&self, var_addr: *mut u8) -> u64 {
        unsafe { std::ptr::write_unaligned(var_addr as *mut Rent, Rent::default()) };
        0
    }
    fn sol_get_return_data(&self) -> Option<(Pubkey, Vec<u8>)> {
        CTX.with(|c| c.borrow().return_data.clone())
    }
    fn sol_set_return_data(&self, data: &[u8]) {
        CTX.with(|c| {
            let mut c = c.borrow_mut();
            let p = c.program_stack.last().cloned().unwrap_or_default();
            c.return_data = Some((p, data.to_vec()));
        })
    }
    fn sol_log_data(&self, _fields: &[&[u8]]) {}
    fn sol_get_stack_height(&self) -> u64 {
        CTX.with(|c| c.borrow().stack_height)
    }
}

static INIT: Once = Once::new();

/// Install the syscall stubs and a quiet panic hook. Idempotent.
pub fn init() {
    INIT.call_once(|| {
        solana_program::program_stubs::set_syscall_stubs(Box::new(Stubs));
        if std::env::var("VERIF_PROGRAM_LOG").is_ok() {
            solana_msg::LOG_ENABLED.store(true, std::sync::atomic::Ordering::Relaxed);
        }
        let verbose = std::env::var("VERIF_PANIC_LOG").is_ok();
        std::panic::set_hook(Box::new(move |info| {
            let msg = format!("{}", info);
            if verbose {
                eprintln!("[program panic] {msg}");
            }
            let in_program = CTX.with(|c| {
                if let Ok(mut c) = c.try_borrow_mut() {
                    c.last_panic = Some(msg.clone());
                    !c.program_stack.is_empty()
                } else {
                    true
                }
            });
            if !in_program {
                // a panic of the harness itself: always show it
                eprintln!("[harness panic] {msg}");
            }
        }));
    });
}

// ------------------------------------------------------------------------------------------------
// CPI

fn cpi(instruction: &Instruction, account_infos: &[AccountInfo], signers_seeds: &[&[&[u8]]]) -> ProgramResult {
    let caller = CTX.with(|c| c.borrow().program_stack.last().cloned()).expect("cpi outside of a program");

    // PDA signers are derived with the *caller's* program id
    let mut pda_signers: Vec<Pubkey> = Vec::with_capacity(signers_seeds.len());
    for seeds in signers_seeds {
        let k = Pubkey::create_program_address(seeds, &caller).map_err(|_| ProgramError::InvalidSeeds)?;
        pda_signers.push(k);
    }

    // privilege check + callee account infos in meta order
    let mut callee_ais: Vec<AccountInfo> = Vec::with_capacity(instruction.accounts.len());
    let mut writes: Vec<Pubkey> = Vec::new();
    for meta in &instruction.accounts {
        let ai = account_infos
            .iter()
            .find(|ai| *ai.key == meta.pubkey)
            .ok_or(ProgramError::from(ERR_MISSING_ACCOUNT_PE))?;
        if meta.is_writable && !ai.is_writable {
            return Err(ProgramError::from(ERR_PRIVILEGE_PE));
        }
        if meta.is_signer && !(ai.is_signer || pda_signers.contains(&meta.pubkey)) {
            return Err(ProgramError::from(ERR_PRIVILEGE_PE));
        }
        let mut c = ai.clone();
        c.is_signer = meta.is_signer;
        c.is_writable = meta.is_writable;
        if meta.is_writable {
            writes.push(meta.pubkey);
        }
        callee_ais.push(c);
    }

    let pid = instruction.program_id;
    CTX.with(|c| {
        let mut c = c.borrow_mut();
        c.program_stack.push(pid);
        c.stack_height += 1;
        c.cpi_writes.push((pid, writes));
    });
    let res = if pid == spl_token::id() {
        spl_token::processor::Processor::process(&pid, &callee_ais, &instruction.data)
    } else if pid == spl_token_2022::id() {
        spl_token_2022::processor::Processor::process(&pid, &callee_ais, &instruction.data)
    } else if pid == system_program::id() {
        system_process(&callee_ais, &instruction.data)
    } else if pid == drift_mocks::ID {
        // harness stand-in for the Drift program (venue.rs)
        crate::venue::drift_process(&callee_ais, &instruction.data)
    } else {
        CTX.with(|c| c.borrow_mut().unsupported_cpi = true);
        Err(ProgramError::from(ERR_UNSUPPORTED_PE))
    };
    CTX.with(|c| {
        let mut c = c.borrow_mut();
        c.program_stack.pop();
        c.stack_height -= 1;
    });
    res
}

/// A token-program call made by a harness stand-in program (venue.rs) on accounts it received: registered like a
/// CPI into the token program, so that the runtime's "only the owner changes data" post-condition sees it.
pub fn nested_token_call(token_program: &Pubkey, ais: &[AccountInfo], data: &[u8]) -> ProgramResult {
    let pid = *token_program;
    let writes: Vec<Pubkey> = ais.iter().filter(|a| a.is_writable).map(|a| *a.key).collect();
    CTX.with(|c| {
        let mut c = c.borrow_mut();
        c.program_stack.push(pid);
        c.stack_height += 1;
        c.cpi_writes.push((pid, writes));
    });
    let res = if pid == spl_token::id() {
        spl_token::processor::Processor::process(&pid, ais, data)
    } else if pid == spl_token_2022::id() {
        spl_token_2022::processor::Processor::process(&pid, ais, data)
    } else {
        Err(ProgramError::IncorrectProgramId)
    };
    CTX.with(|c| {
        let mut c = c.borrow_mut();
        c.program_stack.pop();
        c.stack_height -= 1;
    });
    res
}

// builtin-style ProgramError encodings for the harness' own failure reasons (never produced by the
// program itself): they travel through the program as ProgramError and are mapped back afterwards.
const ERR_MISSING_ACCOUNT_PE: u64 = ERR_RUNTIME_MISSING_ACCOUNT;
const ERR_PRIVILEGE_PE: u64 = ERR_RUNTIME_PRIVILEGE;
const ERR_UNSUPPORTED_PE: u64 = ERR_UNSUPPORTED_CPI;

const SYS_ACCOUNT_ALREADY_IN_USE: u32 = 0;
const SYS_RESULT_WITH_NEGATIVE_LAMPORTS: u32 = 1;
const SYS_INVALID_ACCOUNT_DATA_LENGTH: u32 = 3;
const MAX_PERMITTED_DATA_LENGTH: u64 = 10 * 1024 * 1024;

fn sys_transfer(from: &AccountInfo, to: &AccountInfo, lamports: u64) -> ProgramResult {
    if !from.is_signer {
        return Err(ProgramError::MissingRequiredSignature);
    }
    if !from.data_is_empty() {
        return Err(ProgramError::InvalidArgument);
    }
    if *from.owner != system_program::id() {
        // only the owner may debit; the runtime would reject with ExternalAccountLamportSpend
        return Err(ProgramError::from(15u64 << 32));
    }
    if from.lamports() < lamports {
        return Err(ProgramError::Custom(SYS_RESULT_WITH_NEGATIVE_LAMPORTS));
    }
    if from.key == to.key {
        return Ok(());
    }
    **from.try_borrow_mut_lamports()? -= lamports;
    **to.try_borrow_mut_lamports()? += lamports;
    Ok(())
}

fn sys_allocate(acct: &AccountInfo, space: u64) -> ProgramResult {
    if !acct.is_signer {
        return Err(ProgramError::MissingRequiredSignature);
    }
    if !acct.data_is_empty() || *acct.owner != system_program::id() {
        return Err(ProgramError::Custom(SYS_ACCOUNT_ALREADY_IN_USE));
    }
    if space > MAX_PERMITTED_DATA_LENGTH {
        return Err(ProgramError::Custom(SYS_INVALID_ACCOUNT_DATA_LENGTH));
    }
    acct.realloc(space as usize, true)
}

fn sys_assign(acct: &AccountInfo, owner: &Pubkey) -> ProgramResult {
    if acct.owner == owner {
        return Ok(());
    }
    if !acct.is_signer {
        return Err(ProgramError::MissingRequiredSignature);
    }
    if *acct.owner != system_program::id() {
        return Err(ProgramError::from(ERR_RUNTIME_EXTERNAL_DATA_MODIFIED));
    }
    acct.assign(owner);
    Ok(())
}

fn system_process(accounts: &[AccountInfo], data: &[u8]) -> ProgramResult {
    let ix: SystemInstruction = bincode::deserialize(data).map_err(|_| ProgramError::InvalidInstructionData)?;
    match ix {
        SystemInstruction::CreateAccount { lamports, space, owner } => {
            if accounts.len() < 2 {
                return Err(ProgramError::NotEnoughAccountKeys);
            }
            let (from, to) = (&accounts[0], &accounts[1]);
            if !to.is_signer {
                return Err(ProgramError::MissingRequiredSignature);
            }
            if to.lamports() > 0 {
                return Err(ProgramError::Custom(SYS_ACCOUNT_ALREADY_IN_USE));
            }
            sys_allocate(to, space)?;
            sys_assign(to, &owner)?;
            sys_transfer(from, to, lamports)
        }
        SystemInstruction::Transfer { lamports } => {
            if accounts.len() < 2 {
                return Err(ProgramError::NotEnoughAccountKeys);
            }
            sys_transfer(&accounts[0], &accounts[1], lamports)
        }
        SystemInstruction::Allocate { space } => {
            if accounts.is_empty() {
                return Err(ProgramError::NotEnoughAccountKeys);
            }
            sys_allocate(&accounts[0], space)
        }
        SystemInstruction::Assign { owner } => {
            if accounts.is_empty() {
                return Err(ProgramError::NotEnoughAccountKeys);
            }
            sys_assign(&accounts[0], &owner)
        }
        _ => {
            CTX.with(|c| c.borrow_mut().unsupported_cpi = true);
            Err(ProgramError::from(ERR_UNSUPPORTED_PE))
        }
    }
}

// ------------------------------------------------------------------------------------------------
// marshalling

fn is_reserved_readonly(k: &Pubkey) -> bool {
    *k == system_program::id()
        || *k == spl_token::id()
        || *k == spl_token_2022::id()
        || *k == spl_associated_token_account::id()
        || *k == sysvar::instructions::id()
        || *k == sysvar::clock::id()
        || *k == sysvar::rent::id()
        || *k == marginfi::ID
}

struct Marshalled {
    buf: Vec<u64>,
    /// (key, offset of the account record's first byte after the dup marker) for unique accounts
    uniq: Vec<(Pubkey, usize)>,
}

fn empty_acct() -> Acct {
    Acct { lamports: 0, data: Vec::new(), owner: system_program::id(), executable: false, digest: Default::default() }
}

fn marshal(
    work: &BTreeMap<Pubkey, Arc<Acct>>,
    program_id: &Pubkey,
    metas: &[(Pubkey, bool, bool)],
    data: &[u8],
) -> Marshalled {
    // size
    let mut size = 8usize;
    let mut uniq: Vec<(Pubkey, usize)> = Vec::with_capacity(metas.len());
    let mut first_index: Vec<Option<usize>> = Vec::with_capacity(metas.len());
    for (i, (k, _, _)) in metas.iter().enumerate() {
        let dup = metas[..i].iter().position(|(k2, _, _)| k2 == k);
        first_index.push(dup);
        if dup.is_some() {
            size += 8;
        } else {
            let dl = work.get(k).map(|a| a.data.len()).unwrap_or(0);
            size += 8 + 32 + 32 + 8 + 8 + dl + MAX_PERMITTED_DATA_INCREASE;
            size = (size + 7) & !7;
            size += 8;
        }
    }
    size += 8 + data.len() + 32;
    let mut buf = vec![0u64; (size + 7) / 8 + 1];
    let base = buf.as_mut_ptr() as *mut u8;
    let mut off = 0usize;
    unsafe {
        *(base.add(off) as *mut u64) = metas.len() as u64;
        off += 8;
        for (i, (k, is_signer, is_writable)) in metas.iter().enumerate() {
            if let Some(d) = first_index[i] {
                *base.add(off) = d as u8;
                off += 8;
                continue;
            }
            let tmp;
            let a: &Acct = match work.get(k) {
                Some(a) => a.as_ref(),
                None => {
                    tmp = empty_acct();
                    &tmp
                }
            };
            *base.add(off) = NON_DUP_MARKER;
            uniq.push((*k, off + 1));
            *base.add(off + 1) = *is_signer as u8;
            *base.add(off + 2) = *is_writable as u8;
            *base.add(off + 3) = a.executable as u8;
            off += 8;
            std::ptr::copy_nonoverlapping(k.as_ref().as_ptr(), base.add(off), 32);
            off += 32;
            std::ptr::copy_nonoverlapping(a.owner.as_ref().as_ptr(), base.add(off), 32);
            off += 32;
            *(base.add(off) as *mut u64) = a.lamports;
            off += 8;
            *(base.add(off) as *mut u64) = a.data.len() as u64;
            off += 8;
            std::ptr::copy_nonoverlapping(a.data.as_ptr(), base.add(off), a.data.len());
            off += a.data.len() + MAX_PERMITTED_DATA_INCREASE;
            off = (off + 7) & !7;
            *(base.add(off) as *mut u64) = u64::MAX; // rent epoch
            off += 8;
        }
        *(base.add(off) as *mut u64) = data.len() as u64;
        off += 8;
        std::ptr::copy_nonoverlapping(data.as_ptr(), base.add(off), data.len());
        off += data.len();
        std::ptr::copy_nonoverlapping(program_id.as_ref().as_ptr(), base.add(off), 32);
    }
    Marshalled { buf, uniq }
}

fn read_back(m: &Marshalled, k: &Pubkey, rec: usize, pre_executable: bool) -> Acct {
    let base = m.buf.as_ptr() as *const u8;
    let _ = k;
    unsafe {
        let mut off = rec + 7; // after flags + original len
        off += 32;
        let owner = Pubkey::new_from_array(*(base.add(off) as *const [u8; 32]));
        off += 32;
        let lamports = *(base.add(off) as *const u64);
        off += 8;
        let len = *(base.add(off) as *const u64) as usize;
        off += 8;
        let data = std::slice::from_raw_parts(base.add(off), len).to_vec();
        Acct { lamports, data, owner, executable: pre_executable, digest: Default::default() }
    }
}

// ------------------------------------------------------------------------------------------------
// transaction execution

pub type Processor = for<'a, 'info> fn(&'a Pubkey, &'info [AccountInfo<'info>], &'a [u8]) -> ProgramResult;

fn marginfi_entry<'info>(pid: &Pubkey, ais: &'info [AccountInfo<'info>], data: &[u8]) -> ProgramResult {
    marginfi::entry(pid, ais, data)
}

pub fn is_executable_program(pid: &Pubkey) -> bool {
    *pid == marginfi::ID || *pid == spl_token::id() || *pid == spl_token_2022::id() || *pid == system_program::id()
}

fn run_program(_pid: &Pubkey, m: &mut Marshalled) -> Result<(), u64> {
    let base = m.buf.as_mut_ptr() as *mut u8;
    let res = std::panic::catch_unwind(std::panic::AssertUnwindSafe(|| unsafe {
        let (program_id, accounts, data) = solana_program::entrypoint::deserialize(base);
        let accounts_static: &'static [AccountInfo<'static>] = std::mem::transmute(accounts.as_slice());
        let r = if *program_id == marginfi::ID {
            marginfi_entry(program_id, accounts_static, data)
        } else if *program_id == spl_token::id() {
            spl_token::processor::Processor::process(program_id, accounts_static, data)
        } else if *program_id == spl_token_2022::id() {
            spl_token_2022::processor::Processor::process(program_id, accounts_static, data)
        } else {
            system_process(accounts_static, data)
        };
        drop(accounts);
        r
    }));
    match res {
        Ok(Ok(())) => Ok(()),
        Ok(Err(e)) => Err(u64::from(e)),
        Err(_) => Err(ERR_PANIC),
    }
}

/// Execute one transaction atomically against `store`.
pub fn process_tx(store: &mut Store, tx: &Tx) -> TxResult {
    init();
    let mut work = store.accts.clone();

    // message-level privileges
    let mut writable: BTreeSet<Pubkey> = BTreeSet::new();
    for ix in &tx.ixs {
        for m in &ix.accounts {
            if m.is_writable && !is_reserved_readonly(&m.pubkey) {
                writable.insert(m.pubkey);
            }
        }
    }
    for ix in &tx.ixs {
        writable.remove(&ix.program_id);
        if let Some(p) = &ix.proxy {
            writable.remove(p);
        }
    }
    // a signature is required for every account any instruction marks as signer
    for (i, ix) in tx.ixs.iter().enumerate() {
        for m in &ix.accounts {
            if m.is_signer && !tx.signers.contains(&m.pubkey) {
                return TxResult { err: Some((i, ERR_MISSING_SIGNATURE_FOR_FEE)) };
            }
        }
    }

    // instructions sysvar
    let sysvar_key = sysvar::instructions::id();
    let uses_sysvar = tx.ixs.iter().any(|ix| ix.accounts.iter().any(|m| m.pubkey == sysvar_key));
    let mut sysvar_data: Vec<u8> = Vec::new();
    if uses_sysvar {
        use solana_program::sysvar::instructions::{BorrowedAccountMeta, BorrowedInstruction};
        let outer: Vec<(Pubkey, Vec<(Pubkey, bool, bool)>, Vec<u8>)> = tx
            .ixs
            .iter()
            .map(|ix| {
                let metas: Vec<(Pubkey, bool, bool)> = ix
                    .accounts
                    .iter()
                    .map(|m| (m.pubkey, tx.signers.contains(&m.pubkey), writable.contains(&m.pubkey)))
                    .collect();
                match ix.proxy {
                    None => (ix.program_id, metas, ix.data.clone()),
                    Some(p) => {
                        let mut ms = vec![(ix.program_id, false, false)];
                        ms.extend(metas);
                        (p, ms, vec![0xAA, 0xBB, 0xCC, 0xDD, 0x01, 0x02, 0x03, 0x04, 0x05])
                    }
                }
            })
            .collect();
        let borrowed: Vec<BorrowedInstruction> = outer
            .iter()
            .map(|(p, ms, d)| BorrowedInstruction {
                program_id: p,
                accounts: ms
                    .iter()
                    .map(|(k, s, w)| BorrowedAccountMeta { pubkey: k, is_signer: *s, is_writable: *w })
                    .collect(),
                data: d,
            })
            .collect();
        sysvar_data = solana_program::sysvar::instructions::construct_instructions_data(&borrowed);
    }

    let clock = store.clock();
    for (i, ix) in tx.ixs.iter().enumerate() {
        if !is_executable_program(&ix.program_id) {
            // other top-level programs (compute budget, third-party swaps, venue refreshes) are
            // no-ops for the account store; they matter only through the instructions sysvar.
            continue;
        }
        if uses_sysvar {
            solana_program::sysvar::instructions::store_current_index(&mut sysvar_data, i as u16);
            work.insert(
                sysvar_key,
                Arc::new(Acct { lamports: 1, data: sysvar_data.clone(), owner: sysvar::id(), executable: false, digest: Default::default() }),
            );
        }
        let metas: Vec<(Pubkey, bool, bool)> = ix
            .accounts
            .iter()
            .map(|m| (m.pubkey, tx.signers.contains(&m.pubkey), writable.contains(&m.pubkey)))
            .collect();
        let mut m = marshal(&work, &ix.program_id, &metas, &ix.data);
        CTX.with(|c| {
            let mut c = c.borrow_mut();
            c.clock = clock.clone();
            c.stack_height = if ix.proxy.is_some() { 2 } else { 1 };
            c.program_stack.clear();
            c.program_stack.push(ix.program_id);
            c.return_data = None;
            c.cpi_writes.clear();
            c.unsupported_cpi = false;
        });
        let r = run_program(&ix.program_id, &mut m);
        let (unsupported, cpi_writes) = CTX.with(|c| {
            let mut c = c.borrow_mut();
            c.program_stack.clear();
            (c.unsupported_cpi, std::mem::take(&mut c.cpi_writes))
        });
        if unsupported {
            return TxResult { err: Some((i, ERR_UNSUPPORTED_CPI)) };
        }
        if let Err(code) = r {
            return TxResult { err: Some((i, code)) };
        }
        // runtime post-conditions + write back
        let mut pre_sum: u128 = 0;
        let mut post_sum: u128 = 0;
        for (k, rec) in &m.uniq {
            let pre_tmp;
            let pre: &Acct = match work.get(k) {
                Some(a) => a.as_ref(),
                None => {
                    pre_tmp = empty_acct();
                    &pre_tmp
                }
            };
            let post = read_back(&m, k, *rec, pre.executable);
            pre_sum += pre.lamports as u128;
            post_sum += post.lamports as u128;
            if post == *pre {
                continue;
            }
            if !writable.contains(k) {
                return TxResult { err: Some((i, ERR_RUNTIME_READONLY_MODIFIED)) };
            }
            if pre.executable {
                return TxResult { err: Some((i, ERR_RUNTIME_EXECUTABLE_MODIFIED)) };
            }
            if (post.data != pre.data || post.owner != pre.owner) && pre.owner != ix.program_id {
                // only the owner may change data; allowed when a CPI into the owning program
                // received the account writable
                let ok = cpi_writes.iter().any(|(p, ks)| *p == pre.owner && ks.contains(k));
                if !ok {
                    return TxResult { err: Some((i, ERR_RUNTIME_EXTERNAL_DATA_MODIFIED)) };
                }
            }
            if post.lamports < pre.lamports && pre.owner != ix.program_id {
                let ok = cpi_writes.iter().any(|(p, ks)| *p == pre.owner && ks.contains(k));
                if !ok {
                    return TxResult { err: Some((i, ERR_RUNTIME_EXTERNAL_DATA_MODIFIED)) };
                }
            }
            work.insert(*k, Arc::new(post));
        }
        if pre_sum != post_sum {
            return TxResult { err: Some((i, ERR_RUNTIME_UNBALANCED)) };
        }
    }
    work.remove(&sysvar_key);
    // accounts with no lamports left are purged at the end of the transaction
    let dead: Vec<Pubkey> = work.iter().filter(|(_, a)| a.lamports == 0).map(|(k, _)| *k).collect();
    for k in dead {
        work.remove(&k);
    }
    store.accts = work;
    TxResult { err: None }
}

/// Execute on a clone; returns (result, post-state if committed).
pub fn try_tx(store: &Store, tx: &Tx) -> (TxResult, Option<Store>) {
    let mut s = store.clone();
    let r = process_tx(&mut s, tx);
    if r.ok() {
        (r, Some(s))
    } else {
        (r, None)
    }
}

/// Run a closure with the syscall context set up as for a top-level marginfi instruction at the
/// store's clock — for direct calls of pure public functions that read `Clock::get()`.
pub fn with_clock<T>(clock: Clock, f: impl FnOnce() -> T) -> T {
    init();
    CTX.with(|c| {
        let mut c = c.borrow_mut();
        c.clock = clock;
        c.stack_height = 1;
        c.program_stack.clear();
        c.program_stack.push(marginfi::ID);
    });
    let r = f();
    CTX.with(|c| c.borrow_mut().program_stack.clear());
    r
}

/// Build real `AccountInfo`s (loader layout, so realloc/assign work) for direct calls of public
/// program functions that take account infos (oracle adapters); `f` runs under the given clock.
pub fn with_account_infos<T>(clock: Clock, accts: &[(Pubkey, Acct)], f: impl FnOnce(&'static [AccountInfo<'static>]) -> T) -> T {
    init();
    let mut work: BTreeMap<Pubkey, Arc<Acct>> = BTreeMap::new();
    for (k, a) in accts {
        work.insert(*k, Arc::new(a.clone()));
    }
    let metas: Vec<(Pubkey, bool, bool)> = accts.iter().map(|(k, _)| (*k, false, false)).collect();
    let mut m = marshal(&work, &marginfi::ID, &metas, &[]);
    let base = m.buf.as_mut_ptr() as *mut u8;
    CTX.with(|c| {
        let mut c = c.borrow_mut();
        c.clock = clock;
        c.stack_height = 1;
        c.program_stack.clear();
        c.program_stack.push(marginfi::ID);
    });
    let r = unsafe {
        let (_pid, accounts, _data) = solana_program::entrypoint::deserialize(base);
        let accounts_static: &'static [AccountInfo<'static>] = std::mem::transmute(accounts.as_slice());
        let r = f(accounts_static);
        drop(accounts);
        r
    };
    CTX.with(|c| c.borrow_mut().program_stack.clear());
    drop(m);
    r
}
