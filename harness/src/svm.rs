pub fn nothing(){}
