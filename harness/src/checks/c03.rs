//! C03 — no free value: (a) single-operation sweep over bank archetypes x share values x amounts,
//! (b) round-trip search: all op sequences of one or two users at constant share values and prices.

use super::histcommon::*;
use super::Tier;
use crate::act::{self, Action};
use crate::evidence::Outcome;
use crate::hist::{Alphabet, HState, Hist, NoFreeValueOracle};
use crate::mc::Limits;
use crate::svm::Store;
use crate::world::{self, *};
use fixed::types::I80F48;

fn spec_dec(label: &str, dec: u8, price_e8: i64) -> BankSpec {
    BankSpec { label: label.into(), mint: MintSpec::spl(&format!("m{label}"), dec), oracle: OracleSpec::pyth_usd(price_e8), config: BankCfg::default() }
}

pub fn c03_world(name: &str) -> (World, Store) {
    match name {
        "E" => build_world(&WorldSpec::new("HE", vec![spec_dec("B0", 0, 100_000_000), spec_dec("B18", 18, 100_000_000_000_000)], &["u0", "u1", "seeder", "u3"])),
        other => world_by_name(other),
    }
}

fn sv_menu(tier: Tier) -> Vec<(&'static str, I80F48, I80F48)> {
    let one = I80F48::ONE;
    let ulp = I80F48::from_bits(1);
    let mut v = vec![
        ("sv1", one, one),
        ("sv1ulp", one + ulp, one + ulp),
        ("sv4_3", I80F48::from_num(4) / I80F48::from_num(3), I80F48::from_num(1.000001)),
        ("sv037", I80F48::from_num(0.37), I80F48::from_num(1.5)),
        ("sv255", I80F48::from_num(255.9), I80F48::from_num(7.25)),
    ];
    if tier == Tier::Thorough {
        v.push(("sv_pi", I80F48::from_num(3.14159265358979), I80F48::from_num(2.718281828)));
        v.push(("sv_small", I80F48::from_num(0.000123), I80F48::from_num(1.0000000001)));
    }
    v
}

/// Roots at forged (but consistent: set while no shares exist) share values, with u0 lending bank 0
/// and owing bank 1, u1 the other way round.
fn sweep_roots(tier: Tier, w: &World, s0: &Store) -> Vec<(String, HState)> {
    let nb = w.banks.len();
    let mut roots = vec![];
    for (name, asv, lsv) in sv_menu(tier) {
        let mut s = s0.clone();
        for b in &w.banks {
            world::edit_bank(&mut s, &b.key, |bk| {
                bk.asset_share_value = asv.into();
                bk.liability_share_value = lsv.into();
            });
        }
        let mut ok = true;
        let mut go = |s: &mut Store, a: Action| {
            if !act::apply(w, s, &a).committed {
                ok = false;
            }
        };
        for b in 0..nb {
            go(&mut s, Action::Deposit { u: 2, b, amt: whole_capped(w, b, 1000), up_to_limit: None });
        }
        let (c0, d1, c1, d0) = (usd(w, &s, 0, 50_000), usd(w, &s, 1, 10_000) + 1, usd(w, &s, 1, 50_000) + 3, usd(w, &s, 0, 10_000) + 1);
        go(&mut s, Action::Deposit { u: 0, b: 0, amt: c0, up_to_limit: None });
        // (kept for the debt-free variants below: u0 lends and owes nothing, so that it may take out its whole deposit)
        let s_before_u0_borrows = s.clone();
        go(&mut s, Action::Borrow { u: 0, b: 1, amt: d1 });
        go(&mut s, Action::Deposit { u: 1, b: 1, amt: c1, up_to_limit: None });
        go(&mut s, Action::Borrow { u: 1, b: 0, amt: d0 });
        if ok {
            roots.push((name.to_string(), HState { s: s.clone(), clock_devs: 0, price_devs: 0, closes: vec![0; nb], forged: true }));
            // fraction-directed variants: u0's deposit (bank 0) and debt (bank 1) are re-forged so that their exact
            // values end in a chosen fraction of a native unit - just above a whole number, either side of the
            // program's 0.0001 dust threshold, one half, just below the next whole number. Full withdrawals must
            // still round down and full repayments up for every one of them.
            if name == "sv1" || name == "sv4_3" {
                let tiny = I80F48::from_bits(1 << 18);
                let mut s_nd = s_before_u0_borrows.clone();
                let mut ok_nd = true;
                for a in [Action::Deposit { u: 1, b: 1, amt: c1, up_to_limit: None }, Action::Borrow { u: 1, b: 0, amt: d0 }] {
                    ok_nd &= act::apply(w, &mut s_nd, &a).committed;
                }
                for (fname, frac) in [("f_tiny", tiny), ("f_00005", I80F48::from_num(0.00005)), ("f_00015", I80F48::from_num(0.00015)), ("f_half", I80F48::from_num(0.5)), ("f_almost1", I80F48::ONE - tiny)] {
                  for debt_free in [false, true] {
                    if debt_free && !ok_nd {
                        continue;
                    }
                    let mut t = if debt_free { s_nd.clone() } else { s.clone() };
                    let acct = w.users[0].account;
                    let legs: Vec<(usize, bool)> = if debt_free { vec![(0usize, true)] } else { vec![(0usize, true), (1usize, false)] };
                    for (b, is_asset) in legs {
                        let bk = w.banks[b].key;
                        let bank = world::bank(&t, &bk);
                        let sv: I80F48 = if is_asset { bank.asset_share_value.into() } else { bank.liability_share_value.into() };
                        let mut delta = I80F48::ZERO;
                        world::edit_account(&mut t, &acct, |a| {
                            if let Some(bal) = a.lending_account.balances.iter_mut().find(|x| x.active != 0 && x.bank_pk == bk) {
                                let old: I80F48 = if is_asset { bal.asset_shares.into() } else { bal.liability_shares.into() };
                                let value = (old * sv).floor() + frac;
                                let new = value / sv;
                                delta = new - old;
                                if is_asset {
                                    bal.asset_shares = new.into();
                                } else {
                                    bal.liability_shares = new.into();
                                }
                            }
                        });
                        world::edit_bank(&mut t, &bk, |x| {
                            if is_asset {
                                x.total_asset_shares = (I80F48::from(x.total_asset_shares) + delta).into();
                            } else {
                                x.total_liability_shares = (I80F48::from(x.total_liability_shares) + delta).into();
                            }
                        });
                    }
                    roots.push((format!("{name}:{}{fname}", if debt_free { "debt_free:" } else { "" }), HState { s: t, clock_devs: 0, price_devs: 0, closes: vec![0; nb], forged: true }));
                  }
                }
            }
        }
    }
    roots
}

fn whole_capped(w: &World, b: usize, n: u64) -> u64 {
    (n as u128 * 10u128.pow(w.banks[b].decimals as u32)).min((u64::MAX / 4096) as u128) as u64
}

/// native amount worth dollars_x100/100 at the bank's configured oracle price
fn usd(w: &World, s: &Store, b: usize, dollars_x100: u64) -> u64 {
    let one = 10u128.pow(w.banks[b].decimals as u32);
    let o = w.banks[b].oracle.expect("pyth bank");
    let a = s.get(&o).unwrap();
    let price_e8: u128 = if a.owner == pyth_solana_receiver_sdk::id() {
        let vl = if a.data[40] == 1 { 1 } else { 2 };
        let off = 8 + 32 + vl + 32;
        i64::from_le_bytes(a.data[off..off + 8].try_into().unwrap()) as u128
    } else {
        let feed: switchboard_on_demand::PullFeedAccountData = bytemuck::pod_read_unaligned(&a.data[8..8 + std::mem::size_of::<switchboard_on_demand::PullFeedAccountData>()]);
        (feed.result.value / 10_000_000_000) as u128
    };
    ((dollars_x100 as u128 * one * 1_000_000 / price_e8.max(1)).min((u64::MAX / 8192) as u128)).max(1) as u64
}

pub fn sweep_model(tier: Tier, world: &str) -> Hist {
    let (w, s0) = c03_world(world);
    let roots = sweep_roots(tier, &w, &s0);
    let mut alpha = Alphabet::standard(vec![0, 1], vec![0, 1]);
    alpha.liquidate = false;
    alpha.bankruptcy = false;
    alpha.accrue = false;
    alpha.collect = false;
    alpha.close_balance = true;
    alpha.max_clock_devs = 0;
    alpha.max_price_devs = 0;
    alpha.rich_amounts = true;
    alpha.sv_multiples = true;
    alpha.extra_amounts = vec![2, 3, 1u64 << 20, 1u64 << 40];
    // the same instructions with the user's own token account offered in the place of the bank's vaults: a
    // repayment "into" one's own account must not be credited
    alpha.vault_swaps = true;
    Hist { w, roots, alpha, oracles: vec![Box::new(NoFreeValueOracle)] }
}

pub fn roundtrip_model(tier: Tier, world: &str) -> Hist {
    let (w, s0) = c03_world(world);
    // share values away from 1 (R1 after a year of interest), all interest brought up to date, and
    // the forged-share-value roots
    let mut roots: Vec<(String, HState)> = standard_roots(&w, &s0, false).into_iter().filter(|(n, _)| n == "R0" || n == "R1").collect();
    for (_, st) in roots.iter_mut() {
        for b in 0..w.banks.len() {
            act::apply(&w, &mut st.s, &Action::Accrue { b });
        }
    }
    roots.extend(sweep_roots(tier, &w, &s0).into_iter().filter(|(n, _)| n == "sv4_3" || n == "sv037"));
    let mut alpha = Alphabet::standard(vec![0], vec![0, 1]);
    alpha.liquidate = false;
    alpha.bankruptcy = false;
    alpha.accrue = false;
    alpha.collect = false;
    alpha.close_balance = true;
    alpha.max_clock_devs = 0;
    alpha.max_price_devs = 0;
    alpha.rich_amounts = tier == Tier::Thorough;
    alpha.sv_multiples = true;
    Hist { w, roots, alpha, oracles: vec![Box::new(NoFreeValueOracle)] }
}

/// stale banks: one clock advance, then a single operation on a bank that has not accrued since;
/// incl. the banks in token-less repayment mode
pub fn stale_model(_tier: Tier, world: &str) -> Hist {
    let (w, s0) = c03_world(world);
    let mut roots: Vec<(String, HState)> = standard_roots(&w, &s0, false).into_iter().filter(|(n, _)| n == "R1" || n == "R7").collect();
    roots.extend(tokenless_roots(&w, &s0));
    roots.extend(emissions_root(&w, &s0));
    let mut alpha = Alphabet::standard(vec![0, 1], vec![0, 1]);
    alpha.liquidate = false;
    alpha.bankruptcy = false;
    alpha.accrue = false;
    alpha.collect = false;
    alpha.close_balance = true;
    alpha.max_clock_devs = 1;
    alpha.clock_dts = vec![86_400 * 30];
    alpha.max_price_devs = 0;
    alpha.rich_amounts = true;
    Hist { w, roots, alpha, oracles: vec![Box::new(NoFreeValueOracle)] }
}

pub fn model_for(replay: &serde_json::Value) -> Hist {
    let w = replay["world"].as_str().unwrap_or("A");
    match w.split_once(':') {
        Some(("sweep", n)) => sweep_model(Tier::Thorough, n),
        Some(("stale", n)) => stale_model(Tier::Thorough, n),
        Some((_, n)) => roundtrip_model(Tier::Thorough, n),
        None => roundtrip_model(Tier::Thorough, w),
    }
}

pub fn run(tier: Tier) -> Outcome {
    let mut runs = vec![];
    // debugging aid only: VERIF_C03_ONLY=stale:E runs one part (the evidence then says so through its run list)
    let only = std::env::var("VERIF_C03_ONLY").ok();
    let want = |label: &str| only.as_deref().map(|o| o == label).unwrap_or(true);
    let sweep_worlds: &[&str] = match tier {
        Tier::Quick => &["A", "B", "E"],
        Tier::Thorough => &["A", "B", "C", "D", "E"],
    };
    for wn in sweep_worlds {
        if !want(&format!("sweep:{wn}")) {
            continue;
        }
        let Some(h) = guarded(&format!("C03 sweep {wn}"), || sweep_model(tier, wn)) else { continue };
        let lim = Limits { max_depth: 1, max_wall_s: 300.0, ..Default::default() };
        let (report, recheck) = run_world(&h, &lim, None);
        runs.push(HistRun { world: format!("sweep:{wn}"), report, recheck });
    }
    let stale_worlds: &[&str] = match tier {
        Tier::Quick => &["A", "B", "C", "D"],
        Tier::Thorough => &["A", "B", "C", "D"],
    };
    // (world E, 0- and 18-decimal mints funded with tiny balances, exists for the rounding sweeps only: the
    // lending roots of the round-trip and stale models cannot be built in it)
    let rt_worlds: &[&str] = match tier {
        Tier::Quick => &["A", "B"],
        Tier::Thorough => &["A", "B", "C", "D"],
    };
    let depth = match tier {
        Tier::Quick => 4,
        Tier::Thorough => 5,
    };
    for wn in rt_worlds {
        if !want(&format!("rt:{wn}")) {
            continue;
        }
        let Some(h) = guarded(&format!("C03 rt {wn}"), || roundtrip_model(tier, wn)) else { continue };
        let lim = Limits { max_depth: depth, max_wall_s: if tier == Tier::Quick { 300.0 } else { 900.0 }, ..Default::default() };
        let (report, recheck) = run_world(&h, &lim, Some(depth - 2));
        runs.push(HistRun { world: format!("rt:{wn}"), report, recheck });
    }
    for wn in stale_worlds {
        // world E (0- and 18-decimal mints funded with tiny balances) exists for the rounding sweeps; the
        // lending roots of the stale model cannot be built in it
        if *wn == "E" || !want(&format!("stale:{wn}")) {
            continue;
        }
        let Some(h) = guarded(&format!("C03 stale {wn}"), || stale_model(tier, wn)) else { continue };
        let d = if tier == Tier::Quick { 3 } else { 4 };
        let lim = Limits { max_depth: d, max_wall_s: if tier == Tier::Quick { 300.0 } else { 900.0 }, ..Default::default() };
        let (report, recheck) = run_world(&h, &lim, Some(d - 1));
        runs.push(HistRun { world: format!("stale:{wn}"), report, recheck });
    }
    assemble(
        "C03",
        runs,
        &["deposit:ok:wealth_checked", "withdraw:ok:wealth_checked", "borrow:ok:wealth_checked", "repay:ok:wealth_checked", "withdraw_all:ok:wealth_checked", "repay_all:ok:wealth_checked"],
        &["withdraw_all:ok:user_lost_rounding", "repay_all:ok:user_lost_rounding"],
        "(a) sweep: from forged-share-value roots (1, 1+ulp, 4/3, 0.37, 255.9, ...) in worlds with 0/6/8/9/18-decimal mints and three transfer-fee settings, every deposit/withdraw/withdraw_all/borrow/repay/repay_all with amounts {1,2,3, k*ceil(sv)+-1, floor(position)+-1, half, 2^20, 2^40, ...} is executed once (depth 1); (b) round trips: every sequence of the same operations by one user on two banks up to the depth bound with no clock or price action; (c) stale banks: from roots with accrued share values, the risk admin being a borrower, and banks in token-less repayment mode, every sequence up to depth 3/4 with one 30-day clock advance, positions valued at the share values of the bank brought up to date by the real accrue instruction; on every committed step the user's token balance change plus exact position value change must not exceed a few ulps",
        vec!["environment model E1 (svm-lite)".into(), "sweep roots forge share values while no shares exist (consistent books); listed as forged".into()],
        &["sv1", "sv1ulp", "sv4_3", "sv037", "sv255"],
    )
}
