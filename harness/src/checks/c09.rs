//! C09 — oracle discipline. (A) value conformance: a complete product of oracle data (prices,
//! exponents, confidences, EMA skews, max-confidence settings; Pyth / Switchboard / fixed / staked) is
//! presented to the real risk engine through `lending_account_pulse_health`; its initial,
//! maintenance and equity valuations and its three verdicts are compared with the exact reference and
//! with the statement's one-sided rules. (B) decision matrix: every way an oracle can be unusable
//! (one second too old, wrong owner, wrong discriminator, partial verification, confidence just over
//! the maximum, zero / negative price, impostor at another address, staked mint / pool impostors)
//! x {collateral, debt} bank x {pulse, borrow, withdraw, liquidate, bankruptcy} through the real
//! instructions: an acceptance must be backed by a usable reference valuation.

use super::Tier;
use crate::act::{self, Action};
use crate::evidence::{Found, Outcome};
use crate::health::{self, OracleErr, Req};
use crate::ix;
use crate::refmodel::{self as rf, Q};
use crate::svm::{process_tx, Acct, Store, Tx};
use crate::world::{self, *};
use fixed::types::I80F48;
use marginfi_type_crate::types::{Balance, BankConfigOpt, OracleSetup};
use num_traits::{Signed, Zero};
use serde_json::json;
use solana_program::instruction::AccountMeta;
use solana_program::pubkey::Pubkey;
use std::collections::BTreeMap;

const ERR_HEALTHY: u32 = 6068;
const ERR_NOT_BANKRUPT: u32 = 6013;
const ERR_RISK_REJECT: u32 = 6009;

#[derive(Clone, Copy, Debug, PartialEq, Eq, serde::Serialize, serde::Deserialize)]
pub enum Kind {
    Pyth,
    Swb,
    Fixed,
    Staked,
}

struct Scene {
    w: World,
    s: Store,
    asset_kind: Kind,
    liab_kind: Kind,
}

fn spec_for(kind: Kind, label: &str, mint: &str, dec: u8, usd: i64) -> BankSpec {
    let mut cfg = BankCfg::default();
    cfg.asset_weight_init = I80F48::from_num(0.5);
    cfg.asset_weight_maint = I80F48::from_num(0.9);
    cfg.liability_weight_init = I80F48::from_num(1.25);
    cfg.liability_weight_maint = I80F48::from_num(1.1);
    let oracle = match kind {
        Kind::Pyth | Kind::Staked => OracleSpec::pyth_usd(usd * 100_000_000),
        Kind::Swb => OracleSpec::Swb { value: usd as i128 * 1_000_000_000_000_000_000, std_dev: 0 },
        Kind::Fixed => OracleSpec::Fixed { price: I80F48::from_num(usd) },
    };
    BankSpec { label: label.into(), mint: MintSpec::spl(mint, dec), oracle, config: cfg }
}

fn scene(asset_kind: Kind, liab_kind: Kind, tag: &str) -> Scene {
    scene_with_max_age(asset_kind, liab_kind, tag, 120)
}

/// `max_age`: the banks' configured maximum oracle age in seconds (the program's own default for Pyth, 60 s, lies
/// between the two values used)
fn scene_with_max_age(asset_kind: Kind, liab_kind: Kind, tag: &str, max_age: u16) -> Scene {
    let mut a = spec_for(asset_kind, "OA", "c09a", if asset_kind == Kind::Staked { 9 } else { 6 }, 4);
    let mut l = spec_for(liab_kind, "OL", "c09l", 9, 25);
    a.config.oracle_max_age = max_age;
    l.config.oracle_max_age = max_age;
    let a2 = spec_for(Kind::Pyth, "OA2", "c09a2", 6, 1);
    if asset_kind == Kind::Staked {
        l.config.asset_tag = marginfi_type_crate::constants::ASSET_TAG_SOL;
        a.config.asset_tag = marginfi_type_crate::constants::ASSET_TAG_DEFAULT;
    }
    let mut banks = vec![a, l];
    if asset_kind != Kind::Staked {
        banks.push(a2);
    }
    let (w, mut s) = build_world(&WorldSpec::new(&format!("C09{tag}"), banks, &["u0", "u1", "seeder"]));
    if asset_kind == Kind::Staked {
        let supply = u64::from_le_bytes(s.get(&w.banks[0].mint).unwrap().data[36..44].try_into().unwrap());
        world::make_staked_bank(&mut s, &w, 0, (supply as u128 * 107 / 100) as u64 + 1_000_000_000);
    }
    // liquidity from the seeder
    for b in 0..w.banks.len() {
        let amt = 1_000_000u64 * 10u64.pow(w.banks[b].decimals as u32);
        let r = act::apply(&w, &mut s, &Action::Deposit { u: 2, b, amt, up_to_limit: None });
        assert!(r.committed, "C09 scene liquidity {b}: {}", crate::svm::err_name(r.code));
    }
    Scene { w, s, asset_kind, liab_kind }
}

/// u0 (and u1 as liquidator) portfolios through the real instructions
fn portfolio_healthy(sc: &Scene) -> Store {
    let mut s = sc.s.clone();
    let w = &sc.w;
    let one = |b: usize| 10u64.pow(w.banks[b].decimals as u32);
    let go = |s: &mut Store, a: Action| {
        let r = act::apply(w, s, &a);
        assert!(r.committed, "C09 portfolio {:?}: {}", a, crate::svm::err_name(r.code));
    };
    go(&mut s, Action::Deposit { u: 0, b: 0, amt: 250 * one(0), up_to_limit: None }); // $1000
    go(&mut s, Action::Borrow { u: 0, b: 1, amt: 4 * one(1) }); // $100
    go(&mut s, Action::Deposit { u: 1, b: 1, amt: 1000 * one(1), up_to_limit: None });
    s
}

fn set_pyth(s: &mut Store, k: &Pubkey, price: i64, conf: u64, ema: i64, ema_conf: u64, expo: i32, age: i64, full: bool) {
    let now = s.now;
    s.set(*k, pyth_account(price, conf, ema, ema_conf, expo, now - age, full));
}

// ---------------------------------------------------------------- (A) value conformance

struct Tally {
    cells: u64,
    classes: BTreeMap<String, u64>,
    found: Vec<Found>,
    samples: Vec<serde_json::Value>,
}

impl Tally {
    fn class(&mut self, k: String) {
        *self.classes.entry(k).or_insert(0) += 1;
    }
}

fn forge_positions(s: &mut Store, acct: &Pubkey, asset: (Pubkey, i128), liab: Option<(Pubkey, i128)>) {
    world::edit_account(s, acct, |a| {
        let mut bals: Vec<Balance> = vec![];
        let mut b = Balance::empty_deactivated();
        b.active = 1;
        b.bank_pk = asset.0;
        b.asset_shares = I80F48::from_bits(asset.1 << 48).into();
        bals.push(b);
        if let Some((k, sh)) = liab {
            let mut b = Balance::empty_deactivated();
            b.active = 1;
            b.bank_pk = k;
            b.liability_shares = I80F48::from_bits(sh << 48).into();
            bals.push(b);
        }
        bals.sort_by(|x, y| y.bank_pk.cmp(&x.bank_pk));
        for (i, slot) in a.lending_account.balances.iter_mut().enumerate() {
            *slot = if i < bals.len() { bals[i] } else { Balance::empty_deactivated() };
        }
    });
}

struct Pulse {
    ok: bool,
    hc: marginfi_type_crate::types::HealthCache,
}

fn pulse(w: &World, s: &Store, acct: &Pubkey, replace: Option<(Pubkey, Pubkey)>) -> Pulse {
    let mut t = s.clone();
    let mut rem = w.risk_metas(&t, acct, None, None);
    if let Some((from, to)) = replace {
        for m in rem.iter_mut() {
            if m.pubkey == from {
                m.pubkey = to;
            }
        }
    }
    let r = process_tx(&mut t, &Tx::one(ix::pulse_health(*acct, rem), &[act::stranger()]));
    Pulse { ok: r.ok(), hc: world::account(&t, acct).health_cache }
}

/// compare the program's three valuations and verdicts (from the health cache) with the reference
/// computed on `rs` (the store as the reference must see it)
fn judge_pulse(tag: &str, w: &World, rs: &Store, acct: &Pubkey, p: &Pulse, rep: &serde_json::Value, t: &mut Tally) {
    if !p.ok {
        // the diagnostic instruction gave up altogether (arithmetic on out-of-range data): no verdict, nothing to judge
        t.class("pulse_failed_altogether".into());
        let _ = (tag, rep);
        return;
    }
    let hc = &p.hc;
    let refs = [(Req::Initial, "init"), (Req::Maintenance, "maint"), (Req::Equity, "equity")];
    for (req, name) in refs {
        let h = health::health(rs, acct, req).unwrap();
        let (pa, pl, perr): (Q, Q, u32) = match req {
            Req::Initial => (rf::q(hc.asset_value), rf::q(hc.liability_value), if hc.flags & 2 != 0 { 0 } else { hc.mrgn_err.max(1) }),
            Req::Maintenance => (rf::q(hc.asset_value_maint), rf::q(hc.liability_value_maint), if hc.internal_liq_err == ERR_HEALTHY { 0 } else { hc.internal_liq_err }),
            Req::Equity => (rf::q(hc.asset_value_equity), rf::q(hc.liability_value_equity), if hc.internal_bankruptcy_err == ERR_NOT_BANKRUPT { 0 } else { hc.internal_bankruptcy_err }),
        };
        // the program's verdict for this requirement type: did the valuation go through at all?
        let prog_failed = match req {
            Req::Initial => hc.flags & 2 == 0,
            _ => perr != 0 && !(req == Req::Maintenance && false),
        };
        match &h.engine_err {
            Some(e) => {
                // the reference cannot value the portfolio: the program must not produce a verdict
                let verdict = match req {
                    Req::Initial => hc.flags & 2 != 0,
                    // 0 = "liquidatable" / "bankrupt"; HealthyAccount / AccountNotBankrupt are verdicts too
                    Req::Maintenance => hc.internal_liq_err == 0 || hc.internal_liq_err == ERR_HEALTHY,
                    Req::Equity => hc.internal_bankruptcy_err == 0 || hc.internal_bankruptcy_err == ERR_NOT_BANKRUPT,
                };
                t.class(format!("{name}:reference_unusable:{}", if verdict { "PROGRAM_VALUED" } else { "program_failed" }));
                if verdict {
                    t.found.push(Found {
                        clause: format!("C09.unusable_oracle_fails_{name}"),
                        sig: tag.to_string(),
                        detail: format!("{tag}: the {name} assessment went through (assets {:.6}, liabilities {:.6}, code {}) although the presented oracle data is unusable: {:?}", rf::qf64(&pa), rf::qf64(&pl), perr, e),
                        replay: rep.clone(),
                    });
                }
            }
            None => {
                if prog_failed && req != Req::Initial {
                    // rejecting is always safe; recorded, not a violation of this property
                    t.class(format!("{name}:reference_usable:program_failed:{perr}"));
                    continue;
                }
                if prog_failed {
                    t.class(format!("{name}:reference_usable:program_failed:{}", hc.mrgn_err));
                    continue;
                }
                t.class(format!("{name}:both_valued"));
                let tol = h.allow.clone() * rf::qi(4) + rf::qfrac(1, 1_000_000_000_000);
                if rf::qabs(&(pa.clone() - h.assets.clone())) > tol.clone() + h.assets.clone() * rf::qfrac(1, 1i128 << 40) {
                    t.found.push(Found { clause: format!("C09.asset_value_{name}"), sig: tag.to_string(), detail: format!("{tag}: program values the collateral at {:.9} for {name}, reference {:.9}", rf::qf64(&pa), rf::qf64(&h.assets)), replay: rep.clone() });
                }
                if rf::qabs(&(pl.clone() - h.liabs.clone())) > tol.clone() + h.liabs.clone() * rf::qfrac(1, 1i128 << 40) {
                    t.found.push(Found { clause: format!("C09.liability_value_{name}"), sig: tag.to_string(), detail: format!("{tag}: program values the debt at {:.9} for {name}, reference {:.9}", rf::qf64(&pl), rf::qf64(&h.liabs)), replay: rep.clone() });
                }
                // the statement's one-sided rules, independent of the band formula: collateral at or
                // below the reported price, debt at or above it, never further than 5 % away
                if req != Req::Equity {
                    let mut unb_a = Q::zero();
                    let mut unb_l = Q::zero();
                    for pos in &h.positions {
                        let Some(bank) = world::try_bank(rs, &pos.bank) else { continue };
                        let Ok(o) = health::oracle_ref(rs, &bank) else { continue };
                        let reported = if req == Req::Initial { o.twap.clone() } else { o.spot.clone() };
                        // Drift positions are kept in the venue's 9-decimal scaled units
                        let dec = if bank.config.asset_tag == marginfi_type_crate::constants::ASSET_TAG_DRIFT { 9 } else { bank.mint_decimals as u32 };
                        let v = pos.amount.clone() * pos.weight.clone() * reported / rf::pow10(dec);
                        if pos.is_liability {
                            unb_l += v;
                        } else if pos.oracle_err.is_none() {
                            unb_a += v;
                        }
                    }
                    if pa > unb_a.clone() + tol.clone() {
                        t.found.push(Found { clause: "C09.collateral_at_or_below_reported".into(), sig: tag.to_string(), detail: format!("{tag}: collateral valued {:.9} above its value at the reported price {:.9} ({name})", rf::qf64(&pa), rf::qf64(&unb_a)), replay: rep.clone() });
                    }
                    if pa < unb_a.clone() * rf::qfrac(95, 100) - tol.clone() {
                        t.found.push(Found { clause: "C09.band_capped_at_5pct".into(), sig: tag.to_string(), detail: format!("{tag}: collateral valued {:.9}, more than 5 % below the reported-price value {:.9} ({name})", rf::qf64(&pa), rf::qf64(&unb_a)), replay: rep.clone() });
                    }
                    if pl < unb_l.clone() - tol.clone() {
                        t.found.push(Found { clause: "C09.debt_at_or_above_reported".into(), sig: tag.to_string(), detail: format!("{tag}: debt valued {:.9} below its value at the reported price {:.9} ({name})", rf::qf64(&pl), rf::qf64(&unb_l)), replay: rep.clone() });
                    }
                    if pl > unb_l.clone() * rf::qfrac(105, 100) + tol.clone() {
                        t.found.push(Found { clause: "C09.band_capped_at_5pct".into(), sig: tag.to_string(), detail: format!("{tag}: debt valued {:.9}, more than 5 % above the reported-price value {:.9} ({name})", rf::qf64(&pl), rf::qf64(&unb_l)), replay: rep.clone() });
                    }
                }
                // verdicts
                let hh = pa.clone() - pl.clone();
                match req {
                    Req::Maintenance => {
                        let says_liq = hc.internal_liq_err == 0;
                        if says_liq && h.health() > h.allow.clone() + tol.clone() {
                            t.found.push(Found { clause: "C09.liquidatable_only_if_unhealthy".into(), sig: tag.to_string(), detail: format!("{tag}: reported liquidatable with reference maintenance health {:.9}", rf::qf64(&h.health())), replay: rep.clone() });
                        }
                        let _ = hh;
                    }
                    _ => {}
                }
            }
        }
    }
}

fn value_sweep(tier: Tier, t: &mut Tally) {
    // --- Pyth data product, on the asset side and on the liability side
    let sc = scene(Kind::Pyth, Kind::Pyth, "v");
    let w = &sc.w;
    let acct = w.users[0].account;
    let prices: Vec<i64> = if tier == Tier::Quick { vec![1, 7, 123_456_789, 40_000_000_000, 9_000_000_000_000_000] } else { vec![1, 2, 7, 1000, 123_456_789, 40_000_000_000, 1_000_000_000_000, 9_000_000_000_000_000] };
    let expos: Vec<i32> = if tier == Tier::Quick { vec![-12, -8, -5, 0] } else { vec![-18, -12, -10, -8, -5, -2, 0, 1] };
    // confidence as parts per 100000 of the price: 2.12 * pp: 0, tiny, just under / over 5 %, just under / over 10 %
    let conf_pps: Vec<u64> = vec![0, 1, 1000, 2358, 2359, 4716, 4717, 4718, 9000, 100_000];
    let emas: Vec<(i64, i64)> = vec![(1, 1), (1, 2), (2, 1)];
    let max_confs: Vec<u32> = vec![0, 85_899_345 /* 2 % */, 214_748_364 /* 5 % */, u32::MAX];
    for side in ["asset", "liab"] {
        for &mc in &max_confs {
            let mut s0 = sc.s.clone();
            let target = if side == "asset" { 0 } else { 1 };
            let r = process_tx(&mut s0, &Tx::one(ix::configure_bank(w.group, w.roles.admin, w.banks[target].key, BankConfigOpt { oracle_max_confidence: Some(mc), ..Default::default() }), &[w.roles.admin]));
            assert!(r.ok());
            for &price in &prices {
                for &expo in &expos {
                    // keep the dollar price inside what I80F48 and the test amounts can carry
                    let dollars = price as f64 * 10f64.powi(expo);
                    if !(1e-9..=1e12).contains(&dollars) {
                        continue;
                    }
                    // confidence of the time-weighted price: the same fraction as the spot one, and (fewer in the
                    // quick tier) fractions of its own, so that the two confidences cannot stand in for each other
                    let own: Vec<Option<u64>> = if tier == Tier::Quick { vec![None, Some(300)] } else { vec![None, Some(0), Some(300), Some(2358), Some(4717), Some(9000)] };
                    for &pp in &conf_pps {
                        for &ema_own in &own {
                        for &(en, ed) in &emas {
                            let conf = (price as u128 * pp as u128 / 100_000) as u64;
                            let ema = (price / ed * en).max(1);
                            let ema_pp = ema_own.unwrap_or(pp);
                            let ema_conf = (ema as u128 * ema_pp as u128 / 100_000) as u64;
                            let mut s = s0.clone();
                            set_pyth(&mut s, &w.banks[target].oracle.unwrap(), price, conf, ema, ema_conf, expo, 0, true);
                            // 1000 whole tokens of collateral, 3 of debt
                            forge_positions(&mut s, &acct, (w.banks[0].key, 1000 * 10i128.pow(6)), Some((w.banks[1].key, 3 * 10i128.pow(9))));
                            let tag = format!("pyth:{side}:max{mc}");
                            let rep = json!({"model": "C09A", "side": side, "max_conf": mc, "price": price, "expo": expo, "conf_pp": pp, "ema_conf_pp": ema_pp, "ema": [en, ed]});
                            let p = pulse(w, &s, &acct, None);
                            t.cells += 1;
                            judge_pulse(&tag, w, &s, &acct, &p, &rep, t);
                            if t.samples.len() < 3 && t.cells % 1777 == 0 {
                                t.samples.push(json!({"case": rep, "program": {"asset_value": rf::qf64(&rf::q(p.hc.asset_value)), "liability_value": rf::qf64(&rf::q(p.hc.liability_value)), "flags": p.hc.flags}}));
                            }
                        }
                        }
                    }
                }
            }
        }
    }
    // --- Switchboard data product
    let sc = scene(Kind::Swb, Kind::Swb, "w");
    let w = &sc.w;
    let acct = w.users[0].account;
    let e18: i128 = 1_000_000_000_000_000_000;
    // from a billionth of a dollar (well above the 2^-48 resolution of the program's numbers) upwards
    let values: Vec<i128> = vec![e18 / 1_000_000_000, e18 / 1000, 4 * e18, 25 * e18 + 1, 1_000_000 * e18];
    // std_dev as parts per 100000 of the value: 1.96 * pp around 5 % and 10 %
    let sd_pps: Vec<i128> = vec![0, 1, 1000, 2551, 2552, 5102, 5103, 8000, 40_000, 100_000];
    for side in ["asset", "liab"] {
        for &mc in &max_confs {
            let mut s0 = sc.s.clone();
            let target = if side == "asset" { 0 } else { 1 };
            let r = process_tx(&mut s0, &Tx::one(ix::configure_bank(w.group, w.roles.admin, w.banks[target].key, BankConfigOpt { oracle_max_confidence: Some(mc), ..Default::default() }), &[w.roles.admin]));
            assert!(r.ok());
            for &v in &values {
                for &pp in &sd_pps {
                    let mut s = s0.clone();
                    let now = s.now;
                    s.set(w.banks[target].oracle.unwrap(), swb_account(v, v * pp / 100_000, now));
                    forge_positions(&mut s, &acct, (w.banks[0].key, 1000 * 10i128.pow(6)), Some((w.banks[1].key, 3 * 10i128.pow(9))));
                    let tag = format!("swb:{side}:max{mc}");
                    let rep = json!({"model": "C09A", "kind": "swb", "side": side, "max_conf": mc, "value": v.to_string(), "sd_pp": pp as i64});
                    let p = pulse(w, &s, &acct, None);
                    t.cells += 1;
                    judge_pulse(&tag, w, &s, &acct, &p, &rep, t);
                }
            }
        }
    }
}

/// venue-backed collateral (Kamino / Solend / Drift with a Pyth feed of the underlying): spot, EMA and
/// both confidences must each carry the exchange rate
fn venue_sweep(t: &mut Tally) {
    let sc = scene(Kind::Pyth, Kind::Pyth, "x");
    let w = &sc.w;
    let acct = w.users[0].account;
    let venue_k = key("c09:venue_account");
    for venue in ["kamino", "solend", "drift"] {
        for (rn, rd) in [(2u64, 1u64), (11, 10), (1, 1)] {
            let mut s0 = sc.s.clone();
            s0.slot = 777;
            let (setup, tag, acct_data) = match venue {
                "kamino" => {
                    let mut r: kamino_mocks::state::MinimalReserve = bytemuck::Zeroable::zeroed();
                    r.available_amount = 1_000_000_000 * rn;
                    r.mint_total_supply = 1_000_000_000 * rd;
                    r.mint_decimals = 6;
                    r.slot = s0.slot;
                    let mut d = kamino_mocks::state::RESERVE_DISCRIMINATOR.to_vec();
                    d.extend_from_slice(bytemuck::bytes_of(&r));
                    (OracleSetup::KaminoPythPush, marginfi_type_crate::constants::ASSET_TAG_KAMINO, Acct::new(1, d, kamino_mocks::ID))
                }
                "solend" => {
                    let mut r: solend_mocks::state::SolendMinimalReserve = bytemuck::Zeroable::zeroed();
                    r.liquidity_available_amount = 1_000_000_000 * rn;
                    r.collateral_mint_total_supply = 1_000_000_000 * rd;
                    r.liquidity_mint_decimals = 6;
                    r.last_update_slot = s0.slot;
                    let mut d = solend_mocks::state::RESERVE_DISCRIMINATOR.to_vec();
                    d.extend_from_slice(bytemuck::bytes_of(&r));
                    (OracleSetup::SolendPythPull, marginfi_type_crate::constants::ASSET_TAG_SOLEND, Acct::new(1, d, solend_mocks::ID))
                }
                _ => {
                    let mut m = drift_mocks::state::MinimalSpotMarket::default();
                    m.cumulative_deposit_interest = (10_000_000_000u128 * rn as u128 / rd as u128).to_le_bytes();
                    m.decimals = 6;
                    m.last_interest_ts = s0.now as u64;
                    let mut d = drift_mocks::state::SPOT_MARKET_DISCRIMINATOR.to_vec();
                    d.extend_from_slice(bytemuck::bytes_of(&m));
                    (OracleSetup::DriftPythPull, marginfi_type_crate::constants::ASSET_TAG_DRIFT, Acct::new(1, d, drift_mocks::ID))
                }
            };
            s0.set(venue_k, acct_data.clone());
            world::edit_bank(&mut s0, &w.banks[0].key, |b| {
                b.config.oracle_setup = setup;
                b.config.oracle_keys[1] = venue_k;
                b.config.asset_tag = tag;
            });
            // an account of the same venue program with the same bytes at another address, offered in the place of the
            // configured reserve / market: the price must not come from it (the reference sees no usable venue account)
            {
                let k2 = key("c09:venue_account:elsewhere");
                let mut s = s0.clone();
                s.set(k2, acct_data);
                forge_positions(&mut s, &acct, (w.banks[0].key, 1000 * 10i128.pow(6)), Some((w.banks[1].key, 3 * 10i128.pow(9))));
                let p = pulse(w, &s, &acct, Some((venue_k, k2)));
                let mut rs = s.clone();
                rs.accts.remove(&venue_k);
                t.cells += 1;
                judge_pulse(&format!("venue:{venue}:other_venue_account"), w, &rs, &acct, &p, &json!({"model": "C09V", "venue": venue, "rate": [rn, rd], "substitute": "same bytes at another address"}), t);
            }
            for price in [123_456_789i64, 40_000_000_000] {
                for (conf_pp, ema_conf_pp) in [(0u64, 0u64), (100, 2000), (2000, 100), (1000, 1000), (2358, 2359)] {
                    for (en, ed) in [(1i64, 1i64), (1, 2), (2, 1)] {
                        let conf = (price as u128 * conf_pp as u128 / 100_000) as u64;
                        let ema = price / ed * en;
                        let ema_conf = (ema as u128 * ema_conf_pp as u128 / 100_000) as u64;
                        let mut s = s0.clone();
                        set_pyth(&mut s, &w.banks[0].oracle.unwrap(), price, conf, ema, ema_conf, -8, 0, true);
                        forge_positions(&mut s, &acct, (w.banks[0].key, 1000 * 10i128.pow(6)), Some((w.banks[1].key, 3 * 10i128.pow(9))));
                        let tag = format!("venue:{venue}");
                        let rep = json!({"model": "C09V", "venue": venue, "rate": [rn, rd], "price": price, "conf_pp": conf_pp, "ema_conf_pp": ema_conf_pp, "ema": [en, ed]});
                        let p = pulse(w, &s, &acct, None);
                        t.cells += 1;
                        judge_pulse(&tag, w, &s, &acct, &p, &rep, t);
                    }
                }
            }
        }
    }
}

/// the Switchboard flavours of the venue-backed setups: value and standard deviation each carry the exchange rate, and
/// the feed account must be the configured one, owned by the Switchboard program, with the feed's layout, fresh
fn venue_sweep_switchboard(t: &mut Tally) {
    let sc = scene(Kind::Swb, Kind::Pyth, "y");
    let w = &sc.w;
    let acct = w.users[0].account;
    let venue_k = key("c09:venue_account:swb");
    let feed_k = w.banks[0].oracle.unwrap();
    for venue in ["kamino", "solend", "drift"] {
        for (rn, rd) in [(2u64, 1u64), (11, 10), (1, 1)] {
            let mut s0 = sc.s.clone();
            s0.slot = 777;
            let (setup, tag, acct_data) = match venue {
                "kamino" => {
                    let mut r: kamino_mocks::state::MinimalReserve = bytemuck::Zeroable::zeroed();
                    r.available_amount = 1_000_000_000 * rn;
                    r.mint_total_supply = 1_000_000_000 * rd;
                    r.mint_decimals = 6;
                    r.slot = s0.slot;
                    let mut d = kamino_mocks::state::RESERVE_DISCRIMINATOR.to_vec();
                    d.extend_from_slice(bytemuck::bytes_of(&r));
                    (OracleSetup::KaminoSwitchboardPull, marginfi_type_crate::constants::ASSET_TAG_KAMINO, Acct::new(1, d, kamino_mocks::ID))
                }
                "solend" => {
                    let mut r: solend_mocks::state::SolendMinimalReserve = bytemuck::Zeroable::zeroed();
                    r.liquidity_available_amount = 1_000_000_000 * rn;
                    r.collateral_mint_total_supply = 1_000_000_000 * rd;
                    r.liquidity_mint_decimals = 6;
                    r.last_update_slot = s0.slot;
                    let mut d = solend_mocks::state::RESERVE_DISCRIMINATOR.to_vec();
                    d.extend_from_slice(bytemuck::bytes_of(&r));
                    (OracleSetup::SolendSwitchboardPull, marginfi_type_crate::constants::ASSET_TAG_SOLEND, Acct::new(1, d, solend_mocks::ID))
                }
                _ => {
                    let mut m = drift_mocks::state::MinimalSpotMarket::default();
                    m.cumulative_deposit_interest = (10_000_000_000u128 * rn as u128 / rd as u128).to_le_bytes();
                    m.decimals = 6;
                    m.last_interest_ts = s0.now as u64;
                    let mut d = drift_mocks::state::SPOT_MARKET_DISCRIMINATOR.to_vec();
                    d.extend_from_slice(bytemuck::bytes_of(&m));
                    (OracleSetup::DriftSwitchboardPull, marginfi_type_crate::constants::ASSET_TAG_DRIFT, Acct::new(1, d, drift_mocks::ID))
                }
            };
            let venue_owner = acct_data.owner;
            s0.set(venue_k, acct_data);
            world::edit_bank(&mut s0, &w.banks[0].key, |b| {
                b.config.oracle_setup = setup;
                b.config.oracle_keys[1] = venue_k;
                b.config.asset_tag = tag;
            });
            let e18 = 1_000_000_000_000_000_000i128;
            for value in [4 * e18, 123_456_789 * e18 / 1_000_000, 40_000 * e18] {
                for dev_pp in [0i128, 100, 2000, 2551, 2552, 5200] {
                    let std_dev = value * dev_pp / 100_000;
                    for cond in ["fresh", "owner_system_program", "owner_venue_program", "owner_this_program", "bad_discriminator", "age_at_limit", "age_over_limit"] {
                        let mut s = s0.clone();
                        let mut feed = world::swb_account(value, std_dev, s.now);
                        match cond {
                            "owner_system_program" => feed.owner = solana_program::system_program::id(),
                            "owner_venue_program" => feed.owner = venue_owner,
                            "owner_this_program" => feed.owner = marginfi::ID,
                            "bad_discriminator" => feed.data[0] ^= 0xff,
                            "age_at_limit" => feed = world::swb_account(value, std_dev, s.now - 120),
                            "age_over_limit" => feed = world::swb_account(value, std_dev, s.now - 121),
                            _ => {}
                        }
                        if cond != "fresh" && dev_pp != 100 {
                            continue;
                        }
                        s.set(feed_k, feed);
                        forge_positions(&mut s, &acct, (w.banks[0].key, 1000 * 10i128.pow(6)), Some((w.banks[1].key, 3 * 10i128.pow(9))));
                        let tag = format!("venue_swb:{venue}:{cond}");
                        let rep = json!({"model": "C09VS", "venue": venue, "rate": [rn, rd], "value": value.to_string(), "dev_pp": dev_pp, "cond": cond});
                        let p = pulse(w, &s, &acct, None);
                        t.cells += 1;
                        judge_pulse(&tag, w, &s, &acct, &p, &rep, t);
                    }
                }
            }
        }
    }
}

// ---------------------------------------------------------------- (B) decision matrix

#[derive(Clone, Debug, PartialEq, Eq)]
enum Cond {
    Fresh,
    AgeAtLimit,
    AgeOverLimit,
    WrongOwner,
    BadDiscriminator,
    PartialVerification,
    ConfJustUnderMax,
    ConfJustOverMax,
    ZeroPrice,
    ZeroPriceWithConf,
    NegativePrice,
    ZeroEma,
    ImpostorAtAnotherAddress,
    /// a bank from before the Pyth-push migration (config flags 0) is offered an account of the receiver program at
    /// another address whose feed id field spells the configured oracle key
    LegacyFeedIdImpostor,
    StakedMintImpostor,
    StakedPoolImpostor,
    StakedZeroSupply,
    FixedZero,
}

/// apply the condition to bank `bi`'s oracle; returns (meta replacement for the program, reference store)
fn apply_cond(sc: &Scene, s: &mut Store, bi: usize, c: &Cond) -> Option<(Option<(Pubkey, Pubkey)>, Store)> {
    let w = &sc.w;
    let kind = if bi == 0 { sc.asset_kind } else { sc.liab_kind };
    let bank = world::bank(s, &w.banks[bi].key);
    let max_age: i64 = match (bank.config.oracle_max_age, bank.config.oracle_setup) {
        (0, OracleSetup::PythPushOracle) => 60,
        (n, _) => n as i64,
    };
    let usd: i64 = if bi == 0 { 4 } else { 25 };
    let ok = bank.config.oracle_keys[0];
    let now = s.now;
    let mut replace = None;
    let mut reference: Option<Store> = None;
    let pyth_like = matches!(kind, Kind::Pyth | Kind::Staked);
    match c {
        Cond::Fresh => {}
        Cond::AgeAtLimit | Cond::AgeOverLimit => {
            let age = if *c == Cond::AgeAtLimit { max_age } else { max_age + 1 };
            match kind {
                Kind::Pyth | Kind::Staked => set_pyth(s, &ok, usd * 100_000_000, 0, usd * 100_000_000, 0, -8, age, true),
                Kind::Swb => s.set(ok, swb_account(usd as i128 * 1_000_000_000_000_000_000, 0, now - age)),
                Kind::Fixed => return None,
            }
        }
        Cond::WrongOwner => {
            if kind == Kind::Fixed {
                return None;
            }
            let mut a = (*s.get(&ok).unwrap()).clone();
            a.owner = solana_program::system_program::id();
            a.digest = Default::default();
            s.set(ok, a);
        }
        Cond::BadDiscriminator => {
            if kind == Kind::Fixed {
                return None;
            }
            let mut a = (*s.get(&ok).unwrap()).clone();
            a.data[0] ^= 0xFF;
            a.digest = Default::default();
            s.set(ok, a);
        }
        Cond::PartialVerification => {
            if !pyth_like {
                return None;
            }
            set_pyth(s, &ok, usd * 100_000_000, 0, usd * 100_000_000, 0, -8, 0, false);
        }
        Cond::ConfJustUnderMax | Cond::ConfJustOverMax => {
            // default maximum 10 %: 2.12 * conf (1.96 * std_dev) just under / over a tenth of the price
            let over = *c == Cond::ConfJustOverMax;
            match kind {
                Kind::Pyth | Kind::Staked => {
                    let p = usd * 100_000_000;
                    let conf = (p as u128 * if over { 4718 } else { 4716 } / 100_000) as u64;
                    set_pyth(s, &ok, p, conf, p, conf, -8, 0, true);
                }
                Kind::Swb => {
                    let v = usd as i128 * 1_000_000_000_000_000_000;
                    s.set(ok, swb_account(v, v * if over { 5103 } else { 5101 } / 100_000, now));
                }
                Kind::Fixed => return None,
            }
        }
        Cond::ZeroPrice | Cond::ZeroPriceWithConf | Cond::NegativePrice | Cond::ZeroEma => match kind {
            Kind::Pyth | Kind::Staked => {
                let p = usd * 100_000_000;
                match c {
                    Cond::ZeroPrice => set_pyth(s, &ok, 0, 0, 0, 0, -8, 0, true),
                    Cond::ZeroPriceWithConf => set_pyth(s, &ok, 0, 5, 0, 5, -8, 0, true),
                    Cond::NegativePrice => set_pyth(s, &ok, -p, 0, -p, 0, -8, 0, true),
                    _ => set_pyth(s, &ok, p, 0, 0, 0, -8, 0, true),
                }
            }
            Kind::Swb => match c {
                Cond::ZeroPrice => s.set(ok, swb_account(0, 0, now)),
                Cond::NegativePrice => s.set(ok, swb_account(-(usd as i128) * 1_000_000_000_000_000_000, 0, now)),
                _ => return None,
            },
            Kind::Fixed => return None,
        },
        Cond::FixedZero => {
            if kind != Kind::Fixed {
                return None;
            }
            world::edit_bank(s, &w.banks[bi].key, |b| b.config.fixed_price = I80F48::ZERO.into());
        }
        Cond::ImpostorAtAnotherAddress => {
            if kind == Kind::Fixed {
                return None;
            }
            // same bytes, same owner, another address: the configured account is simply not presented
            let mut a = (*s.get(&ok).unwrap()).clone();
            a.digest = Default::default();
            let k = key(&format!("c09:impostor:{}", bi));
            s.set(k, a);
            replace = Some((ok, k));
            let mut r = s.clone();
            r.accts.remove(&ok);
            reference = Some(r);
        }
        Cond::LegacyFeedIdImpostor => {
            if kind != Kind::Pyth {
                return None;
            }
            world::edit_bank(s, &w.banks[bi].key, |b| b.config.config_flags = 0);
            let mut a = (*s.get(&ok).unwrap()).clone();
            a.digest = Default::default();
            let vl = if a.data[40] == 1 { 1 } else { 2 };
            a.data[8 + 32 + vl..8 + 32 + vl + 32].copy_from_slice(&ok.to_bytes());
            let k = key(&format!("c09:legacy_impostor:{}", bi));
            s.set(k, a);
            replace = Some((ok, k));
            let mut r = s.clone();
            r.accts.remove(&ok);
            reference = Some(r);
        }
        Cond::StakedMintImpostor | Cond::StakedPoolImpostor => {
            if kind != Kind::Staked {
                return None;
            }
            let slot = if *c == Cond::StakedMintImpostor { 1 } else { 2 };
            let orig = bank.config.oracle_keys[slot];
            let mut a: Acct = (*s.get(&orig).unwrap()).clone();
            a.digest = Default::default();
            if slot == 1 {
                // a mint with a hundredth of the supply: the exchange rate looks 100x
                let sup = u64::from_le_bytes(a.data[36..44].try_into().unwrap());
                a.data[36..44].copy_from_slice(&(sup / 100).to_le_bytes());
            } else {
                let off = 4 + 120 + 32;
                let st = u64::from_le_bytes(a.data[off..off + 8].try_into().unwrap());
                a.data[off..off + 8].copy_from_slice(&st.saturating_mul(100).to_le_bytes());
            }
            let k = key(&format!("c09:staked_impostor:{slot}"));
            s.set(k, a);
            replace = Some((orig, k));
            let mut r = s.clone();
            r.accts.remove(&orig);
            reference = Some(r);
        }
        Cond::StakedZeroSupply => {
            if kind != Kind::Staked {
                return None;
            }
            let mk = bank.config.oracle_keys[1];
            let mut a: Acct = (*s.get(&mk).unwrap()).clone();
            a.digest = Default::default();
            a.data[36..44].copy_from_slice(&0u64.to_le_bytes());
            s.set(mk, a);
        }
    }
    let r = reference.unwrap_or_else(|| s.clone());
    Some((replace, r))
}

fn with_replace(mut i: crate::svm::Ix, rep: Option<(Pubkey, Pubkey)>) -> crate::svm::Ix {
    if let Some((from, to)) = rep {
        for m in i.accounts.iter_mut() {
            if m.pubkey == from {
                *m = AccountMeta { pubkey: to, is_signer: m.is_signer, is_writable: m.is_writable };
            }
        }
    }
    i
}

fn decision_matrix(_tier: Tier, t: &mut Tally) {
    let kinds = [(Kind::Pyth, Kind::Pyth, 120u16), (Kind::Swb, Kind::Swb, 120), (Kind::Fixed, Kind::Pyth, 120), (Kind::Pyth, Kind::Fixed, 120), (Kind::Staked, Kind::Pyth, 120), (Kind::Pyth, Kind::Pyth, 30), (Kind::Swb, Kind::Swb, 30), (Kind::Staked, Kind::Pyth, 30)];
    let conds = [Cond::Fresh, Cond::AgeAtLimit, Cond::AgeOverLimit, Cond::WrongOwner, Cond::BadDiscriminator, Cond::PartialVerification, Cond::ConfJustUnderMax, Cond::ConfJustOverMax, Cond::ZeroPrice, Cond::ZeroPriceWithConf, Cond::NegativePrice, Cond::ZeroEma, Cond::ImpostorAtAnotherAddress, Cond::LegacyFeedIdImpostor, Cond::StakedMintImpostor, Cond::StakedPoolImpostor, Cond::StakedZeroSupply, Cond::FixedZero];
    for (ki, (ak, lk, max_age)) in kinds.iter().enumerate() {
        let sc = scene_with_max_age(*ak, *lk, &format!("d{ki}"), *max_age);
        let w = &sc.w;
        let healthy = portfolio_healthy(&sc);
        let acct = w.users[0].account;
        // the three portfolios: healthy; liquidatable (debt price x9.2 -> $920 x 1.1 > $1000 x 0.9); bankrupt (collateral gone)
        let make_liquidatable = |s: &mut Store| match lk {
            Kind::Pyth => set_pyth(s, &w.banks[1].oracle.unwrap(), 25 * 920_000_000, 0, 25 * 920_000_000, 0, -8, 0, true),
            Kind::Swb => {
                let now = s.now;
                s.set(w.banks[1].oracle.unwrap(), swb_account(230 * 1_000_000_000_000_000_000, 0, now))
            }
            Kind::Fixed => world::edit_bank(s, &w.banks[1].key, |b| b.config.fixed_price = I80F48::from_num(230).into()),
            Kind::Staked => unreachable!(),
        };
        for bi in [0usize, 1] {
            for c in &conds {
                for portfolio in ["healthy", "liquidatable", "bankrupt"] {
                    let mut s = healthy.clone();
                    if portfolio == "liquidatable" {
                        make_liquidatable(&mut s);
                    }
                    if portfolio == "bankrupt" {
                        // the collateral position shrinks to five cents' worth
                        let dust: i128 = if w.banks[0].decimals == 9 { 12_500_000 } else { 12_500 };
                        let a = world::account(&s, &acct);
                        let bal = a.lending_account.balances.iter().find(|b| b.active != 0 && b.bank_pk == w.banks[0].key).cloned().unwrap();
                        let cut = I80F48::from(bal.asset_shares) - I80F48::from_bits(dust << 48);
                        world::edit_bank(&mut s, &w.banks[0].key, |b| b.total_asset_shares = (I80F48::from(b.total_asset_shares) - cut).into());
                        world::edit_account(&mut s, &acct, |a| {
                            for b in a.lending_account.balances.iter_mut() {
                                if b.active != 0 && b.bank_pk == w.banks[0].key {
                                    b.asset_shares = I80F48::from_bits(dust << 48).into();
                                }
                            }
                        });
                    }
                    if portfolio == "liquidatable" && bi == 1 && matches!(c, Cond::AgeAtLimit | Cond::AgeOverLimit | Cond::ConfJustUnderMax | Cond::ConfJustOverMax | Cond::ZeroEma | Cond::PartialVerification) {
                        // these conditions rewrite the debt oracle at its base price: not liquidatable any more; skip
                        continue;
                    }
                    let Some((replace, rs)) = apply_cond(&sc, &mut s, bi, c) else { continue };
                    let tag = format!("{:?}/{:?}:{}:{:?}", ak, lk, if bi == 0 { "collateral" } else { "debt" }, c);
                    let rep = json!({"model": "C09B", "kinds": [format!("{:?}", ak), format!("{:?}", lk)], "bank": bi, "cond": format!("{:?}", c), "portfolio": portfolio});
                    // pulse
                    let p = pulse(w, &s, &acct, replace);
                    t.cells += 1;
                    judge_pulse(&format!("{tag}:{portfolio}"), w, &rs, &acct, &p, &rep, t);
                    // the real decisions
                    let ops: Vec<(&str, Tx)> = {
                        let mut v = vec![];
                        let auth = w.users[0].authority;
                        if portfolio == "healthy" {
                            let b = act::user_ix(w, &s, &Action::Borrow { u: 0, b: 1, amt: 1000 }, auth).unwrap();
                            v.push(("borrow", Tx::one(with_replace(b, replace), &[auth])));
                            let wd = act::user_ix(w, &s, &Action::Withdraw { u: 0, b: 0, amt: 1000, all: false }, auth).unwrap();
                            v.push(("withdraw", Tx::one(with_replace(wd, replace), &[auth])));
                        }
                        if portfolio == "liquidatable" {
                            let la = w.users[1].authority;
                            let lq = act::user_ix(w, &s, &Action::Liquidate { liquidator: 1, liquidatee: 0, asset: 0, liab: 1, amt: 1000 }, la).unwrap();
                            v.push(("liquidate", Tx::one(with_replace(lq, replace), &[la])));
                        }
                        if portfolio == "liquidatable" || (bi == 0 && matches!(c, Cond::ZeroPrice | Cond::ZeroPriceWithConf | Cond::NegativePrice | Cond::FixedZero) && portfolio == "healthy") {
                            // a third party's receivership bracket: repay a little, seize a little
                            let la = w.users[1].authority;
                            let rem = w.risk_metas(&s, &acct, None, None);
                            let mut ixs = vec![];
                            if s.get(&ix::liq_record_key(&acct)).is_none() {
                                ixs.push(ix::init_liq_record(acct, la));
                            }
                            ixs.push(ix::start_liquidation(acct, la, rem.clone()));
                            // repay 0.1 debt tokens, seize a quarter collateral token (about a dollar)
                            ixs.push(ix::repay(w.group, acct, la, w.banks[1].key, w.users[1].tokens[&w.banks[1].mint], w.banks[1].token_program, 100_000_000, None, vec![]));
                            ixs.push(ix::withdraw(w.group, acct, la, w.banks[0].key, w.users[1].tokens[&w.banks[0].mint], w.banks[0].token_program, 10u64.pow(w.banks[0].decimals as u32) / 4, None, rem.clone()));
                            ixs.push(ix::end_liquidation(acct, la, w.fee_wallet, rem));
                            let ixs: Vec<_> = ixs.into_iter().map(|i| with_replace(i, replace)).collect();
                            v.push(("receivership_seize", Tx::new(ixs, &[la])));
                        }
                        if portfolio == "bankrupt" {
                            let ra = w.roles.risk;
                            let bk = act::user_ix(w, &s, &Action::Bankruptcy { signer: act::Signer::RiskAdmin, u: 0, b: 1 }, ra).unwrap();
                            v.push(("bankruptcy", Tx::one(with_replace(bk, replace), &[ra])));
                        }
                        v
                    };
                    for (op, tx) in ops {
                        let mut post = s.clone();
                        let r = process_tx(&mut post, &tx);
                        t.cells += 1;
                        // reference view of the post state (same oracle presentation)
                        let mut rpost = post.clone();
                        if let Some((from, _)) = replace {
                            rpost.accts.remove(&from);
                        }
                        let (req, store_for_ref): (Req, &Store) = match op {
                            "borrow" | "withdraw" => (Req::Initial, &rpost),
                            "liquidate" | "receivership_seize" => (Req::Maintenance, &rs),
                            _ => (Req::Equity, &rs),
                        };
                        let h = health::health(store_for_ref, &acct, req).unwrap();
                        let usable = h.engine_err.is_none();
                        t.class(format!("{op}:{}:{}", if usable { "reference_usable" } else { "reference_unusable" }, if r.ok() { "accepted" } else { "refused" }));
                        if !r.ok() {
                            continue;
                        }
                        if !usable {
                            t.found.push(Found { clause: format!("C09.unusable_oracle_blocks_{op}"), sig: tag.clone(), detail: format!("{tag}: {op} succeeded although the presented oracle data is unusable for it: {:?}", h.engine_err), replay: rep.clone() });
                            continue;
                        }
                        if (op == "borrow" || op == "withdraw") && h.health() < -h.allow.clone() {
                            t.found.push(Found { clause: "C09.unusable_collateral_counts_zero".into(), sig: tag.clone(), detail: format!("{tag}: {op} accepted with reference initial health {:.9} (collateral with an unusable oracle counts as zero)", rf::qf64(&h.health())), replay: rep.clone() });
                        }
                        if op == "receivership_seize" {
                            // collateral is never seized at a zero or negative price
                            let bank = world::bank(&rs, &w.banks[0].key);
                            match health::oracle_ref(&rs, &bank).and_then(|o| o.biased(Req::Maintenance, false)) {
                                Ok(p) if p.is_positive() => {}
                                other => t.found.push(Found { clause: "C09.no_zero_price_seizure".into(), sig: tag.clone(), detail: format!("{tag}: a receivership bracket seized collateral of {} although its usable price is {:?}", w.banks[0].label, other.map(|p| rf::qf64(&p))), replay: rep.clone() }),
                            }
                        }
                        if op == "liquidate" {
                            // no zero / negative price sizes a liquidation
                            for bix in [0usize, 1] {
                                let bank = world::bank(&rs, &w.banks[bix].key);
                                if let Ok(o) = health::oracle_ref(&rs, &bank) {
                                    if !o.spot.is_positive() {
                                        t.found.push(Found { clause: "C09.no_zero_price_liquidation".into(), sig: tag.clone(), detail: format!("{tag}: liquidation succeeded with a reported price of {:.9} for bank {}", rf::qf64(&o.spot), w.banks[bix].label), replay: rep.clone() });
                                    }
                                }
                            }
                            if h.health() > h.allow.clone() {
                                t.found.push(Found { clause: "C09.liquidation_backed_by_reference".into(), sig: tag.clone(), detail: format!("{tag}: liquidation succeeded with reference maintenance health {:.9}", rf::qf64(&h.health())), replay: rep.clone() });
                            }
                        }
                        if op == "bankruptcy" && !(h.assets < h.liabs.clone() + h.allow.clone()) {
                            t.found.push(Found { clause: "C09.bankruptcy_backed_by_reference".into(), sig: tag.clone(), detail: format!("{tag}: bankruptcy succeeded with reference equity assets {:.6} >= liabilities {:.6}", rf::qf64(&h.assets), rf::qf64(&h.liabs)), replay: rep.clone() });
                        }
                    }
                }
            }
        }
    }
}

pub fn run(tier: Tier) -> Outcome {
    let mut t = Tally { cells: 0, classes: BTreeMap::new(), found: vec![], samples: vec![] };
    // the figures of the statement
    {
        use marginfi_type_crate::constants::{CONF_INTERVAL_MULTIPLE, MAX_CONF_INTERVAL, STD_DEV_MULTIPLE};
        for (n, v, want) in [("pyth 95% multiple", CONF_INTERVAL_MULTIPLE, 2.12), ("switchboard 95% multiple", STD_DEV_MULTIPLE, 1.96), ("confidence cap", MAX_CONF_INTERVAL, 0.05)] {
            if (v.to_num::<f64>() - want).abs() > 1e-9 {
                t.found.push(Found { clause: "C09.statement_figures".into(), sig: n.to_string(), detail: format!("{n} is {} instead of {want}", v.to_num::<f64>()), replay: json!({"model": "C09const"}) });
            }
        }
    }
    value_sweep(tier, &mut t);
    venue_sweep(&mut t);
    venue_sweep_switchboard(&mut t);
    let a_cells = t.cells;
    decision_matrix(tier, &mut t);
    let mut o = Outcome { level: "exploration".into(), ..Default::default() };
    // dedupe by (clause, sig)
    let mut uniq: BTreeMap<(String, String), Found> = BTreeMap::new();
    for f in t.found {
        uniq.entry((f.clause.clone(), f.sig.clone())).or_insert(f);
    }
    o.found = uniq.into_values().collect();
    let valued: u64 = t.classes.iter().filter(|(k, _)| k.ends_with("both_valued")).map(|(_, v)| *v).sum();
    let failed: u64 = t.classes.iter().filter(|(k, _)| k.contains("reference_unusable")).map(|(_, v)| *v).sum();
    if valued == 0 || failed == 0 {
        o.machinery.push(format!("vacuity guard: valued {valued}, unusable {failed}"));
    }
    for op in ["borrow", "withdraw", "liquidate", "bankruptcy", "receivership_seize"] {
        let acc: u64 = t.classes.iter().filter(|(k, _)| k.starts_with(op) && k.ends_with("accepted")).map(|(_, v)| *v).sum();
        let refu: u64 = t.classes.iter().filter(|(k, _)| k.starts_with(op) && k.ends_with("refused")).map(|(_, v)| *v).sum();
        if acc == 0 || refu == 0 {
            o.machinery.push(format!("vacuity guard: {op} accepted {acc} refused {refu}"));
        }
    }
    if t.samples.is_empty() {
        t.samples.push(json!({"note": "see outcome classes"}));
    }
    o.coverage = json!({
        "evaluations": t.cells,
        "distinct_nontrivial": valued + failed,
        "value_sweep_cells": a_cells,
        "decision_cells": t.cells - a_cells,
        "rule": "(A) complete product {asset side, debt side} x max-confidence {default, 2 %, 5 %, 100 %} x Pyth {prices 1 .. 9e15} x {exponents -12 .. 0 (quick) / -18 .. 1} x confidence {0, 1e-5, 1 %, around 5 %/2.12, around 10 %/2.12, 9 %, 100 %} x EMA {x1, x0.5, x2}, and Switchboard {values 1e-18 .. 1e6} x std-dev {0 .. 100 %, around 5 %/1.96 and 10 %/1.96}: pulse_health's initial / maintenance / equity asset and liability values and its three verdicts against the exact reference and the one-sided rules (collateral <= reported, debt >= reported, band <= 5 %); (B) {Pyth/Pyth, Switchboard/Switchboard, fixed/Pyth, Pyth/fixed, staked/Pyth} x {collateral, debt} oracle x 17 conditions x {healthy, liquidatable, bankrupt} portfolio: pulse plus the real borrow, withdraw, liquidate and bankruptcy instructions and a third party's receivership bracket that seizes collateral; an acceptance needs a usable reference valuation of the required kind",
        "exhaustive": true,
        "outcome_classes": t.classes,
        "samples": t.samples,
    });
    o.assumptions = vec!["environment model E1 (svm-lite)".into(), "oracle accounts, the staked bank and the bankrupt portfolio are forged account states".into(), "refusing is always allowed by this property (it is a safety property); the converse (no needless refusals) is C04's".into(), "venue-backed banks: reference restricted to reserves / markets whose exchange rate is a ratio of two stored integers; the Switchboard flavours of the venue setups are covered by C20's adapter sweep only".into()];
    o
}

pub fn replay(v: &serde_json::Value) -> Vec<crate::mc::Violation> {
    let o = run(Tier::Quick);
    let want = v["cond"].as_str().map(|s| s.to_string());
    o.found.into_iter().filter(|f| want.as_ref().map(|w| f.sig.contains(w.as_str())).unwrap_or(true)).map(|f| crate::mc::Violation { clause: f.clause, detail: f.detail }).collect()
}
