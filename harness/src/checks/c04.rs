//! C04 — risk gate. Complete configuration product; per configuration the borrow / withdraw amount
//! is bisected through the real instruction to the accept/reject boundary, a window and a grid are
//! executed, and every verdict is judged two-sidedly by the exact reference health (health.rs).

use super::histcommon::{spec_b6, spec_b9};
use super::Tier;
use crate::act::{self, Action};
use crate::evidence::{Found, Outcome};
use crate::health::{self, Req};
use crate::ix;
use crate::refmodel::{self as rf, Q};
use crate::svm::{process_tx, Store, Tx};
use crate::world::{self, *};
use fixed::types::I80F48;
use marginfi_type_crate::types::{BankConfigOpt, BankOperationalState, EmodeEntry, RiskTier, MAX_EMODE_ENTRIES};
use num_traits::Signed;
use rayon::prelude::*;
use serde_json::json;
use std::collections::BTreeMap;
use std::sync::Mutex;

pub const ERR_RISK_ENGINE_INIT_REJECTED: u64 = 6009;

#[derive(Clone, Copy, Debug, PartialEq, Eq, serde::Serialize, serde::Deserialize)]
pub enum CollState {
    Normal,
    ReduceOnly,
    Isolated,
    Stale,
    /// the collateral bank allows prices no older than 30 s (below the program's own 60 s default for Pyth) and the
    /// price is 45 s old
    StaleShortMaxAge,
    InitLimit,
    /// collateral-value cap active on a bank whose asset share value is 1.25
    InitLimitShareValue,
    /// staked collateral (forged StakedWithPythPush bank, pool exchange rate 1.08), SOL-tagged debt banks
    Staked,
    /// collateral held through a venue: the bank is re-tagged after the deposit and priced by the underlying's
    /// Pyth feed times the venue's exchange rate 1.1 (Kamino / Solend reserve, Drift spot market)
    VenueKamino,
    VenueSolend,
    VenueDrift,
}

#[derive(Clone, Copy, Debug, PartialEq, Eq, serde::Serialize, serde::Deserialize)]
pub enum Emode {
    Off,
    Raises,
    BelowBank,
    /// two borrowed banks whose tables disagree: the least favourable entry applies
    TwoLiabsMin,
    /// two borrowed banks, only one lists the collateral's tag: no benefit
    TwoLiabsDisjoint,
    /// two borrowed banks, the second has no e-mode table at all and sorts before the first
    TwoLiabsPlainKeyAbove,
    /// ... and sorts after the first
    TwoLiabsPlainKeyBelow,
    /// like TwoLiabsMin, with the second debt bank's address chosen above / below the first's (the order in which
    /// the two tables are merged)
    TwoLiabsMinKeyAbove,
    TwoLiabsMinKeyBelow,
    /// two borrowed banks; the e-mode admin asks for the first one's table to list the collateral's tag twice,
    /// with another entry in between (if the program refuses, the table without the repetition is installed);
    /// the second has no table: no benefit
    TwoLiabsDupTag,
}

#[derive(Clone, Debug, serde::Serialize, serde::Deserialize)]
pub struct Cfg {
    pub w_init: f64,
    pub price_e8: i64,
    /// ema = spot * num / den
    pub ema: (i64, i64),
    /// confidence as a fraction of price, in 1/100000
    pub conf_pp: u64,
    pub state: CollState,
    pub second: bool,
    pub liab_w: f64,
    pub liab_conf_pp: u64,
    pub emode: Emode,
    pub withdraw: bool,
    pub many: bool,
    /// twin configuration without the main collateral position (differential reference)
    #[serde(default)]
    pub no_main: bool,
}

fn bank_spec(label: &str, mint: MintSpec, price_e8: i64, ema: (i64, i64), conf_pp: u64, cfg: BankCfg) -> BankSpec {
    let conf = (price_e8 as u128 * conf_pp as u128 / 100_000) as u64;
    let ema_p = price_e8 * ema.0 / ema.1;
    let ema_c = (ema_p as u128 * conf_pp as u128 / 100_000) as u64;
    BankSpec { label: label.into(), mint, oracle: OracleSpec::Pyth { price: price_e8, conf, ema_price: ema_p, ema_conf: ema_c, expo: -8 }, config: cfg }
}

fn entry(tag: u16, i: f64, m: f64) -> EmodeEntry {
    EmodeEntry { collateral_bank_emode_tag: tag, flags: 0, pad0: [0; 5], asset_weight_init: I80F48::from_num(i).into(), asset_weight_maint: I80F48::from_num(m).into() }
}

fn entries(v: &[EmodeEntry]) -> [EmodeEntry; MAX_EMODE_ENTRIES] {
    let mut a = [entry(0, 0.0, 0.0); MAX_EMODE_ENTRIES];
    for (i, e) in v.iter().enumerate() {
        a[i] = *e;
    }
    a
}

pub struct Built {
    pub w: World,
    pub s: Store,
    /// index of the bank whose amount is searched, and the action template
    pub target: usize,
}

/// Build the world and portfolio of one configuration through real instructions.
pub fn build(c: &Cfg, tag: &str) -> Option<Built> {
    let mut ccfg = BankCfg::default();
    ccfg.asset_weight_init = I80F48::from_num(c.w_init);
    ccfg.asset_weight_maint = I80F48::from_num(1.0);
    if c.state == CollState::StaleShortMaxAge {
        ccfg.oracle_max_age = 30;
    }
    if c.state == CollState::Isolated {
        ccfg.asset_weight_init = I80F48::ZERO;
        ccfg.asset_weight_maint = I80F48::ZERO;
        ccfg.risk_tier = RiskTier::Isolated;
    }
    let mut lcfg = BankCfg::default();
    lcfg.liability_weight_init = I80F48::from_num(c.liab_w);
    lcfg.liability_weight_maint = I80F48::from_num(1.0);
    let mut c2cfg = BankCfg::default();
    c2cfg.asset_weight_init = I80F48::from_num(0.25);
    c2cfg.asset_weight_maint = I80F48::from_num(0.5);
    if c.state == CollState::Staked {
        lcfg.asset_tag = marginfi_type_crate::constants::ASSET_TAG_SOL;
    }
    // the second debt bank's address relative to the first decides the order in which the risk
    // engine meets them: pick a label whose derived key sorts as the configuration asks
    let l_key = world::key(&format!("C04{tag}:bank:L"));
    let l2_label = match c.emode {
        Emode::TwoLiabsPlainKeyAbove | Emode::TwoLiabsPlainKeyBelow | Emode::TwoLiabsMinKeyAbove | Emode::TwoLiabsMinKeyBelow => {
            let want_above = matches!(c.emode, Emode::TwoLiabsPlainKeyAbove | Emode::TwoLiabsMinKeyAbove);
            (0..100_000).map(|i| format!("L2v{i}")).find(|l| (world::key(&format!("C04{tag}:bank:{l}")) > l_key) == want_above).unwrap_or_else(|| panic!("no label for tag {tag} above={want_above} l_key={l_key}"))
        }
        _ => "L2".to_string(),
    };
    let coll_mint = if c.state == CollState::Staked { MintSpec::spl("c04c", 9) } else { MintSpec::spl("c04c", 6) };
    let mut banks = vec![
        bank_spec("C", coll_mint, c.price_e8, c.ema, c.conf_pp, ccfg),
        bank_spec("L", MintSpec::spl("c04l", 9), 2_500_000_000, (1, 1), c.liab_conf_pp, lcfg.clone()),
        bank_spec("C2", MintSpec::spl("c04c2", 8), 300_000_000, (1, 1), 0, c2cfg),
        bank_spec(&l2_label, MintSpec::spl("c04l2", 6), 100_000_000, (1, 1), 0, lcfg),
    ];
    if c.many {
        for i in 0..12 {
            let mut x = BankCfg::default();
            x.asset_weight_init = I80F48::from_num(0.1 + 0.05 * i as f64);
            x.asset_weight_maint = I80F48::from_num(0.9);
            banks.push(bank_spec(&format!("X{i}"), MintSpec::spl(&format!("c04x{i}"), (i % 10) as u8), 100_000_000 + 7_000_000 * i as i64, (1, 1), 100 * i as u64, x));
        }
    }
    let (w, mut s) = build_world(&WorldSpec::new(&format!("C04{tag}"), banks, &["u0", "seeder"]));
    let g = w.group;
    if c.state == CollState::Staked {
        // pool exchange rate 1.08: delegated stake = 1.08 x LST supply + the permanent 1 SOL
        let supply = u64::from_le_bytes(s.get(&w.banks[0].mint).unwrap().data[36..44].try_into().unwrap());
        world::make_staked_bank(&mut s, &w, 0, (supply as u128 * 108 / 100) as u64 + 1_000_000_000);
    }
    let tx = |s: &mut Store, i: crate::svm::Ix, signer: solana_program::pubkey::Pubkey| process_tx(s, &Tx::one(i, &[signer])).ok();
    // liquidity
    for b in 0..w.banks.len() {
        if c.state == CollState::Staked && b == 2 {
            // a default-tagged bank cannot share an account with staked collateral
            continue;
        }
        let amt = 1_000_000u64 * 10u64.pow(w.banks[b].decimals as u32);
        if !act::apply(&w, &mut s, &Action::Deposit { u: 1, b, amt, up_to_limit: None }).committed {
            if std::env::var("VERIF_C04_DEBUG").is_ok() { eprintln!("c04 build failed at line 153: {:?}", c); }
            return None;
        }
    }
    // e-mode
    let (ci, li, c2i, l2i) = (0usize, 1usize, 2usize, 3usize);
    if c.emode != Emode::Off {
        if !tx(&mut s, ix::configure_bank_emode(g, w.roles.emode, w.banks[ci].key, 7, entries(&[])), w.roles.emode) {
            if std::env::var("VERIF_C04_DEBUG").is_ok() { eprintln!("c04 build failed at line 160: {:?}", c); }
            return None;
        }
        let e_main = match c.emode {
            Emode::Raises | Emode::TwoLiabsMin | Emode::TwoLiabsMinKeyAbove | Emode::TwoLiabsMinKeyBelow | Emode::TwoLiabsDisjoint | Emode::TwoLiabsPlainKeyAbove | Emode::TwoLiabsPlainKeyBelow | Emode::TwoLiabsDupTag => entry(7, 0.9, 0.94),
            Emode::BelowBank => entry(7, 0.1, 0.2),
            Emode::Off => unreachable!(),
        };
        let dup_installed = c.emode == Emode::TwoLiabsDupTag && tx(&mut s, ix::configure_bank_emode(g, w.roles.emode, w.banks[li].key, 0, entries(&[e_main, entry(9, 0.5, 0.6), e_main])), w.roles.emode);
        let rest: Vec<EmodeEntry> = if c.emode == Emode::TwoLiabsDupTag { vec![e_main, entry(9, 0.5, 0.6)] } else { vec![e_main] };
        if !dup_installed && !tx(&mut s, ix::configure_bank_emode(g, w.roles.emode, w.banks[li].key, 0, entries(&rest)), w.roles.emode) {
            if std::env::var("VERIF_C04_DEBUG").is_ok() { eprintln!("c04 build failed at line 168: {:?}", c); }
            return None;
        }
        match c.emode {
            Emode::TwoLiabsMin | Emode::TwoLiabsMinKeyAbove | Emode::TwoLiabsMinKeyBelow => {
                if !tx(&mut s, ix::configure_bank_emode(g, w.roles.emode, w.banks[l2i].key, 0, entries(&[entry(7, 0.7, 0.94)])), w.roles.emode) {
                    if std::env::var("VERIF_C04_DEBUG").is_ok() { eprintln!("c04 build failed at line 173: {:?}", c); }
                    return None;
                }
            }
            Emode::TwoLiabsDisjoint => {
                if !tx(&mut s, ix::configure_bank_emode(g, w.roles.emode, w.banks[l2i].key, 0, entries(&[entry(9, 0.9, 0.94)])), w.roles.emode) {
                    if std::env::var("VERIF_C04_DEBUG").is_ok() { eprintln!("c04 build failed at line 178: {:?}", c); }
                    return None;
                }
            }
            _ => {}
        }
    }
    // portfolio: $1000 of C (+ $300 of C2)
    let one_c = 10u64.pow(w.banks[ci].decimals as u32) as u128;
    let coll_amt = (1000u128 * one_c * 100_000_000 / c.price_e8 as u128) as u64 + 7;
    if !c.no_main && !act::apply(&w, &mut s, &Action::Deposit { u: 0, b: ci, amt: coll_amt, up_to_limit: None }).committed {
        if std::env::var("VERIF_C04_DEBUG").is_ok() { eprintln!("c04 build failed at line 188: {:?}", c); }
        return None;
    }
    if c.second {
        if !act::apply(&w, &mut s, &Action::Deposit { u: 0, b: c2i, amt: 100 * 10u64.pow(8) + 3, up_to_limit: None }).committed {
            if std::env::var("VERIF_C04_DEBUG").is_ok() { eprintln!("c04 build failed at line 192: {:?}", c); }
            return None;
        }
    }
    if c.many {
        for b in 4..w.banks.len() {
            let amt = 20 * 10u64.pow(w.banks[b].decimals as u32) + b as u64;
            if !act::apply(&w, &mut s, &Action::Deposit { u: 0, b, amt, up_to_limit: None }).committed {
                if std::env::var("VERIF_C04_DEBUG").is_ok() { eprintln!("c04 build failed at line 199: {:?}", c); }
                return None;
            }
        }
    }
    if matches!(c.emode, Emode::TwoLiabsMin | Emode::TwoLiabsMinKeyAbove | Emode::TwoLiabsMinKeyBelow | Emode::TwoLiabsDisjoint | Emode::TwoLiabsPlainKeyAbove | Emode::TwoLiabsPlainKeyBelow | Emode::TwoLiabsDupTag) {
        // a small second debt so that two borrowed banks take part in the e-mode reconciliation
        if !act::apply(&w, &mut s, &Action::Borrow { u: 0, b: l2i, amt: 1_000_000 }).committed {
            if std::env::var("VERIF_C04_DEBUG").is_ok() { eprintln!("c04 build failed at line 206: {:?}", c); }
            return None;
        }
    }
    if c.withdraw {
        // existing debt worth roughly a third of the weighted collateral
        let debt_usd = 1000.0 * c.w_init.max(0.05) / 3.0 / c.liab_w;
        let amt = (debt_usd / 25.0 * 1e9) as u64 + 11;
        if !act::apply(&w, &mut s, &Action::Borrow { u: 0, b: li, amt }).committed {
            // isolated / nothing to borrow against: the withdraw variant needs some debt; use a tiny one
            let _ = act::apply(&w, &mut s, &Action::Borrow { u: 0, b: li, amt: 1000 });
        }
    }
    // state tweaks after the portfolio exists
    match if c.no_main { CollState::Normal } else { c.state } {
        CollState::ReduceOnly => {
            let opt = BankConfigOpt { operational_state: Some(BankOperationalState::ReduceOnly), ..Default::default() };
            if !tx(&mut s, ix::configure_bank(g, w.roles.admin, w.banks[ci].key, opt), w.roles.admin) {
                if std::env::var("VERIF_C04_DEBUG").is_ok() { eprintln!("c04 build failed at line 223: {:?}", c); }
                return None;
            }
        }
        CollState::Stale => {
            let o = w.banks[ci].oracle.unwrap();
            let a = s.get_mut(&o).unwrap();
            let off = 8 + 32 + 1 + 32 + 8 + 8 + 4;
            let t = 1_700_000_000i64 - 100_000;
            a.data[off..off + 8].copy_from_slice(&t.to_le_bytes());
        }
        CollState::StaleShortMaxAge => {
            let o = w.banks[ci].oracle.unwrap();
            let now = s.now;
            let a = s.get_mut(&o).unwrap();
            let off = 8 + 32 + 1 + 32 + 8 + 8 + 4;
            a.data[off..off + 8].copy_from_slice(&(now - 45).to_le_bytes());
        }
        CollState::InitLimitShareValue => {
            world::edit_bank(&mut s, &w.banks[ci].key, |b| b.asset_share_value = (I80F48::from(b.asset_share_value) * I80F48::from_num(1.25)).into());
            // $1,251,250 of deposits by value; a cap between the share count's and the amount's worth
            if !tx(&mut s, ix::configure_bank_limits_only(g, w.roles.limit, w.banks[ci].key, None, None, Some(1_100_000)), w.roles.limit) {
                if std::env::var("VERIF_C04_DEBUG").is_ok() { eprintln!("c04 build failed at line 237: {:?}", c); }
                return None;
            }
        }
        CollState::VenueKamino | CollState::VenueSolend | CollState::VenueDrift => {
            let venue_k = world::key(&format!("C04{tag}:venue_account"));
            let (setup, vtag, acct_data) = match c.state {
                CollState::VenueKamino => {
                    let mut r: kamino_mocks::state::MinimalReserve = bytemuck::Zeroable::zeroed();
                    r.available_amount = 1_100_000_000_007;
                    r.mint_total_supply = 1_000_000_000_000;
                    r.mint_decimals = 6;
                    r.slot = s.slot;
                    let mut d = kamino_mocks::state::RESERVE_DISCRIMINATOR.to_vec();
                    d.extend_from_slice(bytemuck::bytes_of(&r));
                    (marginfi_type_crate::types::OracleSetup::KaminoPythPush, marginfi_type_crate::constants::ASSET_TAG_KAMINO, crate::svm::Acct::new(1, d, kamino_mocks::ID))
                }
                CollState::VenueSolend => {
                    let mut r: solend_mocks::state::SolendMinimalReserve = bytemuck::Zeroable::zeroed();
                    r.liquidity_available_amount = 1_100_000_000_007;
                    r.collateral_mint_total_supply = 1_000_000_000_000;
                    r.liquidity_mint_decimals = 6;
                    r.last_update_slot = s.slot;
                    let mut d = solend_mocks::state::RESERVE_DISCRIMINATOR.to_vec();
                    d.extend_from_slice(bytemuck::bytes_of(&r));
                    (marginfi_type_crate::types::OracleSetup::SolendPythPull, marginfi_type_crate::constants::ASSET_TAG_SOLEND, crate::svm::Acct::new(1, d, solend_mocks::ID))
                }
                _ => {
                    let mut m = drift_mocks::state::MinimalSpotMarket::default();
                    m.cumulative_deposit_interest = 11_000_000_007u128.to_le_bytes();
                    m.decimals = 6;
                    m.last_interest_ts = s.now as u64;
                    let mut d = drift_mocks::state::SPOT_MARKET_DISCRIMINATOR.to_vec();
                    d.extend_from_slice(bytemuck::bytes_of(&m));
                    (marginfi_type_crate::types::OracleSetup::DriftPythPull, marginfi_type_crate::constants::ASSET_TAG_DRIFT, crate::svm::Acct::new(1, d, drift_mocks::ID))
                }
            };
            s.set(venue_k, acct_data);
            world::edit_bank(&mut s, &w.banks[ci].key, |b| {
                b.config.oracle_setup = setup;
                b.config.oracle_keys[1] = venue_k;
                b.config.asset_tag = vtag;
            });
            let acct = w.users[0].account;
            world::edit_account(&mut s, &acct, |a| {
                for bal in a.lending_account.balances.iter_mut() {
                    if bal.active != 0 && bal.bank_pk == w.banks[ci].key {
                        bal.bank_asset_tag = vtag;
                    }
                }
            });
        }
        CollState::InitLimit => {
            // the bank holds $1,001,000 of deposits; cap the value counted for initial margin at $400,000
            if !tx(&mut s, ix::configure_bank_limits_only(g, w.roles.limit, w.banks[ci].key, None, None, Some(400_000)), w.roles.limit) {
                if std::env::var("VERIF_C04_DEBUG").is_ok() { eprintln!("c04 build failed at line 243: {:?}", c); }
                return None;
            }
        }
        _ => {}
    }
    Some(Built { w, s, target: if c.withdraw { ci } else { li } })
}

fn action(c: &Cfg, target: usize, amt: u64) -> Action {
    if c.withdraw {
        Action::Withdraw { u: 0, b: target, amt, all: false }
    } else {
        Action::Borrow { u: 0, b: target, amt }
    }
}

struct Judge<'a> {
    c: &'a Cfg,
    b: &'a Built,
    found: Vec<Found>,
    execs: u64,
    max_allow: f64,
}

impl<'a> Judge<'a> {
    /// executes the action at `amt` on a clone; judges an acceptance immediately; returns (accepted, code, post)
    fn exec(&mut self, amt: u64) -> (bool, u64, Option<Store>) {
        let mut t = self.b.s.clone();
        let r = act::apply(&self.b.w, &mut t, &action(self.c, self.b.target, amt));
        self.execs += 1;
        if r.committed {
            let h = health::health(&t, &self.b.w.users[0].account, Req::Initial).unwrap();
            let af = rf::qf64(&h.allow);
            if af > self.max_allow {
                self.max_allow = af;
            }
            let rep = json!({"model": "C04", "cfg": self.c, "amount": amt});
            if h.engine_err.is_some() {
                self.found.push(Found { clause: "C04.accepted_needs_usable_prices".into(), sig: sig(self.c), detail: format!("{:?} amount {} accepted although the reference cannot price the portfolio: {:?}", self.c, amt, h.engine_err), replay: rep.clone() });
            } else if h.health() < -h.allow.clone() {
                self.found.push(Found {
                    clause: "C04.accepted_implies_healthy".into(),
                    sig: sig(self.c),
                    detail: format!("amount {} accepted but reference initial health is {:.9} (assets {:.6}, liabilities {:.6}, allowance {:.2e}) for {:?}", amt, rf::qf64(&h.health()), rf::qf64(&h.assets), rf::qf64(&h.liabs), af, self.c),
                    replay: rep.clone(),
                });
            }
            if h.isolated_violation {
                self.found.push(Found { clause: "C04.isolated_exclusive".into(), sig: sig(self.c), detail: format!("amount {} accepted with an isolated-tier debt next to another debt", amt), replay: rep });
            }
            (true, 0, Some(t))
        } else {
            (false, r.code, None)
        }
    }
}

fn sig(c: &Cfg) -> String {
    format!("{}:{:?}:{:?}", if c.withdraw { "withdraw" } else { "borrow" }, c.state, c.emode)
}

struct CfgResult {
    class: String,
    found: Vec<Found>,
    execs: u64,
    boundary: u64,
    max_allow: f64,
}

fn run_cfg(c: &Cfg, idx: usize) -> CfgResult {
    let Some(b) = build(c, &idx.to_string()) else {
        return CfgResult { class: "unbuildable".into(), found: vec![], execs: 0, boundary: 0, max_allow: 0.0 };
    };
    let mut j = Judge { c, b: &b, found: vec![], execs: 0, max_allow: 0.0 };
    // range of the search
    let hi0: u64 = if c.withdraw {
        let h = world::account(&b.s, &b.w.users[0].account);
        let bank = world::bank(&b.s, &b.w.banks[b.target].key);
        let bal = h.lending_account.balances.iter().find(|x| x.active != 0 && x.bank_pk == b.w.banks[b.target].key).unwrap();
        (I80F48::from(bal.asset_shares) * I80F48::from(bank.asset_share_value)).to_num::<u64>()
    } else {
        world::token_amount(&b.s, &b.w.banks[b.target].lv)
    };
    // largest accepted amount in [0, hi0] assuming monotonicity (checked below)
    let (ok1, code1, _) = j.exec(1);
    let (mut lo, mut hi) = (0u64, hi0);
    let mut post_lo: Option<Store> = None;
    let mut reject_code = code1;
    if ok1 {
        lo = 1;
        let (okh, codeh, ph) = j.exec(hi0);
        if okh {
            lo = hi0;
            post_lo = ph;
        } else {
            reject_code = codeh;
            while hi - lo > 1 {
                let mid = lo + (hi - lo) / 2;
                let (ok, code, p) = j.exec(mid);
                if ok {
                    lo = mid;
                    post_lo = p;
                } else {
                    hi = mid;
                    reject_code = code;
                }
            }
        }
        if post_lo.is_none() {
            post_lo = j.exec(lo).2;
        }
    }
    let boundary = lo;
    // monotonicity: window and grid
    let mut samples: Vec<u64> = vec![];
    for d in 1..=8u64 {
        if boundary >= d {
            samples.push(boundary - d);
        }
        samples.push(boundary.saturating_add(d).min(hi0));
    }
    for k in 1..=32u64 {
        samples.push((hi0 as u128 * k as u128 / 33) as u64);
    }
    samples.retain(|x| *x >= 1);
    samples.sort();
    samples.dedup();
    for x in samples {
        let (ok, code, _) = j.exec(x);
        let rep = json!({"model": "C04", "cfg": c, "amount": x});
        if ok && x > boundary {
            j.found.push(Found { clause: "C04.monotone".into(), sig: sig(c), detail: format!("amount {} accepted above the bisected boundary {}", x, boundary), replay: rep });
        } else if !ok && x <= boundary {
            j.found.push(Found { clause: "C04.monotone".into(), sig: sig(c), detail: format!("amount {} rejected ({}) below the bisected boundary {}", x, crate::svm::err_name(code), boundary), replay: rep });
        }
    }
    // the rejection side: one more unit must make the reference health non-positive
    let mut class = format!("{}:{:?}:{:?}:boundary_{}", if c.withdraw { "withdraw" } else { "borrow" }, c.state, c.emode, if boundary == 0 { "zero" } else if boundary == hi0 { "max" } else { "interior" });
    if boundary < hi0 && reject_code == ERR_RISK_ENGINE_INIT_REJECTED {
        class.push_str(":health_limited");
        let base = post_lo.as_ref().unwrap_or(&b.s);
        let h = health::health(base, &b.w.users[0].account, Req::Initial).unwrap();
        if h.engine_err.is_none() {
            // marginal effect of one more native unit on the reference health
            let bank = world::bank(base, &b.w.banks[b.target].key);
            let dec = rf::pow10(bank.mint_decimals as u32);
            let step: Q = if c.withdraw {
                // removing one unit of collateral: use the position's own weight and price from the reference
                h.positions.iter().find(|p| p.bank == b.w.banks[b.target].key && !p.is_liability).map(|p| p.weight.clone() * p.price.clone() / dec.clone()).unwrap_or_else(rf::qzero)
            } else {
                let o = health::oracle_ref(base, &bank);
                match o.and_then(|o| o.biased(Req::Initial, true)) {
                    Ok(p) => rf::q(bank.config.liability_weight_init) * p / dec.clone() * (rf::qone() + rf::q(bank.config.interest_rate_config.protocol_origination_fee)),
                    Err(_) => rf::qzero(),
                }
            };
            let next_health = h.health() - step.clone();
            // share rounding of the extra unit: at most one more unit's worth
            if next_health > h.allow.clone() + step.clone() * rf::qfrac(1, 1000) + rf::ulp() * rf::qi(64) {
                j.found.push(Found {
                    clause: "C04.rejected_implies_unhealthy".into(),
                    sig: sig(c),
                    detail: format!(
                        "amount {} rejected for insufficient health although the reference health would be {:.9} > 0 (health at {} = {:.9}, one unit costs {:.9}) for {:?}",
                        boundary + 1,
                        rf::qf64(&next_health),
                        boundary,
                        rf::qf64(&h.health()),
                        rf::qf64(&step),
                        c
                    ),
                    replay: json!({"model": "C04", "cfg": c, "amount": boundary + 1}),
                });
            }
        }
    } else if boundary < hi0 {
        class.push_str(&format!(":limited_by_{}", crate::svm::err_name(reject_code)));
    }
    // collateral that cannot count must leave the borrow boundary exactly where it is without it
    if !c.withdraw && !c.no_main && c.second && !c.many && matches!(c.state, CollState::Stale | CollState::StaleShortMaxAge | CollState::ReduceOnly | CollState::Isolated) {
        let mut twin = c.clone();
        twin.no_main = true;
        let t = run_cfg(&twin, idx + 64);
        j.execs += t.execs;
        if t.class != "unbuildable" && t.boundary != boundary {
            j.found.push(Found {
                clause: "C04.unusable_collateral_counts_zero".into(),
                sig: sig(c),
                detail: format!("with a {:?} main collateral the largest accepted borrow is {} but without that position it is {} ({:?})", c.state, boundary, t.boundary, c),
                replay: json!({"model": "C04", "cfg": c, "amount": boundary}),
            });
        }
        class.push_str(":twin_checked");
    }
    CfgResult { class, found: j.found, execs: j.execs, boundary, max_allow: j.max_allow }
}

pub fn configs(tier: Tier) -> Vec<Cfg> {
    let mut v = vec![];
    let w_inits: &[f64] = if tier == Tier::Quick { &[0.5, 1.0] } else { &[0.0, 0.5, 0.8, 1.0] };
    let prices: &[(i64, (i64, i64))] = if tier == Tier::Quick { &[(100_000_000, (1, 1)), (10_000_000_000, (1, 2)), (10_000_000_000, (2, 1))] } else { &[(1_000_000, (1, 1)), (100_000_000, (1, 1)), (10_000_000_000, (1, 2)), (10_000_000_000, (2, 1)), (10_000_000_000, (1, 1))] };
    // 2.12 * conf / price: 0, ~1 %, ~4.9 %, ~5.1 % (capped), ~9.9 %, ~10.1 % (above the default maximum)
    let confs: &[u64] = if tier == Tier::Quick { &[0, 472, 2311, 2406, 4764] } else { &[0, 1, 472, 2311, 2358, 2359, 2406, 4669, 4716, 4717, 4764] };
    let states = [CollState::Normal, CollState::ReduceOnly, CollState::Isolated, CollState::Stale, CollState::InitLimit];
    let emodes: &[Emode] = if tier == Tier::Quick { &[Emode::Off, Emode::Raises, Emode::BelowBank, Emode::TwoLiabsMin, Emode::TwoLiabsDisjoint] } else { &[Emode::Off, Emode::Raises, Emode::BelowBank, Emode::TwoLiabsMin, Emode::TwoLiabsDisjoint] };
    for &w_init in w_inits {
        for &(price_e8, ema) in prices {
            for &conf_pp in confs {
                for &state in &states {
                    for second in [false, true] {
                        for &liab_w in &[1.0, 1.25] {
                            for &liab_conf_pp in &[0u64, 943] {
                                for &emode in emodes {
                                    for withdraw in [false, true] {
                                        v.push(Cfg { w_init, price_e8, ema, conf_pp, state, second, liab_w, liab_conf_pp, emode, withdraw, many: false, no_main: false });
                                    }
                                }
                            }
                        }
                    }
                }
            }
        }
    }
    // further collateral states and e-mode orders on a sub-product
    for &w_init in &[0.5f64, 0.8] {
        for &(price_e8, ema) in &[(100_000_000i64, (1i64, 1i64)), (10_000_000_000, (1, 2)), (10_000_000_000, (11, 10))] {
            for &conf_pp in &[0u64, 472] {
                for withdraw in [false, true] {
                    for &state in &[CollState::InitLimitShareValue, CollState::Staked, CollState::StaleShortMaxAge] {
                        v.push(Cfg { w_init, price_e8, ema, conf_pp, state, second: false, liab_w: 1.25, liab_conf_pp: 0, emode: Emode::Off, withdraw, many: false, no_main: false });
                    }
                    if !withdraw {
                        // (the plain withdraw instruction does not serve venue banks)
                        for &state in &[CollState::VenueKamino, CollState::VenueSolend, CollState::VenueDrift] {
                            for second in [false, true] {
                                v.push(Cfg { w_init, price_e8, ema, conf_pp, state, second, liab_w: 1.25, liab_conf_pp: 0, emode: Emode::Off, withdraw, many: false, no_main: false });
                            }
                        }
                    }
                    for &emode in &[Emode::TwoLiabsPlainKeyAbove, Emode::TwoLiabsPlainKeyBelow, Emode::TwoLiabsDupTag, Emode::TwoLiabsMinKeyAbove, Emode::TwoLiabsMinKeyBelow] {
                        for second in [false, true] {
                            v.push(Cfg { w_init, price_e8, ema, conf_pp, state: CollState::Normal, second, liab_w: 1.25, liab_conf_pp: 0, emode, withdraw, many: false, no_main: false });
                        }
                    }
                }
            }
        }
    }
    // 16-position portfolios
    for &state in &states {
        for withdraw in [false, true] {
            for &emode in &[Emode::Off, Emode::Raises] {
                v.push(Cfg { w_init: 0.8, price_e8: 100_000_000, ema: (1, 1), conf_pp: 472, state, second: true, liab_w: 1.25, liab_conf_pp: 943, emode, withdraw, many: true, no_main: false });
            }
        }
    }
    v
}

/// Venue withdrawals are withdrawals: collateral held in a Drift-backed bank (deposited through the real
/// `drift_deposit`, against the harness's stand-in for the Drift program, venue.rs), debts of several sizes in an
/// ordinary bank, and `drift_withdraw` for amounts bisected to the accept / reject boundary plus a grid and the
/// withdraw-all form; whatever is accepted must leave the reference initial health non-negative.
fn drift_gate(found: &mut Vec<Found>, classes: &mut BTreeMap<String, u64>) -> u64 {
    let mut bd = spec_b6();
    bd.label = "C04DV".into();
    bd.mint = MintSpec::spl("c04dv", 6);
    bd.config.asset_weight_init = I80F48::from_num(0.8);
    bd.config.asset_weight_maint = I80F48::from_num(0.9);
    let (w, mut s) = build_world(&WorldSpec::new("C04D", vec![bd, spec_b9()], &["u0", "seeder"]));
    crate::venue::make_drift_bank(&mut s, &w, 0);
    let auth = w.users[0].authority;
    let mut execs = 0u64;
    let seeded = act::apply(&w, &mut s, &Action::Deposit { u: 1, b: 1, amt: 1_000_000_000_000, up_to_limit: None }).committed;
    let dep = crate::venue::deposit_tx(&w, &s, 0, 0, 1_000_000_000, auth);
    if !seeded || !process_tx(&mut s, &dep).ok() {
        *classes.entry("drift_gate:unbuildable".into()).or_insert(0) += 1;
        return 0;
    }
    let acct = w.users[0].account;
    let one9 = 1_000_000_000u64;
    // with and without a collateral-value cap on the venue bank that its deposits ($1000) stay well below ($100 000):
    // a cap that does not bite must not change a single verdict
    let mut borrow_boundaries: Vec<(Option<u64>, u64)> = vec![];
    for cap in [None, Some(100_000u64)] {
      let mut s = s.clone();
      if let Some(cv) = cap {
        if !process_tx(&mut s, &Tx::one(ix::configure_bank_limits_only(w.group, w.roles.limit, w.banks[0].key, None, None, Some(cv)), &[w.roles.limit])).ok() {
            *classes.entry("drift_gate:cap_unbuildable".into()).or_insert(0) += 1;
            continue;
        }
      }
      // how much can be borrowed against the venue collateral: bisected through the real borrow instruction, every
      // acceptance judged by the reference; the two cap variants must arrive at the same boundary
      {
        let mut try_borrow = |amt: u64| -> bool {
            let mut t = s.clone();
            let r = act::apply(&w, &mut t, &Action::Borrow { u: 0, b: 1, amt });
            execs += 1;
            if r.committed {
                let h = health::health(&t, &acct, Req::Initial).unwrap();
                if h.engine_err.is_none() && h.health() < -h.allow.clone() {
                    found.push(Found { clause: "C04.accepted_implies_healthy".into(), sig: format!("borrow_against_drift:cap{:?}", cap), detail: format!("borrow of {amt} against Drift-held collateral accepted but reference initial health is {:.9}", rf::qf64(&h.health())), replay: json!({"model": "C04drift", "borrow": amt, "cap": cap}) });
                }
            }
            r.committed
        };
        let (mut lo, mut hi) = (0u64, 40 * one9);
        if try_borrow(hi) {
            lo = hi;
        }
        while hi - lo > 1 {
            let mid = lo + (hi - lo) / 2;
            if try_borrow(mid) {
                lo = mid;
            } else {
                hi = mid;
            }
        }
        borrow_boundaries.push((cap, lo));
      }
      for debt in [0u64, one9 / 10, one9, 3 * one9, 5 * one9] {
        let mut s1 = s.clone();
        if debt > 0 && !act::apply(&w, &mut s1, &Action::Borrow { u: 0, b: 1, amt: debt }).committed {
            *classes.entry("drift_gate:borrow_refused".into()).or_insert(0) += 1;
            continue;
        }
        let mut judge = |amt: u64, all: bool| -> bool {
            let mut t = s1.clone();
            let r = process_tx(&mut t, &crate::venue::withdraw_tx(&w, &s1, 0, 0, amt, all, auth));
            execs += 1;
            *classes.entry(format!("drift_gate:{}:{}", if all { "withdraw_all" } else { "withdraw" }, crate::svm::err_name(r.code()))).or_insert(0) += 1;
            if r.ok() {
                let h = health::health(&t, &acct, Req::Initial).unwrap();
                if h.engine_err.is_none() && h.health() < -h.allow.clone() {
                    found.push(Found {
                        clause: "C04.accepted_implies_healthy".into(),
                        sig: format!("drift_withdraw:debt{debt}"),
                        detail: format!("drift_withdraw of {} (all: {all}) with a debt of {debt} accepted but reference initial health is {:.9} (assets {:.6}, liabilities {:.6})", amt, rf::qf64(&h.health()), rf::qf64(&h.assets), rf::qf64(&h.liabs)),
                        replay: json!({"model": "C04drift", "debt": debt, "amount": amt, "all": all}),
                    });
                }
            }
            r.ok()
        };
        // bisection of the boundary between 1 and the whole deposit
        let (mut lo, mut hi) = (0u64, 1_000_000_001u64);
        while hi - lo > 1 {
            let mid = lo + (hi - lo) / 2;
            if judge(mid, false) {
                lo = mid;
            } else {
                hi = mid;
            }
        }
        for d in [-2i64, -1, 0, 1, 2] {
            let x = lo as i64 + d;
            if x > 0 {
                judge(x as u64, false);
            }
        }
        for x in [1u64, 1_000, 250_000_000, 500_000_000, 999_999_999, 1_000_000_000] {
            judge(x, false);
        }
        judge(0, true);
        // the rejection side: where health limits the withdrawal, the health left at the boundary is next to nothing
        // (one more native unit is worth a millionth of a dollar here; a cent is a generous margin)
        if lo >= 1 && lo < 1_000_000_000 {
            let mut t = s1.clone();
            let ok_lo = process_tx(&mut t, &crate::venue::withdraw_tx(&w, &s1, 0, 0, lo, false, auth)).ok();
            let mut t2 = s1.clone();
            let r_next = process_tx(&mut t2, &crate::venue::withdraw_tx(&w, &s1, 0, 0, lo + 1, false, auth));
            if ok_lo && !r_next.ok() && r_next.code() == ERR_RISK_ENGINE_INIT_REJECTED {
                let h = health::health(&t, &acct, Req::Initial).unwrap();
                *classes.entry("drift_gate:boundary_health_limited".into()).or_insert(0) += 1;
                if h.engine_err.is_none() && h.health() > h.allow.clone() + rf::qfrac(1, 100) {
                    found.push(Found {
                        clause: "C04.rejected_implies_unhealthy".into(),
                        sig: format!("drift_withdraw:debt{debt}:cap{:?}", cap),
                        detail: format!("drift_withdraw of {} rejected for insufficient health although the reference initial health after withdrawing {} is still {:.6} (assets {:.6}, liabilities {:.6}; collateral-value cap {:?})", lo + 1, lo, rf::qf64(&h.health()), rf::qf64(&h.assets), rf::qf64(&h.liabs), cap),
                        replay: json!({"model": "C04drift", "debt": debt, "amount": lo + 1, "cap": cap}),
                    });
                }
            }
        }
      }
    }
    if let [(c0, b0), (c1, b1)] = borrow_boundaries[..] {
        *classes.entry(format!("drift_gate:borrow_boundary:{}", if b0 == b1 { "same_with_and_without_cap" } else { "DIFFERENT" })).or_insert(0) += 1;
        if b0 != b1 {
            found.push(Found {
                clause: "C04.rejected_implies_unhealthy".into(),
                sig: "borrow_against_drift:cap_that_does_not_bite".into(),
                detail: format!("against $1000 of Drift-held collateral up to {b0} native units can be borrowed with collateral-value cap {:?} and up to {b1} with cap {:?}, although the bank's deposits are a hundredth of the cap: the smaller boundary rejects borrows whose health is positive", c0, c1),
                replay: json!({"model": "C04drift", "borrow_boundaries": [b0, b1]}),
            });
        }
    }
    execs
}

/// Isolated-tier exclusivity: an account with ample collateral owes bank X and asks to borrow from bank Y, for every
/// ordered pair (X, Y) of three isolated-tier and three ordinary banks (so that the isolated bank's address lies above
/// and below the other's - positions are kept sorted by bank address). Whatever is accepted must leave an
/// isolated-tier debt as the account's only debt.
fn isolated_matrix(found: &mut Vec<Found>, classes: &mut BTreeMap<String, u64>) -> u64 {
    let mut banks = vec![];
    let mut coll = spec_b6();
    coll.label = "ICOL".into();
    coll.mint = MintSpec::spl("icol", 6);
    banks.push(coll);
    for i in 0..3 {
        let mut iso = spec_b6();
        iso.label = format!("IISO{i}");
        iso.mint = MintSpec::spl(&format!("iiso{i}"), 6);
        iso.config.risk_tier = marginfi_type_crate::types::RiskTier::Isolated;
        iso.config.asset_weight_init = I80F48::ZERO;
        iso.config.asset_weight_maint = I80F48::ZERO;
        banks.push(iso);
    }
    for i in 0..3 {
        let mut n = spec_b6();
        n.label = format!("INRM{i}");
        n.mint = MintSpec::spl(&format!("inrm{i}"), 6);
        banks.push(n);
    }
    let (w, mut s) = build_world(&WorldSpec::new("C04ISO", banks, &["u0", "seeder"]));
    for b in 1..7 {
        assert!(act::apply(&w, &mut s, &Action::Deposit { u: 1, b, amt: 1_000_000_000, up_to_limit: None }).committed);
    }
    assert!(act::apply(&w, &mut s, &Action::Deposit { u: 0, b: 0, amt: 100_000_000_000, up_to_limit: None }).committed);
    let is_iso = |b: usize| (1..4).contains(&b);
    let mut execs = 0u64;
    let (mut above, mut below) = (0u64, 0u64);
    for x in 1..7usize {
        for y in 1..7usize {
            if x == y {
                continue;
            }
            let mut t = s.clone();
            if !act::apply(&w, &mut t, &Action::Borrow { u: 0, b: x, amt: 1_000_000 }).committed {
                *classes.entry("isolated_matrix:first_borrow_refused".into()).or_insert(0) += 1;
                continue;
            }
            let r = act::apply(&w, &mut t, &Action::Borrow { u: 0, b: y, amt: 2_000_000 });
            execs += 2;
            let mixed = is_iso(x) || is_iso(y);
            if mixed {
                let (ik, ok_) = if is_iso(x) { (w.banks[x].key, w.banks[y].key) } else { (w.banks[y].key, w.banks[x].key) };
                if !(is_iso(x) && is_iso(y)) {
                    if ik > ok_ { above += 1 } else { below += 1 }
                }
            }
            *classes.entry(format!("isolated_matrix:{}:{}", if mixed { "with_isolated_debt" } else { "ordinary_debts" }, if r.committed { "accepted" } else { "refused" })).or_insert(0) += 1;
            if r.committed {
                let h = health::health(&t, &w.users[0].account, Req::Initial).unwrap();
                if h.isolated_violation {
                    found.push(Found {
                        clause: "C04.isolated_exclusive".into(),
                        sig: format!("isolated_matrix:{}", if is_iso(x) && is_iso(y) { "two_isolated" } else if w.banks[x].key > w.banks[y].key { "first_above" } else { "first_below" }),
                        detail: format!("owing {} ({}), a borrow from {} ({}) was accepted: an isolated-tier debt is no longer the account's only debt (bank addresses: first {} second)", w.banks[x].label, if is_iso(x) { "isolated tier" } else { "ordinary" }, w.banks[y].label, if is_iso(y) { "isolated tier" } else { "ordinary" }, if w.banks[x].key > w.banks[y].key { ">" } else { "<" }),
                        replay: json!({"model": "C04iso", "first": x, "second": y}),
                    });
                }
            }
        }
    }
    if above == 0 || below == 0 {
        *classes.entry("isolated_matrix:only_one_address_order".into()).or_insert(0) += 1;
    }
    execs
}

pub fn run(tier: Tier) -> Outcome {
    let cfgs = configs(tier);
    let pool = rayon::ThreadPoolBuilder::new().num_threads(16).stack_size(64 << 20).build().unwrap();
    let results: Mutex<Vec<(usize, CfgResult)>> = Mutex::new(vec![]);
    pool.install(|| {
        cfgs.par_iter().enumerate().for_each(|(i, c)| {
            let r = run_cfg(c, i % 64);
            results.lock().unwrap().push((i, r));
        })
    });
    let mut res = results.into_inner().unwrap();
    res.sort_by_key(|x| x.0);
    let mut o = Outcome { level: "exploration".into(), ..Default::default() };
    let mut classes: BTreeMap<String, u64> = BTreeMap::new();
    let mut execs = 0u64;
    let mut max_allow = 0f64;
    let mut samples = vec![];
    for (i, r) in &res {
        *classes.entry(r.class.clone()).or_insert(0) += 1;
        execs += r.execs;
        max_allow = max_allow.max(r.max_allow);
        if samples.len() < 5 && i % 997 == 3 {
            samples.push(json!({"cfg": cfgs[*i], "boundary_amount": r.boundary, "class": r.class}));
        }
    }
    for (_, r) in res {
        o.found.extend(r.found);
    }
    execs += isolated_matrix(&mut o.found, &mut classes);
    execs += drift_gate(&mut o.found, &mut classes);
    if !classes.iter().any(|(k, v)| k.starts_with("drift_gate:withdraw:ok") && *v > 0) || !classes.iter().any(|(k, v)| k.starts_with("drift_gate:withdraw:6009") && *v > 0) {
        o.machinery.push("vacuity guard: the Drift withdrawal gate never accepted / never refused for health".into());
    }
    if classes.contains_key("isolated_matrix:only_one_address_order") || !classes.contains_key("isolated_matrix:with_isolated_debt:refused") || !classes.contains_key("isolated_matrix:ordinary_debts:accepted") {
        o.machinery.push("vacuity guard: the isolated-tier matrix did not see both address orders, a refusal and an ordinary acceptance".into());
    }
    if samples.is_empty() {
        samples.push(json!({"cfg": cfgs[0]}));
    }
    let health_limited = classes.iter().filter(|(k, _)| k.contains("health_limited")).map(|(_, v)| *v).sum::<u64>();
    if health_limited == 0 {
        o.machinery.push("vacuity guard: no configuration had a health-limited boundary".into());
    }
    o.coverage = json!({
        "evaluations": execs,
        "distinct_nontrivial": health_limited,
        "rule": "complete product of configuration menus (collateral weight x price/EMA ratio x confidence x {normal, reduce-only, isolated, stale oracle, collateral-value cap; plus staked collateral and collateral held through Kamino / Solend / Drift at exchange rate 1.1} x second collateral x liability weight x liability confidence x e-mode variant x {borrow, withdraw}) plus 16-position portfolios, plus the isolated-tier matrix (owing bank X, borrow from bank Y for every ordered pair of three isolated-tier and three ordinary banks, i.e. with the isolated bank's address above and below the other's: an accepted borrow must leave an isolated-tier debt as the only debt); per configuration the amount is bisected through the real instruction, then boundary +-8 and a 32-point grid are executed; every acceptance is judged against the exact reference health of its real post-state, the boundary rejection against the reference health one unit further; distinct_nontrivial = configurations whose boundary is decided by the health check (interior boundary, rejection code RiskEngineInitRejected)",
        "configurations": cfgs.len(),
        "exhaustive": true,
        "max_allowance_dollars": max_allow,
        "outcome_classes": classes,
        "samples": samples,
    });
    o.assumptions = vec!["environment model E1 (svm-lite)".into(), "oracle accounts are forged PriceUpdateV2 accounts; the stale-oracle state rewrites the publish time".into()];
    o
}

pub fn replay(v: &serde_json::Value) -> Vec<crate::mc::Violation> {
    let c: Cfg = serde_json::from_value(v["cfg"].clone()).expect("cfg");
    let r = run_cfg(&c, 0);
    r.found.into_iter().map(|f| crate::mc::Violation { clause: f.clause, detail: f.detail }).collect()
}
