//! C01 — bank solvency: history search with the exact vault-vs-books oracle on every transition.

use super::histcommon::*;
use super::Tier;
use crate::evidence::Outcome;
use crate::hist::{Alphabet, Hist, SolvencyOracle};
use crate::mc::Limits;

pub fn model(tier: Tier, world: &str) -> Hist {
    let (w, s0) = world_by_name(if world.is_empty() { "A" } else { world });
    let mut roots = standard_roots(&w, &s0, true);
    roots.extend(tokenless_roots(&w, &s0));
    roots.extend(killed_root(&w, &s0));
    let mut alpha = Alphabet::standard(vec![0, 1], vec![0, 1]);
    alpha.receivership = true;
    alpha.tokenless = true;
    alpha.vault_swaps = true;
    // (quick depth only: at the thorough depth the doubled alphabet does not fit the time budget)
    alpha.flash_wrap = tier == Tier::Quick;
    if tier == Tier::Thorough {
        alpha.rich_amounts = true;
        alpha.max_clock_devs = 2;
        alpha.max_price_devs = 2;
    }
    Hist { w, roots, alpha, oracles: vec![Box::new(SolvencyOracle { safety: 4 })] }
}

pub fn run(tier: Tier) -> Outcome {
    let worlds: &[&str] = match tier {
        Tier::Quick => &["A", "B", "C", "D", "G"],
        Tier::Thorough => &["A", "B", "C", "D", "G"],
    };
    let depth = match tier {
        Tier::Quick => 3,
        Tier::Thorough => 4,
    };
    let mut runs = vec![];
    for wn in worlds {
        let Some(h) = guarded(&format!("C01 world {wn}"), || model(tier, wn)) else { continue };
        let lim = Limits { max_depth: depth, max_wall_s: if tier == Tier::Quick { 300.0 } else { 2400.0 }, ..Default::default() };
        let (report, recheck) = run_world(&h, &lim, Some(depth - 1));
        runs.push(HistRun { world: wn.to_string(), report, recheck });
    }
    assemble(
        "C01",
        runs,
        &["deposit:ok:tokens_moved", "withdraw:ok:tokens_moved", "borrow:ok:tokens_moved", "repay:ok:tokens_moved", "accrue:ok"],
        &["withdraw_all:ok:tokens_moved", "repay_all:ok:tokens_moved", "liquidate:ok", "bankruptcy:ok", "collect_fees:ok:tokens_moved", "borrow:6009", "withdraw:6009"],
        "every action sequence up to the depth bound over the user/liquidator/fee alphabet (state-relative amounts) from every root, breadth-first with canonical-state deduplication; a class is (action kind, result code, non-vacuity tags); the oracle recomputes vault - (deposits - liabilities + fees) exactly from raw bytes before and after every committed transaction and demands the change is >= -allowance",
        vec![
            "environment model E1 (svm-lite) stands in for the Solana runtime; SPL Token / Token-2022 are the crates' native processors (v7.0.0)".into(),
            "magnitudes explored: totals <= ~2^40 native units, share values < 2^8; amounts from the state-relative menus of hist.rs".into(),
            "hash collisions of the 256-bit state key are ignored".into(),
        ],
        &["R4", "RK", "R3w"],
    )
}
