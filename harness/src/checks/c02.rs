//! C02 — ledger consistency: bank totals vs the sum of all positions, bit-exact on every transition.

use super::histcommon::*;
use super::Tier;
use crate::evidence::Outcome;
use crate::hist::{Alphabet, Hist, LedgerOracle};
use crate::mc::Limits;

pub fn model(tier: Tier, world: &str) -> Hist {
    let (w, s0) = world_by_name(if world.is_empty() { "A" } else { world });
    // the forged fee buckets of R4 are of no interest here; the wipe-out root R3w is
    let mut roots: Vec<_> = standard_roots(&w, &s0, true).into_iter().filter(|(n, _)| n != "R4").collect();
    roots.extend(tokenless_roots(&w, &s0));
    roots.extend(killed_root(&w, &s0));
    roots.extend(migrated_shell_root(&w, &s0));
    roots.extend(emissions_root(&w, &s0));
    let mut alpha = Alphabet::standard(vec![0, 1], vec![0, 1]);
    alpha.receivership = true;
    alpha.tokenless = true;
    alpha.collect = false;
    alpha.transfer = true;
    alpha.close_account = true;
    alpha.close_bank = true;
    alpha.price_moves = vec![(3, 1)];
    alpha.clock_dts = vec![3600, 31_536_000];
    if tier == Tier::Thorough {
        alpha.rich_amounts = true;
        alpha.max_clock_devs = 2;
    }
    Hist { w, roots, alpha, oracles: vec![Box::new(LedgerOracle)] }
}

pub fn run(tier: Tier) -> Outcome {
    let worlds: &[&str] = match tier {
        Tier::Quick => &["A", "B", "C", "D"],
        Tier::Thorough => &["A", "B", "C", "D"],
    };
    let depth = match tier {
        Tier::Quick => 3,
        Tier::Thorough => 4,
    };
    let mut runs = vec![];
    for wn in worlds {
        let Some(h) = guarded(&format!("C02 world {wn}"), || model(tier, wn)) else { continue };
        let lim = Limits { max_depth: depth, max_wall_s: if tier == Tier::Quick { 300.0 } else { 2400.0 }, ..Default::default() };
        let (report, recheck) = run_world(&h, &lim, Some(depth - 1));
        runs.push(HistRun { world: wn.to_string(), report, recheck });
    }
    assemble(
        "C02",
        runs,
        &["deposit:ok:ledger_delta_checked", "withdraw:ok:ledger_delta_checked", "borrow:ok:ledger_delta_checked"],
        &["withdraw_all:ok:slot_deactivated", "repay_all:ok:slot_deactivated", "liquidate:ok:ledger_delta_checked", "bankruptcy:ok", "transfer_account:ok", "close_balance:ok", "close_account:ok"],
        "every action sequence up to the depth bound over the user/liquidator/admin alphabet incl. transfer-account, close-balance, close-account, bankruptcy, close-bank; after every committed transaction, for every bank: delta(total shares) == sum over all accounts of delta(position shares), bit-exact in raw I80F48, except on steps that deactivate a slot where the abandoned remainder must be in [0, 0.0001) units; globally totals >= sum(positions) >= 0 within the counted dust budget",
        vec![
            "environment model E1 (svm-lite) stands in for the Solana runtime".into(),
            "banks in token-less repayment mode (roots RT / RTC / RTD) are reached through configure_bank, a deleverage-bracketed repay-all by the risk admin and force_tokenless_repay_complete".into(),
        ],
        &["RK"],
    )
}
