//! C16 — account structure invariants after every transaction of a history search over banks of
//! every asset tag and risk tier, plus slot-exhaustion and integration-limit sweeps.

use super::histcommon::*;
use super::Tier;
use crate::act::{self, Action};
use crate::evidence::{Found, Outcome};
use crate::hist::{structure_violations, Alphabet, HState, Hist, StructureOracle};
use crate::mc::Limits;
use crate::svm::Store;
use crate::world::{self, *};
use fixed::types::I80F48;
use marginfi_type_crate::types::{Balance, Bank, LendingAccount, RiskTier};
use serde_json::json;

fn world_f() -> (World, Store) {
    let mut sol = spec_b9();
    sol.config.asset_tag = 1;
    let mut staked = spec_b9();
    staked.label = "ST".into();
    staked.mint = MintSpec::spl("lst", 9);
    let mut iso = spec_b6();
    iso.label = "ISO".into();
    iso.mint = MintSpec::spl("iso", 6);
    iso.config.risk_tier = RiskTier::Isolated;
    iso.config.asset_weight_init = I80F48::ZERO;
    iso.config.asset_weight_maint = I80F48::ZERO;
    let mut d2 = spec_b6();
    d2.label = "D2".into();
    d2.mint = MintSpec::spl("d2", 6);
    let (w, mut s) = build_world(&WorldSpec::new("HF", vec![spec_b6(), sol, staked, iso, d2], &["u0", "u1", "seeder", "u3"]));
    // the staked-collateral bank is forged: such banks are created by add_bank_permissionless
    // against a single-pool stake account, which needs programs that are not available here
    world::make_staked_bank(&mut s, &w, 2, 3_000_000_000_000);
    (w, s)
}

pub fn model(tier: Tier) -> Hist {
    let (w, s0) = world_f();
    let nb = w.banks.len();
    let mk = |s: Store| HState { s, clock_devs: 0, price_devs: 0, closes: vec![0; nb], forged: true };
    let mut roots = vec![];
    let mut r0 = s0.clone();
    for b in [0usize, 1, 3, 4] {
        let amt = 1000 * 10u64.pow(w.banks[b].decimals as u32);
        assert!(act::apply(&w, &mut r0, &Action::Deposit { u: 2, b, amt, up_to_limit: None }).committed);
    }
    roots.push(("F0".to_string(), mk(r0.clone())));
    // F1: u0 lends default + SOL and owes the isolated asset; u1 lends staked + SOL
    let mut r1 = r0.clone();
    for a in [
        Action::Deposit { u: 0, b: 0, amt: 500_000_000, up_to_limit: None },
        Action::Deposit { u: 0, b: 1, amt: 3_000_000_000, up_to_limit: None },
        Action::Borrow { u: 0, b: 3, amt: 50_000_000 },
        Action::Deposit { u: 1, b: 2, amt: 2_000_000_000, up_to_limit: None },
        Action::Deposit { u: 1, b: 1, amt: 2_000_000_000, up_to_limit: None },
    ] {
        assert!(act::apply(&w, &mut r1, &a).committed, "{:?}", a);
    }
    roots.push(("F1".to_string(), mk(r1.clone())));
    // F2: u0 underwater (isolated debt x40): liquidations on both sides become possible
    let mut r2 = r1.clone();
    act::apply(&w, &mut r2, &Action::SetPrice { b: 3, num: 40, den: 1 });
    roots.push(("F2".to_string(), mk(r2)));
    // F3: u0 lends the default bank and owes the SOL-tagged bank, underwater; u1 (staked + SOL
    // positions) could pay the SOL debt but must not receive default-class collateral
    let mut r3 = r0.clone();
    for a in [
        Action::Deposit { u: 0, b: 0, amt: 500_000_000, up_to_limit: None },
        Action::Borrow { u: 0, b: 1, amt: 2_000_000_000 },
        Action::Deposit { u: 1, b: 2, amt: 2_000_000_000, up_to_limit: None },
        Action::Deposit { u: 1, b: 1, amt: 20_000_000_000, up_to_limit: None },
        Action::SetPrice { b: 1, num: 3, den: 1 },
    ] {
        assert!(act::apply(&w, &mut r3, &a).committed, "{:?}", a);
    }
    roots.push(("F3".to_string(), mk(r3)));
    // F5 / F6: the liquidator (u1) holds the bank whose collateral it will seize and nothing in the debt bank, so
    // the liquidation opens its debt-bank position before it looks for the collateral one; the two roots swap the
    // roles of the two banks, so the new position's key lies above the existing one's in one and below it in the other
    {
        let mut r5 = r0.clone();
        for a in [
            Action::Deposit { u: 0, b: 0, amt: 500_000_000, up_to_limit: None },
            Action::Borrow { u: 0, b: 1, amt: 2_000_000_000 },
            Action::Deposit { u: 1, b: 0, amt: 5_000_000_000, up_to_limit: None },
            Action::SetPrice { b: 1, num: 3, den: 1 },
        ] {
            assert!(act::apply(&w, &mut r5, &a).committed, "F5 {:?}", a);
        }
        roots.push(("F5".to_string(), mk(r5)));
        let mut r6 = r0.clone();
        for a in [
            Action::Deposit { u: 0, b: 1, amt: 3_000_000_000, up_to_limit: None },
            Action::Borrow { u: 0, b: 0, amt: 150_000_000 },
            Action::Deposit { u: 1, b: 1, amt: 50_000_000_000, up_to_limit: None },
            Action::SetPrice { b: 1, num: 1, den: 3 },
        ] {
            assert!(act::apply(&w, &mut r6, &a).committed, "F6 {:?}", a);
        }
        roots.push(("F6".to_string(), mk(r6)));
    }
    // F4: u0 as a bankruptcy settlement leaves it: its positions (F1) stay, the account is disabled (forged flag)
    let mut r4 = r1.clone();
    world::edit_account(&mut r4, &w.users[0].account, |a| a.account_flags |= marginfi_type_crate::types::ACCOUNT_DISABLED);
    roots.push(("F4".to_string(), mk(r4)));
    let mut alpha = Alphabet::standard(vec![0, 1], if tier == Tier::Quick { vec![0, 1, 2, 3] } else { vec![0, 1, 2, 3, 4] });
    alpha.receivership = true;
    alpha.liquidate_padded = true;
    alpha.accrue = false;
    alpha.collect = false;
    alpha.bankruptcy = false;
    alpha.transfer = true;
    alpha.retag = true;
    alpha.close_account = true;
    alpha.max_clock_devs = 0;
    alpha.max_price_devs = 0;
    alpha.prune = false;
    Hist { w, roots, alpha, oracles: vec![Box::new(StructureOracle)] }
}

/// slot exhaustion through real deposits into 17 banks
fn slots_sweep(found: &mut Vec<Found>) -> (u64, Vec<String>) {
    let mut banks = vec![];
    for i in 0..17 {
        let mut b = spec_b6();
        b.label = format!("S{i}");
        b.mint = MintSpec::spl(&format!("slot{i}"), (i % 10) as u8);
        banks.push(b);
    }
    let (w, mut s) = build_world(&WorldSpec::new("HS", banks, &["u0"]));
    let mut classes = vec![];
    let mut n = 0;
    for b in 0..17 {
        let amt = 10u64.pow(w.banks[b].decimals as u32) * 3 + 1;
        let r = act::apply(&w, &mut s, &Action::Deposit { u: 0, b, amt, up_to_limit: None });
        n += 1;
        classes.push(format!("deposit_into_bank_{}:{}", b, crate::svm::err_name(r.code)));
        let ma = world::account(&s, &w.users[0].account);
        for v in structure_violations(&ma, "u0") {
            found.push(Found { clause: v.clause, sig: "slots".into(), detail: v.detail, replay: json!({"model": "C16slots", "upto": b}) });
        }
        if b == 16 && r.committed {
            found.push(Found { clause: "C16.bounded".into(), sig: "slots".into(), detail: "a 17th position was opened".into(), replay: json!({"model": "C16slots", "upto": b}) });
        }
    }
    (n, classes)
}

/// component-level sweep of the position-opening routine for integration tags
fn find_or_create_sweep(found: &mut Vec<Found>) -> u64 {
    use marginfi::state::marginfi_account::BankAccountWrapper;
    let mut n = 0u64;
    for active in 0..=16usize {
        for integ in 0..=active.min(9) {
            for new_tag in [0u8, 1, 2, 3, 4, 5] {
                let mut la: LendingAccount = bytemuck::Zeroable::zeroed();
                for i in 0..active {
                    la.balances[i] = Balance::empty_deactivated();
                    la.balances[i].active = 1;
                    la.balances[i].bank_pk = world::key(&format!("c16:foc:{i}"));
                    la.balances[i].bank_asset_tag = if i < integ { 3 + (i % 3) as u8 } else { 0 };
                }
                let mut bank: Bank = bytemuck::Zeroable::zeroed();
                bank.config.asset_tag = new_tag;
                let newk = world::key("c16:foc:new");
                let r = crate::svm::with_clock(solana_program::clock::Clock { unix_timestamp: 1_700_000_000, ..Default::default() }, || {
                    std::panic::catch_unwind(std::panic::AssertUnwindSafe(|| BankAccountWrapper::find_or_create(&newk, &mut bank, &mut la).is_ok())).unwrap_or(false)
                });
                n += 1;
                let post_active = la.balances.iter().filter(|b| b.active != 0).count();
                let post_integ = la.balances.iter().filter(|b| b.active != 0 && matches!(b.bank_asset_tag, 3 | 4 | 5)).count();
                if post_integ > 8.max(integ) || post_active > 16 {
                    found.push(Found { clause: "C16.bounded".into(), sig: "find_or_create".into(), detail: format!("opening a tag-{new_tag} position on an account with {active} positions ({integ} integration) gave {post_active} positions, {post_integ} integration (ok={r})"), replay: json!({"model": "C16foc", "active": active, "integ": integ, "tag": new_tag}) });
                }
                if r {
                    if let Some(b) = la.balances.iter().find(|b| b.active != 0 && b.bank_pk == newk) {
                        if b.bank_asset_tag != new_tag {
                            found.push(Found { clause: "C16.tag_stable".into(), sig: "find_or_create".into(), detail: "a new position did not inherit the bank's asset tag".into(), replay: json!({"model": "C16foc", "active": active, "integ": integ, "tag": new_tag}) });
                        }
                    }
                }
            }
        }
    }
    n
}

/// integration-slot exhaustion through the real `drift_deposit` (against the harness's Drift stand-in, venue.rs):
/// an account deposits into nine Drift-backed banks in turn, with ordinary deposits in between; the structure is
/// judged after every step and a ninth integration position must not open
fn integration_slots_sweep(found: &mut Vec<Found>) -> (u64, Vec<String>) {
    let mut banks = vec![];
    for i in 0..11 {
        let mut b = spec_b6();
        b.label = format!("V{i}");
        b.mint = MintSpec::spl(&format!("venue{i}"), 6);
        banks.push(b);
    }
    let (w, mut s) = build_world(&WorldSpec::new("HV", banks, &["u0"]));
    for b in 0..9 {
        crate::venue::make_drift_bank(&mut s, &w, b);
    }
    let auth = w.users[0].authority;
    let mut classes = vec![];
    let mut n = 0u64;
    let integ = |s: &Store| world::account(s, &w.users[0].account).lending_account.balances.iter().filter(|b| b.active != 0 && matches!(b.bank_asset_tag, 3 | 4 | 5)).count();
    for step in 0..11usize {
        // steps 0..8: venue deposits into banks 0..8; an ordinary deposit (banks 9, 10) after the third and the sixth
        let tx = crate::venue::deposit_tx(&w, &s, 0, step.min(8), 1_000_000 + step as u64, auth);
        let ok = if step < 9 { crate::svm::process_tx(&mut s, &tx).ok() } else { act::apply(&w, &mut s, &Action::Deposit { u: 0, b: step, amt: 5_000_000, up_to_limit: None }).committed };
        n += 1;
        classes.push(format!("integration_slots:step{step}:{}:{}", if step < 9 { "venue_deposit" } else { "deposit" }, if ok { "ok" } else { "refused" }));
        let ma = world::account(&s, &w.users[0].account);
        for v in structure_violations(&ma, "u0") {
            found.push(Found { clause: v.clause, sig: "integration_slots".into(), detail: v.detail, replay: json!({"model": "C16venue", "upto": step}) });
        }
        if integ(&s) > 8 {
            found.push(Found { clause: "C16.bounded".into(), sig: "integration_slots".into(), detail: format!("the account holds {} integration positions after step {step}", integ(&s)), replay: json!({"model": "C16venue", "upto": step}) });
        }
    }
    (n, classes)
}

pub fn run(tier: Tier) -> Outcome {
    let depth = match tier {
        Tier::Quick => 3,
        Tier::Thorough => 4,
    };
    let h = model(tier);
    let lim = Limits { max_depth: depth, max_wall_s: if tier == Tier::Quick { 300.0 } else { 2400.0 }, ..Default::default() };
    let (report, recheck) = run_world(&h, &lim, Some(depth - 1));
    let runs = vec![HistRun { world: "F".to_string(), report, recheck }];
    let mut o = assemble(
        "C16",
        runs,
        &["deposit:ok:structure_checked", "withdraw_all:ok:structure_checked", "borrow:ok:structure_checked"],
        &["liquidate:ok:structure_checked", "transfer_account:ok:transferred", "close_account:ok:account_closed", "deposit:6047", "borrow:6047"],
        "every action sequence up to the depth bound (deposit, withdraw, withdraw-all, borrow, repay, repay-all, close-balance, liquidation in every asset/debt bank combination, transfer, close-account; not pruned) over banks tagged default / SOL / staked (forged) / isolated; after every committed transaction every changed account is checked for distinct banks, one side per bank, sorted prefix, tag compatibility, bounds, tag stability; closes, disabled accounts and transfers are judged on their pre/post states; plus a 17-bank slot-exhaustion run and a 0..16 x 0..9 x 6-tag sweep of the position-opening routine",
        vec!["environment model E1 (svm-lite)".into(), "the staked-collateral bank is a forged tag on a regular bank; integration positions are opened through the real drift_deposit against the harness stand-in for Drift (slot sweep) and exist otherwise only in the component-level sweep".into()],
        &["F0", "F1", "F2", "F3", "F4"],
    );
    let (n1, slot_classes) = slots_sweep(&mut o.found);
    let n2 = find_or_create_sweep(&mut o.found);
    o.coverage["slot_exhaustion"] = json!({"instructions": n1, "outcomes": slot_classes});
    o.coverage["find_or_create_sweep"] = json!({"calls": n2});
    let (n3, venue_classes) = integration_slots_sweep(&mut o.found);
    if !venue_classes.iter().any(|c| c.contains("venue_deposit:ok")) || !venue_classes.iter().any(|c| c.contains("step8:venue_deposit:refused")) {
        o.machinery.push(format!("vacuity guard: the integration-slot sweep did not open eight venue positions and get the ninth refused: {:?}", venue_classes));
    }
    o.coverage["integration_slot_exhaustion"] = json!({"instructions": n3, "outcomes": venue_classes});
    o
}

pub fn replay(v: &serde_json::Value) -> Vec<crate::mc::Violation> {
    match v["model"].as_str() {
        Some("C16slots") => {
            let mut f = vec![];
            slots_sweep(&mut f);
            f.into_iter().map(|x| crate::mc::Violation { clause: x.clause, detail: x.detail }).collect()
        }
        Some("C16venue") => {
            let mut f = vec![];
            integration_slots_sweep(&mut f);
            f.into_iter().map(|x| crate::mc::Violation { clause: x.clause, detail: x.detail }).collect()
        }
        Some("C16foc") => {
            let mut f = vec![];
            find_or_create_sweep(&mut f);
            f.into_iter().map(|x| crate::mc::Violation { clause: x.clause, detail: x.detail }).collect()
        }
        _ => replay_hist(&model(Tier::Thorough), v),
    }
}
