//! C11 — flash-loan bracket. Every instruction list up to the length bound over an alphabet of
//! start (every end-index argument), end (right account, another account of the same authority,
//! another account with the right one among its remaining accounts, via CPI), borrow / withdraw
//! (within and beyond borrowing power), repay, deposit, liquidation, bankruptcy and liquidation-start
//! on the bracketed account, and a foreign no-op, executed atomically through the real entrypoint from
//! six account states; every committed transaction is judged.

use super::Tier;
use crate::act::{self, Action};
use crate::evidence::{Found, Outcome};
use crate::health::{self, Req};
use crate::ix;
use crate::refmodel as rf;
use crate::svm::{process_tx, Ix, Store, Tx};
use crate::world::{self, *};
use fixed::types::I80F48;
use marginfi_type_crate::types::{Balance, ACCOUNT_DISABLED, ACCOUNT_FROZEN, ACCOUNT_IN_FLASHLOAN, ACCOUNT_IN_RECEIVERSHIP};
use num_traits::Signed;
use rayon::prelude::*;
use serde_json::json;
use solana_program::pubkey::Pubkey;
use std::collections::BTreeMap;

#[derive(Clone, Copy, Debug, PartialEq, Eq, serde::Serialize, serde::Deserialize)]
pub enum Sym {
    /// start_flashloan(A, end_index)
    Start(u8),
    /// start_flashloan(A, end_index = 2^8 / 2^16 / 2^32 (by the second field) + the first field): an index far
    /// outside the transaction whose low bits alias a position inside it (side enumeration only)
    StartWide(u8, u8),
    /// end with risk accounts for both banks (right after a borrow opened the debt position)
    End,
    /// end with risk accounts for the positions held before the transaction
    EndHeld,
    /// end for another account of the same authority
    EndOther,
    /// end for the other account, with A passed among the remaining accounts
    EndOtherMentioningA,
    EndViaCpi,
    StartViaCpi(u8),
    BorrowSmall,
    BorrowHuge,
    /// borrow / withdraw a given dollar value (side enumeration across the band between the initial and the
    /// maintenance requirement)
    BorrowUsd(u16),
    WithdrawUsd(u16),
    /// the account is moved to a new account of the same authority (PDA flavour / keypair flavour of the instruction)
    TransferPda,
    Transfer,
    WithdrawSmall,
    WithdrawMost,
    RepayAll,
    Deposit,
    Noop,
    Liquidate,
    Bankruptcy,
    StartLiquidation,
}

#[derive(Clone, Copy, Debug, PartialEq, Eq, serde::Serialize, serde::Deserialize)]
pub enum St {
    Normal,
    Frozen,
    Disabled,
    InReceivership,
    AlreadyInFlashloan,
    /// A owes and is liquidatable (debt asset appreciated)
    Unhealthy,
    /// A owes and has no assets left
    Bankrupt,
}

pub struct Sc {
    pub w: World,
    pub s: Store,
    /// second account of A's authority
    pub other: Pubkey,
}

fn bank(label: &str, mint: &str, dec: u8, usd_e8: i64) -> BankSpec {
    let mut cfg = BankCfg::default();
    cfg.asset_weight_init = I80F48::from_num(0.5);
    cfg.asset_weight_maint = I80F48::from_num(0.9);
    cfg.liability_weight_init = I80F48::from_num(1.25);
    cfg.liability_weight_maint = I80F48::from_num(1.1);
    BankSpec { label: label.into(), mint: MintSpec::spl(mint, dec), oracle: OracleSpec::pyth_usd(usd_e8), config: cfg }
}

pub fn scene(st: St) -> Sc {
    let (w, mut s) = build_world(&WorldSpec::new(&format!("C11{:?}", st), vec![bank("FA", "c11a", 6, 100_000_000), bank("FL", "c11l", 9, 2_500_000_000)], &["a", "liq", "seeder"]));
    let go = |s: &mut Store, a: Action| {
        let r = act::apply(&w, s, &a);
        assert!(r.committed, "C11 scene {:?}: {}", a, crate::svm::err_name(r.code));
    };
    for b in 0..2 {
        go(&mut s, Action::Deposit { u: 2, b, amt: 1_000_000 * 10u64.pow(w.banks[b].decimals as u32), up_to_limit: None });
    }
    go(&mut s, Action::Deposit { u: 0, b: 0, amt: 1_000_000_000, up_to_limit: None }); // $1000
    go(&mut s, Action::Deposit { u: 1, b: 1, amt: 1_000_000_000_000, up_to_limit: None }); // liquidator funds
    // a second account of the same authority, with a deposit of its own
    let other = key(&format!("C11{:?}:acct:a2", st));
    let auth = w.users[0].authority;
    assert!(process_tx(&mut s, &Tx::one(ix::account_initialize(w.group, other, auth, w.payer), &[auth, w.payer, other])).ok());
    let ta = w.users[0].tokens[&w.banks[0].mint];
    assert!(process_tx(&mut s, &Tx::one(ix::deposit(w.group, other, auth, w.banks[0].key, ta, w.banks[0].token_program, 50_000_000, None, vec![]), &[auth])).ok());
    assert!(process_tx(&mut s, &Tx::one(ix::init_liq_record(w.users[0].account, w.payer), &[w.payer])).ok());
    let acct = w.users[0].account;
    match st {
        St::Normal => {}
        St::Frozen => world::edit_account(&mut s, &acct, |a| a.account_flags |= ACCOUNT_FROZEN),
        St::Disabled => world::edit_account(&mut s, &acct, |a| a.account_flags |= ACCOUNT_DISABLED),
        St::InReceivership => world::edit_account(&mut s, &acct, |a| a.account_flags |= ACCOUNT_IN_RECEIVERSHIP),
        St::AlreadyInFlashloan => world::edit_account(&mut s, &acct, |a| a.account_flags |= ACCOUNT_IN_FLASHLOAN),
        St::Unhealthy | St::Bankrupt => {
            go(&mut s, Action::Borrow { u: 0, b: 1, amt: 15_000_000_000 }); // 15 tokens = $375
            // x2.6: $975 x 1.1 > $1000 x 0.9
            world::scale_pyth_price(&mut s, &w.banks[1].oracle.unwrap(), 26, 10);
            if st == St::Bankrupt {
                // the collateral is gone (forged, totals kept consistent)
                let a = world::account(&s, &acct);
                let bal = a.lending_account.balances.iter().find(|b| b.active != 0 && b.bank_pk == w.banks[0].key).cloned().unwrap();
                world::edit_bank(&mut s, &w.banks[0].key, |b| {
                    b.total_asset_shares = (I80F48::from(b.total_asset_shares) - I80F48::from(bal.asset_shares)).into();
                    b.lending_position_count -= 1;
                });
                let bk0 = w.banks[0].key;
                world::edit_account(&mut s, &acct, |a| {
                    let mut bals: Vec<Balance> = a.lending_account.balances.iter().filter(|b| b.active != 0 && b.bank_pk != bk0).cloned().collect();
                    bals.sort_by(|x, y| y.bank_pk.cmp(&x.bank_pk));
                    for (i, slot) in a.lending_account.balances.iter_mut().enumerate() {
                        *slot = if i < bals.len() { bals[i] } else { Balance::empty_deactivated() };
                    }
                });
            }
        }
    }
    Sc { w, s, other }
}

pub fn proxy() -> Pubkey {
    key("c11:proxy_program")
}

pub fn build_ix(sc: &Sc, sym: Sym) -> Ix {
    let w = &sc.w;
    let s = &sc.s;
    let acct = w.users[0].account;
    let auth = w.users[0].authority;
    let ta = |b: usize| w.users[0].tokens[&w.banks[b].mint];
    // risk accounts as they must look when both banks are involved
    let rem_both = {
        let mut v = w.risk_metas(s, &acct, Some(w.banks[1].key), None);
        if v.is_empty() {
            v = w.risk_metas(s, &acct, None, None);
        }
        v
    };
    match sym {
        Sym::Start(k) => ix::start_flashloan(acct, auth, k as u64),
        Sym::StartWide(k, b) => ix::start_flashloan(acct, auth, [1u64 << 8, 1u64 << 16, 1u64 << 32][b as usize % 3] + k as u64),
        Sym::StartViaCpi(k) => ix::start_flashloan(acct, auth, k as u64).via(proxy()),
        Sym::End => ix::end_flashloan(acct, auth, rem_both.clone()),
        Sym::EndHeld => ix::end_flashloan(acct, auth, w.risk_metas(s, &acct, None, None)),
        Sym::EndViaCpi => ix::end_flashloan(acct, auth, rem_both.clone()).via(proxy()),
        Sym::EndOther => ix::end_flashloan(sc.other, auth, w.risk_metas(s, &sc.other, None, None)),
        Sym::EndOtherMentioningA => {
            let mut rem = w.risk_metas(s, &sc.other, None, None);
            rem.push(ix::ro(acct));
            ix::end_flashloan(sc.other, auth, rem)
        }
        Sym::BorrowSmall => ix::borrow(w.group, acct, auth, w.banks[1].key, ta(1), w.banks[1].token_program, 1_000_000_000, rem_both.clone()), // $25
        Sym::BorrowHuge => ix::borrow(w.group, acct, auth, w.banks[1].key, ta(1), w.banks[1].token_program, 200_000_000_000, rem_both.clone()), // $5000
        Sym::BorrowUsd(x) => ix::borrow(w.group, acct, auth, w.banks[1].key, ta(1), w.banks[1].token_program, x as u64 * 40_000_000, rem_both.clone()),
        Sym::WithdrawUsd(x) => ix::withdraw(w.group, acct, auth, w.banks[0].key, ta(0), w.banks[0].token_program, x as u64 * 1_000_000, None, rem_both.clone()),
        Sym::TransferPda => act::user_ix(w, s, &Action::TransferPda { u: 0 }, auth).unwrap(),
        Sym::Transfer => act::user_ix(w, s, &Action::Transfer { u: 0 }, auth).unwrap(),
        Sym::WithdrawSmall => ix::withdraw(w.group, acct, auth, w.banks[0].key, ta(0), w.banks[0].token_program, 10_000_000, None, rem_both.clone()),
        Sym::WithdrawMost => ix::withdraw(w.group, acct, auth, w.banks[0].key, ta(0), w.banks[0].token_program, 990_000_000, None, rem_both.clone()),
        Sym::RepayAll => ix::repay(w.group, acct, auth, w.banks[1].key, ta(1), w.banks[1].token_program, 0, Some(true), vec![]),
        Sym::Deposit => ix::deposit(w.group, acct, auth, w.banks[0].key, ta(0), w.banks[0].token_program, 5_000_000, None, vec![]),
        Sym::Noop => Ix { program_id: marginfi::constants::JUP_KEY, accounts: vec![], data: vec![7; 16], proxy: None },
        Sym::Liquidate => act::user_ix(w, s, &Action::Liquidate { liquidator: 1, liquidatee: 0, asset: 0, liab: 1, amt: 1_000_000 }, w.users[1].authority).unwrap_or_else(|| Ix { program_id: marginfi::constants::JUP_KEY, accounts: vec![], data: vec![7; 16], proxy: None }),
        Sym::Bankruptcy => act::user_ix(w, s, &Action::Bankruptcy { signer: act::Signer::RiskAdmin, u: 0, b: 1 }, w.roles.risk).unwrap(),
        Sym::StartLiquidation => ix::start_liquidation(acct, w.users[1].authority, w.risk_metas(s, &acct, None, None)),
    }
}

pub fn alphabet(max_len: usize) -> Vec<Sym> {
    let mut v: Vec<Sym> = (0..=max_len as u8).map(Sym::Start).collect();
    v.extend([Sym::End, Sym::EndHeld, Sym::EndOther, Sym::EndOtherMentioningA, Sym::EndViaCpi, Sym::StartViaCpi(2), Sym::BorrowSmall, Sym::BorrowHuge, Sym::WithdrawSmall, Sym::WithdrawMost, Sym::RepayAll, Sym::Deposit, Sym::Noop, Sym::Liquidate, Sym::Bankruptcy, Sym::StartLiquidation]);
    v
}

pub fn shapes(alpha: &[Sym], max_len: usize) -> Vec<Vec<Sym>> {
    let mut all: Vec<Vec<Sym>> = vec![];
    let mut frontier: Vec<Vec<Sym>> = vec![vec![]];
    for _ in 0..max_len {
        let mut next = vec![];
        for p in &frontier {
            for s in alpha {
                let mut q = p.clone();
                q.push(*s);
                next.push(q);
            }
        }
        all.extend(next.iter().cloned());
        frontier = next;
    }
    all
}

/// all lists of length 1..=max_len, delivered in chunks (one per first symbol pair) so that the whole
/// space never has to be held in memory
pub fn shape_chunks(alpha: &[Sym], max_len: usize) -> Vec<Vec<Vec<Sym>>> {
    let mut chunks: Vec<Vec<Vec<Sym>>> = vec![];
    // lengths 1 and 2
    chunks.push(shapes(alpha, max_len.min(2)));
    if max_len <= 2 {
        return chunks;
    }
    for a in alpha {
        for b in alpha {
            let mut out: Vec<Vec<Sym>> = vec![];
            let mut frontier: Vec<Vec<Sym>> = vec![vec![*a, *b]];
            for _ in 2..max_len {
                let mut next = Vec::with_capacity(frontier.len() * alpha.len());
                for p in &frontier {
                    for s in alpha {
                        let mut q = p.clone();
                        q.push(*s);
                        next.push(q);
                    }
                }
                out.extend(next.iter().cloned());
                frontier = next;
            }
            chunks.push(out);
        }
    }
    chunks
}

pub struct Out {
    pub class: String,
    pub found: Vec<Found>,
}

pub fn run_shape(sc: &Sc, st: St, list: &[Sym]) -> Out {
    let w = &sc.w;
    let ixs: Vec<Ix> = list.iter().map(|s| build_ix(sc, *s)).collect();
    let signers = [w.users[0].authority, w.users[1].authority, w.roles.risk, w.payer, act::next_account_key(&w.users[0].account)];
    let mut post = sc.s.clone();
    let r = process_tx(&mut post, &Tx::new(ixs, &signers));
    if !r.ok() {
        return Out { class: format!("refused:{}", crate::svm::err_name(r.code())), found: vec![] };
    }
    let rep = json!({"model": "C11", "state": st, "shape": list});
    let acct = w.users[0].account;
    let mut viol: Vec<(String, String)> = vec![];
    // 1. the marker never survives
    for k in [acct, sc.other, w.users[1].account] {
        let a = world::account(&post, &k);
        let was = world::account(&sc.s, &k).account_flags & ACCOUNT_IN_FLASHLOAN;
        if a.account_flags & ACCOUNT_IN_FLASHLOAN != 0 && !(st == St::AlreadyInFlashloan && was != 0 && k == acct && !list.iter().any(|s| matches!(s, Sym::Start(_) | Sym::StartWide(..) | Sym::End | Sym::EndHeld))) {
            viol.push(("marker_never_survives".into(), format!("account {} is flagged in-flash-loan after a committed transaction", world::label_of(&k))));
        }
    }
    // 2. every start names a later, top-level end of this program for the same account; no nesting
    let mut open: Option<usize> = if st == St::AlreadyInFlashloan { Some(usize::MAX) } else { None };
    let mut under_flag: Vec<bool> = vec![];
    for (i, s) in list.iter().enumerate() {
        under_flag.push(open.is_some());
        match s {
            Sym::Start(k) => {
                let k = *k as usize;
                if open.is_some() {
                    viol.push(("no_nesting".into(), format!("start at position {i} succeeded while a flash loan was already open")));
                }
                if !(k > i && k < list.len() && matches!(list[k], Sym::End | Sym::EndHeld)) {
                    viol.push(("start_names_matching_end".into(), format!("start at position {i} names position {k}, which is {:?}", list.get(k))));
                }
                if matches!(st, St::Frozen | St::Disabled | St::InReceivership) {
                    viol.push(("state_refuses_flashloan".into(), format!("start succeeded on an account in state {:?}", st)));
                }
                open = Some(k);
            }
            Sym::StartWide(k, b) => {
                viol.push(("start_names_matching_end".into(), format!("start at position {i} names position 2^{} + {k}, which is outside the transaction", [8, 16, 32][*b as usize % 3])));
                open = Some(usize::MAX);
            }
            Sym::StartViaCpi(_) | Sym::EndViaCpi => viol.push(("not_via_cpi".into(), format!("{:?} at position {i} succeeded", s))),
            Sym::End | Sym::EndHeld => open = None,
            _ => {}
        }
    }
    // 3. no liquidation / bankruptcy / receivership of an account while it is flagged
    for (i, s) in list.iter().enumerate() {
        if under_flag[i] && matches!(s, Sym::Liquidate | Sym::Bankruptcy | Sym::StartLiquidation) {
            viol.push(("no_liquidation_under_flag".into(), format!("{:?} at position {i} succeeded while the account was flagged in-flash-loan", s)));
        }
    }
    // 4. health is enforced before the transaction ends
    let risky = list.iter().any(|s| matches!(s, Sym::BorrowSmall | Sym::BorrowHuge | Sym::WithdrawSmall | Sym::WithdrawMost | Sym::BorrowUsd(_) | Sym::WithdrawUsd(_)));
    if risky {
      // (the account itself and, if it was moved inside the transaction, the account its positions went to)
      for k in [acct, act::next_account_key_pda(w, &acct, &w.users[0].authority), act::next_account_key(&acct)] {
        if world::try_account(&post, &k).is_none() {
            continue;
        }
        let h = health::health(&post, &k, Req::Initial).unwrap();
        if h.engine_err.is_none() && h.health() < -h.allow.clone() - rf::qfrac(1, 1_000_000) {
            viol.push(("health_enforced_at_commit".into(), format!("committed with reference initial health {:.6} of account {} after borrowing / withdrawing", rf::qf64(&h.health()), world::label_of(&k))));
        }
      }
    }
    // a pre-state that already carries the marker is unreachable (that is what this property says); it
    // is only there to probe nesting, so only the nesting clause is judged from it
    if st == St::AlreadyInFlashloan {
        viol.retain(|(c, _)| c == "no_nesting");
    }
    let found = viol.into_iter().map(|(c, d)| Found { clause: format!("C11.{c}"), sig: format!("{:?}:{:?}", st, list), detail: format!("{:?} {:?}: {d}", st, list), replay: rep.clone() }).collect();
    let has_bracket = list.iter().any(|s| matches!(s, Sym::Start(_) | Sym::StartWide(..)));
    Out { class: format!("committed:{}{}", if has_bracket { "with_bracket" } else { "no_bracket" }, if risky { ":risky" } else { "" }), found }
}

pub fn run(tier: Tier) -> Outcome {
    let max_len = if tier == Tier::Quick { 4 } else { 5 };
    let alpha = alphabet(max_len);

    let states = [St::Normal, St::Frozen, St::Disabled, St::InReceivership, St::AlreadyInFlashloan, St::Unhealthy, St::Bankrupt];
    let mut classes: BTreeMap<String, u64> = BTreeMap::new();
    let mut found: Vec<Found> = vec![];
    let mut samples = vec![];
    let mut cells = 0u64;
    for st in states {
        let sc = scene(st);
        for lists in shape_chunks(&alpha, max_len) {
            let results: Vec<Out> = lists.par_iter().map(|l| run_shape(&sc, st, l)).collect();
            for (l, r) in lists.iter().zip(results.into_iter()) {
                cells += 1;
                *classes.entry(format!("{:?}:{}", st, r.class)).or_insert(0) += 1;
                if r.class.contains("with_bracket:risky") && samples.len() < 4 && cells % 7 == 0 {
                    samples.push(json!({"state": st, "committed": l}));
                }
                if found.len() < 5000 {
                    found.extend(r.found);
                }
            }
        }
    }
    let mut machinery_extra: Vec<String> = vec![];
    // side enumeration: end indices far outside the transaction whose low 8 / 16 / 32 bits point into it
    {
        let mut side: Vec<Sym> = vec![Sym::End, Sym::EndHeld, Sym::BorrowSmall, Sym::RepayAll];
        for b in 0..3u8 {
            for k in 0..=3u8 {
                side.push(Sym::StartWide(k, b));
            }
        }
        let sc = scene(St::Normal);
        for lists in shape_chunks(&side, 4) {
            let results: Vec<Out> = lists.par_iter().map(|l| run_shape(&sc, St::Normal, l)).collect();
            for r in results {
                cells += 1;
                *classes.entry(format!("wide_index:{}", r.class)).or_insert(0) += 1;
                if found.len() < 5000 {
                    found.extend(r.found);
                }
            }
        }
    }
    // side enumeration: amounts across the band between the initial and the maintenance requirement (the scene's
    // weights are 0.5 / 0.9 for assets and 1.25 / 1.1 for debt: with $1000 deposited, a debt of up to $400 passes
    // the initial check and one of up to $818 the maintenance check; after borrowing $300 a withdrawal of up to
    // $250 resp. $633)
    {
        let mut side: Vec<Sym> = vec![Sym::Start(1), Sym::Start(2), Sym::Start(3), Sym::End, Sym::EndHeld, Sym::RepayAll];
        side.extend([300u16, 399, 401, 600, 817, 819].map(Sym::BorrowUsd));
        side.extend([240u16, 260, 600, 640].map(Sym::WithdrawUsd));
        side.extend([Sym::TransferPda, Sym::Transfer]);
        let sc = scene(St::Normal);
        for lists in shape_chunks(&side, 4) {
            let results: Vec<Out> = lists.par_iter().map(|l| run_shape(&sc, St::Normal, l)).collect();
            for r in results {
                cells += 1;
                *classes.entry(format!("band:{}", r.class)).or_insert(0) += 1;
                if found.len() < 5000 {
                    found.extend(r.found);
                }
            }
        }
        if !classes.iter().any(|(k, v)| k.starts_with("band:") && k.contains("with_bracket:risky") && *v > 0) {
            machinery_extra.push("vacuity guard: no bracket of the band enumeration committed with a borrow or withdrawal".to_string());
        }
    }
    let mut o = Outcome { level: "model_checking".into(), ..Default::default() };
    o.machinery.extend(machinery_extra);
    let mut per_clause: BTreeMap<String, usize> = BTreeMap::new();
    o.found = found.into_iter().filter(|f| {
        let n = per_clause.entry(f.clause.clone()).or_insert(0);
        *n += 1;
        *n <= 10
    }).collect();
    let brackets: u64 = classes.iter().filter(|(k, _)| k.contains("with_bracket")).map(|(_, v)| *v).sum();
    let refused: u64 = classes.iter().filter(|(k, _)| k.contains(":refused")).map(|(_, v)| *v).sum();
    if brackets == 0 || refused == 0 {
        o.machinery.push(format!("vacuity guard: committed brackets {brackets}, refused {refused}"));
    }
    if !classes.iter().any(|(k, v)| k.contains("with_bracket:risky") && *v > 0) {
        o.machinery.push("vacuity guard: no committed bracket contained a borrow or withdrawal".into());
    }
    if samples.is_empty() {
        samples.push(json!({"note": "see classes"}));
    }
    o.coverage = json!({
        "states": cells,
        "transitions": cells,
        "traces_validated_against_impl": cells,
        "evaluations": cells,
        "distinct_nontrivial": brackets,
        "alphabet": alpha.iter().map(|s| format!("{:?}", s)).collect::<Vec<_>>(),
        "account_states": states.iter().map(|s| format!("{:?}", s)).collect::<Vec<_>>(),
        "max_length": max_len,
        "exhaustive": true,
        "rule": "[plus a side enumeration of every list of length <= 4 over start(1..3), two kinds of end, repay-all, borrows of $300 / 399 / 401 / 600 / 817 / 819 and withdrawals of $240 / 260 / 600 / 640 - amounts either side of the initial and of the maintenance requirement] every instruction list of length 1..max over the alphabet (start with every end-index 0..max, four kinds of end, borrow / withdraw within and beyond borrowing power, repay-all, deposit, foreign no-op, liquidate / bankruptcy / start-liquidation of the bracketed account, start / end via CPI) x 7 account states, plus every list up to length 4 over {end, borrow, repay-all, start with end-index 2^8 / 2^16 / 2^32 + 0..3} (indices far outside the transaction whose low bits alias a position inside it), executed atomically with the real instructions sysvar and signed by the authority, a liquidator and the risk admin; a commit => no account is flagged in-flash-loan; every start that executed names a later top-level end of this program for the same account and is not nested, not on a frozen / disabled / in-receivership account, nothing via CPI; no liquidation, bankruptcy or receivership start executed while the account was flagged; and if anything was borrowed or withdrawn the reference initial health of the account is non-negative",
        "outcome_classes": classes,
        "samples": samples,
    });
    o.assumptions = vec!["environment model E1 (svm-lite): instructions sysvar from solana_program's serializer, CPI = stack height 2 with the proxy's instruction in the sysvar".into(), "frozen / disabled / in-receivership / already-flagged / bankrupt states are forged flag bits or positions".into()];
    let _ = Pubkey::default();
    o
}

pub fn replay(v: &serde_json::Value) -> Vec<crate::mc::Violation> {
    let st: St = serde_json::from_value(v["state"].clone()).unwrap_or(St::Normal);
    let list: Vec<Sym> = serde_json::from_value(v["shape"].clone()).unwrap_or_default();
    let sc = scene(st);
    let out = run_shape(&sc, st, &list);
    eprintln!("C11 replay outcome class: {}", out.class);
    out.found.into_iter().map(|f| crate::mc::Violation { clause: f.clause, detail: f.detail }).collect()
}
