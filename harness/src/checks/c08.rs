//! C08 — authorisation: the complete (instruction x signer identity x account state) matrix and the
//! complete (instruction x account slot x substitute) matrix through the real entrypoint.

use super::Tier;
use crate::act;
use crate::evidence::{Found, Outcome};
use crate::golden::{self, Env, Golden, Kind, Role};
use crate::ix;
use crate::svm::{process_tx, Acct, Store, Tx};
use crate::world::{self, key};
use marginfi_type_crate::constants::discriminators;
use marginfi_type_crate::types::{ACCOUNT_DISABLED, ACCOUNT_FROZEN, ACCOUNT_IN_FLASHLOAN, ACCOUNT_IN_RECEIVERSHIP};
use serde_json::json;
use solana_program::pubkey::Pubkey;
use std::collections::BTreeMap;

pub fn signer_menu(e: &Env) -> Vec<(&'static str, Pubkey)> {
    let w = &e.w;
    vec![
        ("authority_u0", w.users[0].authority),
        ("authority_u1", w.users[1].authority),
        ("stranger", act::stranger()),
        ("group_admin", w.roles.admin),
        ("emode_admin", w.roles.emode),
        ("curve_admin", w.roles.curve),
        ("limit_admin", w.roles.limit),
        ("emissions_admin", w.roles.emissions),
        ("metadata_admin", w.roles.metadata),
        ("risk_admin", w.roles.risk),
        ("global_fee_admin", w.fee_admin),
        ("foreign_group_admin", e.f.roles.admin),
    ]
}

fn entitled(e: &Env, role: Role, sg: &Pubkey) -> bool {
    let w = &e.w;
    match role {
        Role::Authority(u) => *sg == w.users[u].authority,
        Role::GroupAdmin => *sg == w.roles.admin,
        Role::Emode => *sg == w.roles.emode,
        Role::Curve => *sg == w.roles.curve,
        Role::Limit => *sg == w.roles.limit,
        Role::Emissions => *sg == w.roles.emissions,
        Role::Metadata => *sg == w.roles.metadata,
        Role::Risk => *sg == w.roles.risk,
        Role::FeeAdmin => *sg == w.fee_admin,
        Role::AdminOrRisk => *sg == w.roles.admin || *sg == w.roles.risk,
        Role::AdminOrEmode => *sg == w.roles.admin || *sg == w.roles.emode,
        Role::Anyone => true,
    }
}

#[derive(Clone, Copy, Debug, PartialEq, Eq)]
enum AState {
    Normal,
    Frozen,
    Receivership,
    Flashloan,
    Disabled,
}

fn apply_state(e: &Env, s: &mut Store, u: usize, st: AState) {
    let flag = match st {
        AState::Normal => 0,
        AState::Frozen => ACCOUNT_FROZEN,
        AState::Receivership => ACCOUNT_IN_RECEIVERSHIP,
        AState::Flashloan => ACCOUNT_IN_FLASHLOAN,
        AState::Disabled => ACCOUNT_DISABLED,
    };
    world::edit_account(s, &e.w.users[u].account, |a| a.account_flags |= flag);
}

/// who may act per the statement in this account state
fn allowed_in_state(e: &Env, g: &Golden, st: AState, sg: &Pubkey) -> bool {
    match (g.kind, st) {
        (Kind::User { .. }, AState::Frozen) => entitled(e, g.role, sg) || *sg == e.w.roles.admin,
        (Kind::User { receivership_ok: true }, AState::Receivership) => true,
        _ => entitled(e, g.role, sg),
    }
}

struct Stats {
    cells: u64,
    classes: BTreeMap<String, u64>,
    found: Vec<Found>,
    not_exercised: Vec<String>,
    unprotected: BTreeMap<String, u64>,
    samples: Vec<serde_json::Value>,
    ignored: Vec<String>,
}

fn run_tx(s: &Store, tx: &Tx) -> (bool, u64) {
    let mut t = s.clone();
    let r = process_tx(&mut t, tx);
    (r.ok(), r.code())
}

// ---- substitution

#[derive(Clone, Debug)]
struct Sub {
    what: &'static str,
    key: Pubkey,
    /// extra account to add to the store for this substitute (look-alikes, wrong-owner copies)
    forge: Option<Acct>,
}

impl Sub {
    /// substitutes that can never be part of a legitimate call: forged copies, wrong-kind vaults,
    /// wrong programs. Every other substitute must be rejected exactly when it makes the
    /// instruction's accounts inconsistent (belonging to different groups / banks).
    fn always_illegitimate(&self) -> bool {
        self.forge.is_some() || self.what.starts_with("other-kind") || self.what.contains("program") || self.what == "another wallet" || self.what.contains("not the canonical")
    }
}

/// Do the accounts of this instruction belong together? (reference semantics of "belongs to another
/// group, bank or program", evaluated on the store)
fn consistent(e: &Env, s: &Store, i: &crate::svm::Ix) -> bool {
    use std::collections::BTreeSet;
    let mut groups: BTreeSet<Pubkey> = BTreeSet::new();
    let mut banks: BTreeSet<Pubkey> = BTreeSet::new();
    let mut accounts: BTreeSet<Pubkey> = BTreeSet::new();
    let mid = marginfi::ID;
    for m in &i.accounts {
        let Some(a) = s.get(&m.pubkey) else { continue };
        if a.owner != mid || a.data.len() < 8 {
            continue;
        }
        let d = &a.data[..8];
        if d == discriminators::GROUP {
            groups.insert(m.pubkey);
        } else if d == discriminators::BANK {
            banks.insert(m.pubkey);
            groups.insert(world::bank(s, &m.pubkey).group);
        } else if d == discriminators::ACCOUNT {
            accounts.insert(m.pubkey);
            groups.insert(world::account(s, &m.pubkey).group);
        } else if d == discriminators::STAKED_SETTINGS {
            let ss: marginfi_type_crate::types::StakedSettings = world::read_pod(&a.data);
            groups.insert(ss.marginfi_group);
        }
    }
    if groups.len() > 1 {
        return false;
    }
    for m in &i.accounts {
        let k = m.pubkey;
        if let Some((bi, _, _)) = vault_kind(e, &k) {
            let bk = if bi == usize::MAX { e.spare_bank } else if bi >= 1000 { e.f.banks[bi - 1000].key } else { e.w.banks[bi].key };
            if !banks.contains(&bk) {
                return false;
            }
        }
        let Some(a) = s.get(&k) else { continue };
        if a.owner == pyth_solana_receiver_sdk::id() || a.owner == marginfi::constants::SWITCHBOARD_PULL_ID {
            if !banks.iter().any(|b| world::bank(s, b).config.oracle_keys[0] == k) {
                return false;
            }
        }
        if a.owner == mid && a.data.len() >= 8 && a.data[..8] == discriminators::LIQUIDATION_RECORD {
            let r = world::liq_record(s, &k);
            if !accounts.contains(&r.marginfi_account) {
                return false;
            }
        }
        if (a.owner == spl_token::id() || a.owner == spl_token_2022::id()) && (a.data.len() == 82 || (a.data.len() > 165 && a.data[165] == 1)) && !banks.is_empty() {
            if !banks.iter().any(|b| {
                let bb = world::bank(s, b);
                bb.mint == k || bb.emissions_mint == k
            }) {
                return false;
            }
        }
        if k == ix::emissions_vault(&e.f.banks[0].key, &e.em_mint) || k == ix::emissions_auth(&e.f.banks[0].key, &e.em_mint) {
            if !banks.contains(&e.f.banks[0].key) {
                return false;
            }
        }
        if k == ix::metadata_key(&e.f.banks[0].key) && !banks.contains(&e.f.banks[0].key) {
            return false;
        }
    }
    true
}

fn copy_with(a: &Acct, owner: Option<Pubkey>, bad_disc: bool) -> Acct {
    let mut c = a.clone();
    c.digest = Default::default();
    if let Some(o) = owner {
        c.owner = o;
    }
    if bad_disc && c.data.len() >= 8 {
        c.data[0] ^= 0xFF;
    }
    c
}

fn vault_kind(e: &Env, k: &Pubkey) -> Option<(usize, u8, bool)> {
    // (bank index incl. spare as usize::MAX, kind 0 liq / 1 ins / 2 fee, is authority)
    let mut banks: Vec<(usize, Pubkey)> = e.w.banks.iter().enumerate().map(|(i, b)| (i, b.key)).collect();
    banks.push((usize::MAX, e.spare_bank));
    for (i, b) in e.f.banks.iter().enumerate() {
        banks.push((1000 + i, b.key));
    }
    for (i, b) in banks {
        let ks = [ix::liquidity_vault(&b).0, ix::insurance_vault(&b).0, ix::fee_vault(&b).0];
        let au = [ix::liquidity_vault_auth(&b).0, ix::insurance_vault_auth(&b).0, ix::fee_vault_auth(&b).0];
        for kind in 0..3 {
            if ks[kind] == *k {
                return Some((i, kind as u8, false));
            }
            if au[kind] == *k {
                return Some((i, kind as u8, true));
            }
        }
    }
    None
}

fn vault_of(bank: &Pubkey, kind: u8, auth: bool) -> Pubkey {
    match (kind, auth) {
        (0, false) => ix::liquidity_vault(bank).0,
        (1, false) => ix::insurance_vault(bank).0,
        (2, false) => ix::fee_vault(bank).0,
        (0, true) => ix::liquidity_vault_auth(bank).0,
        (1, true) => ix::insurance_vault_auth(bank).0,
        _ => ix::fee_vault_auth(bank).0,
    }
}

fn substitutes(e: &Env, s: &Store, k: &Pubkey) -> (String, Vec<Sub>) {
    let w = &e.w;
    let f = &e.f;
    let Some(a) = s.get(k) else {
        // not-yet-existing accounts (to be created) and plain wallets
        if let Some((bi, kind, auth)) = vault_kind(e, k) {
            let _ = (bi, kind, auth);
        }
        return ("absent".into(), vec![]);
    };
    let mid = marginfi::ID;
    if a.executable || *k == solana_program::sysvar::instructions::id() {
        let other = if *k == solana_program::system_program::id() { spl_token::id() } else { solana_program::system_program::id() };
        return ("program_or_sysvar".into(), vec![Sub { what: "another program", key: other, forge: None }, Sub { what: "a non-program account", key: w.fee_wallet, forge: None }]);
    }
    if let Some((bi, kind, auth)) = vault_kind(e, k) {
        let this_bank = if bi == usize::MAX { e.spare_bank } else if bi >= 1000 { f.banks[bi - 1000].key } else { w.banks[bi].key };
        // the spare bank shares bank 0's mint: its vaults are the closest possible impostors
        let other_same_group = if this_bank == w.banks[0].key { e.spare_bank } else { w.banks[0].key };
        let mut v = vec![
            Sub { what: "same-kind vault/authority of another bank of the group", key: vault_of(&other_same_group, kind, auth), forge: None },
            Sub { what: "other-kind vault/authority of the same bank", key: vault_of(&this_bank, (kind + 1) % 3, auth), forge: None },
            Sub { what: "same-kind vault/authority of a foreign group's bank", key: vault_of(&f.banks[0].key, kind, auth), forge: None },
        ];
        if !auth {
            v.push(Sub { what: "look-alike token account with identical bytes at another address", key: key("c08:lookalike:vault"), forge: Some(copy_with(a, None, false)) });
        }
        return (if auth { "vault_authority".into() } else { "vault".into() }, v);
    }
    if a.owner == mid && a.data.len() >= 8 {
        let d = &a.data[..8];
        if d == discriminators::GROUP {
            return ("group".into(), vec![Sub { what: "the foreign group", key: f.group, forge: None }, Sub { what: "same bytes, wrong owner program", key: key("c08:wrongowner:group"), forge: Some(copy_with(a, Some(spl_token::id()), false)) }]);
        }
        if d == discriminators::BANK {
            let fb = if *k == w.banks[1].key { f.banks[1].key } else { f.banks[0].key };
            return (
                "bank".into(),
                vec![
                    Sub { what: "a bank of the foreign group", key: fb, forge: None },
                    Sub { what: "a bank of the foreign group with all its vaults, authorities and oracle", key: fb, forge: None },
                    Sub { what: "same bytes, wrong owner program", key: key("c08:wrongowner:bank"), forge: Some(copy_with(a, Some(solana_program::system_program::id()), false)) },
                    Sub { what: "same bytes, wrong discriminator", key: key("c08:wrongdisc:bank"), forge: Some(copy_with(a, None, true)) },
                ],
            );
        }
        if d == discriminators::ACCOUNT {
            return (
                "marginfi_account".into(),
                vec![
                    Sub { what: "an account of the foreign group with the same authority", key: key("FG:acct:shared"), forge: None },
                    Sub { what: "another user's account of the same group", key: if *k == w.users[1].account { w.users[0].account } else { w.users[1].account }, forge: None },
                    Sub { what: "same bytes, wrong owner program", key: key("c08:wrongowner:acct"), forge: Some(copy_with(a, Some(spl_token::id()), false)) },
                    Sub { what: "same bytes, wrong discriminator", key: key("c08:wrongdisc:acct"), forge: Some(copy_with(a, None, true)) },
                ],
            );
        }
        if d == discriminators::FEE_STATE {
            return ("fee_state".into(), vec![Sub { what: "look-alike fee state with identical bytes at another address", key: key("c08:lookalike:feestate"), forge: Some(copy_with(a, None, false)) }, Sub { what: "same bytes, wrong owner program", key: key("c08:wrongowner:feestate"), forge: Some(copy_with(a, Some(spl_token::id()), false)) }]);
        }
        if d == discriminators::STAKED_SETTINGS {
            return ("staked_settings".into(), vec![Sub { what: "the foreign group's staked settings", key: ix::staked_settings_key(&f.group), forge: None }]);
        }
        if d == discriminators::LIQUIDATION_RECORD {
            let other = if *k == ix::liq_record_key(&w.users[0].account) { ix::liq_record_key(&w.users[1].account) } else { ix::liq_record_key(&w.users[0].account) };
            return ("liquidation_record".into(), vec![Sub { what: "another account's liquidation record", key: other, forge: None }, Sub { what: "a foreign group's account's record", key: ix::liq_record_key(&f.users[0].account), forge: None }]);
        }
        if *k == ix::metadata_key(&w.banks[0].key) {
            return ("bank_metadata".into(), vec![Sub { what: "the foreign bank's metadata", key: ix::metadata_key(&f.banks[0].key), forge: None }]);
        }
        return ("other_program_account".into(), vec![]);
    }
    if a.owner == pyth_solana_receiver_sdk::id() || a.owner == marginfi::constants::SWITCHBOARD_PULL_ID {
        let other = if Some(*k) == w.banks[0].oracle { w.banks[1].oracle.unwrap() } else { w.banks[0].oracle.unwrap() };
        let mut cheap = a.clone();
        cheap.digest = Default::default();
        return ("oracle".into(), vec![Sub { what: "another bank's oracle", key: other, forge: None }, Sub { what: "look-alike oracle with identical bytes at another address", key: key("c08:lookalike:oracle"), forge: Some(cheap) }, Sub { what: "same bytes, wrong owner program", key: key("c08:wrongowner:oracle"), forge: Some(copy_with(a, Some(marginfi::ID), false)) }]);
    }
    if a.owner == spl_token::id() || a.owner == spl_token_2022::id() {
        if a.data.len() == 82 || (a.data.len() > 165 && a.data[165] == 1) {
            let other = if *k == w.banks[0].mint { w.banks[1].mint } else { w.banks[0].mint };
            return ("mint".into(), vec![Sub { what: "another mint", key: other, forge: None }]);
        }
        if *k == ix::emissions_vault(&w.banks[0].key, &e.em_mint) {
            return ("emissions_vault".into(), vec![Sub { what: "the foreign bank's emissions vault", key: ix::emissions_vault(&f.banks[0].key, &e.em_mint), forge: None }, Sub { what: "look-alike at another address", key: key("c08:lookalike:emvault"), forge: Some(copy_with(a, None, false)) }]);
        }
        if *k == e.fees_dest || *k == e.em_dest_u0 {
            return ("fixed_destination".into(), vec![Sub { what: "another token account of the same mint", key: if *k == e.fees_dest { w.users[1].tokens[&w.banks[0].mint] } else { e.em_funding }, forge: None }]);
        }
        if *k == w.banks[0].fee_ata {
            return ("global_fee_ata".into(), vec![Sub { what: "another token account of the same mint (not the canonical fee-wallet ATA)", key: w.users[1].tokens[&w.banks[0].mint], forge: None }]);
        }
        return ("user_token_account(unprotected)".into(), vec![]);
    }
    if *k == w.fee_wallet {
        return ("global_fee_wallet".into(), vec![Sub { what: "another wallet", key: act::stranger(), forge: None }]);
    }
    if *k == ix::emissions_auth(&w.banks[0].key, &e.em_mint) {
        return ("emissions_authority".into(), vec![Sub { what: "the foreign bank's emissions authority", key: ix::emissions_auth(&f.banks[0].key, &e.em_mint), forge: None }]);
    }
    ("wallet(unprotected)".into(), vec![])
}

pub fn run(_tier: Tier) -> Outcome {
    let e = golden::build_env();
    let gs = golden::goldens();
    let mut st = Stats { cells: 0, classes: BTreeMap::new(), found: vec![], not_exercised: vec![], unprotected: BTreeMap::new(), samples: vec![], ignored: vec![] };
    let signers = signer_menu(&e);
    for g in &gs {
        let s0 = (g.prep)(&e);
        let gk = golden::role_key(&e, g.role);
        let gtx = (g.make)(&e, &s0, gk);
        let (ok, code) = run_tx(&s0, &gtx);
        st.cells += 1;
        if !ok {
            st.not_exercised.push(format!("{} (golden call failed with {})", g.name, crate::svm::err_name(code)));
            continue;
        }
        *st.classes.entry(format!("golden_ok:{:?}", g.role).split('(').next().unwrap().to_string()).or_insert(0) += 1;
        let golden_post_key = {
            let mut t = s0.clone();
            process_tx(&mut t, &gtx);
            crate::canon::state_key(&t, &[])
        };
        // ---- signer matrix (normal account state)
        for (sname, sg) in &signers {
            let tx = (g.make)(&e, &s0, *sg);
            let (ok, code) = run_tx(&s0, &tx);
            st.cells += 1;
            let inside = entitled(&e, g.role, sg);
            *st.classes.entry(format!("signer:{}:{}", if inside { "entitled" } else { "not_entitled" }, if ok { "ok" } else { "refused" })).or_insert(0) += 1;
            if !inside && ok {
                st.found.push(Found {
                    clause: "C08.signer_not_entitled".into(),
                    sig: format!("{}:{}", g.name, sname),
                    detail: format!("{} succeeded when signed by {} (entitled: {:?})", g.name, sname, g.role),
                    replay: json!({"model": "C08", "golden": g.name, "signer": sname, "state": "Normal"}),
                });
            }
            let _ = code;
        }
        // ---- account-state matrix for instructions that act on a user account
        if let (Kind::User { .. }, Some(u)) = (g.kind, g.subject) {
            for stt in [AState::Frozen, AState::Receivership, AState::Flashloan, AState::Disabled] {
                let mut s1 = s0.clone();
                apply_state(&e, &mut s1, u, stt);
                for (sname, sg) in &signers {
                    let tx = (g.make)(&e, &s1, *sg);
                    let (ok, _) = run_tx(&s1, &tx);
                    st.cells += 1;
                    let inside = allowed_in_state(&e, g, stt, sg);
                    *st.classes.entry(format!("state:{:?}:{}:{}", stt, if inside { "allowed" } else { "not_allowed" }, if ok { "ok" } else { "refused" })).or_insert(0) += 1;
                    if !inside && ok {
                        st.found.push(Found {
                            clause: "C08.signer_not_entitled".into(),
                            sig: format!("{}:{}:{:?}", g.name, sname, stt),
                            detail: format!("{} on a {:?} account succeeded when signed by {}", g.name, stt, sname),
                            replay: json!({"model": "C08", "golden": g.name, "signer": sname, "state": format!("{:?}", stt)}),
                        });
                    }
                }
            }
        }
        // ---- substitution matrix
        for (ii, i) in gtx.ixs.iter().enumerate() {
            if i.program_id != marginfi::ID {
                continue;
            }
            for j in 0..i.accounts.len() {
                let k = i.accounts[j].pubkey;
                if gtx.signers.contains(&k) {
                    continue;
                }
                // the same key at an earlier slot of this instruction was already substituted there
                let (class, subs) = substitutes(&e, &s0, &k);
                if subs.is_empty() {
                    *st.unprotected.entry(class).or_insert(0) += 1;
                    continue;
                }
                for sub in subs {
                    if sub.key == k {
                        continue;
                    }
                    let mut s1 = s0.clone();
                    if let Some(a) = &sub.forge {
                        s1.set(sub.key, a.clone());
                    }
                    let mut tx = gtx.clone();
                    tx.ixs[ii].accounts[j].pubkey = sub.key;
                    if sub.what.contains("with all its vaults") {
                        // cooperating substitution: the foreign bank comes with its own vaults,
                        // authorities and oracle, so that only the group / account link is wrong
                        let fb = sub.key;
                        for m in tx.ixs[ii].accounts.iter_mut() {
                            if let Some((bi, kind, auth)) = vault_kind(&e, &m.pubkey) {
                                if bi < 1000 && bi != usize::MAX && e.w.banks[bi].key == k {
                                    m.pubkey = vault_of(&fb, kind, auth);
                                }
                            }
                            if Some(m.pubkey) == e.w.bank_by_key(&k).and_then(|b| b.oracle) {
                                m.pubkey = world::bank(&s1, &fb).config.oracle_keys[0];
                            }
                        }
                    }
                    // a fixed destination is protected only where no entitled signer chooses it
                    let free_choice = class == "fixed_destination" && g.role != Role::Anyone;
                    let must_reject = !free_choice && (sub.always_illegitimate() || !consistent(&e, &s1, &tx.ixs[ii]));
                    let mut t = s1.clone();
                    let r = process_tx(&mut t, &tx);
                    let ok = r.ok();
                    st.cells += 1;
                    if !must_reject {
                        *st.classes.entry(format!("substitute:{}:consistent_alternative_call:{}", class, if ok { "ok" } else { "refused" })).or_insert(0) += 1;
                        continue;
                    }
                    if ok && crate::canon::state_key(&t, &[]) == crate::canon::state_key(&s1, &[]) {
                        // accepted without any observable effect (only write-only diagnostic caches changed)
                        *st.classes.entry(format!("substitute:{}:accepted_without_effect", class)).or_insert(0) += 1;
                        continue;
                    }
                    if ok && sub.forge.is_none() && crate::canon::state_key(&t, &[]) == golden_post_key {
                        // the program never looks at this slot: the outcome is bit-identical to the golden call
                        *st.classes.entry(format!("substitute:{}:slot_ignored_by_program", class)).or_insert(0) += 1;
                        st.ignored.push(format!("{} ix#{} slot {} ({}): {}", g.name, ii, j, class, sub.what));
                        continue;
                    }
                    if ok && sub.forge.is_some() {
                        let mut t2 = t.clone();
                        t2.accts.remove(&sub.key);
                        let mut gp = s0.clone();
                        process_tx(&mut gp, &gtx);
                        if crate::canon::state_key(&t2, &[]) == crate::canon::state_key(&gp, &[]) {
                            *st.classes.entry(format!("substitute:{}:slot_ignored_by_program", class)).or_insert(0) += 1;
                            continue;
                        }
                    }
                    *st.classes.entry(format!("substitute:{}:{}", class, if ok { "ACCEPTED" } else { "refused" })).or_insert(0) += 1;
                    if ok {
                        st.found.push(Found {
                            clause: "C08.substitution_rejected".into(),
                            sig: format!("{}:slot{}:{}", g.name, j, class),
                            detail: format!("{} (instruction #{ii}) accepted {} in account slot {} ({})", g.name, sub.what, j, class),
                            replay: json!({"model": "C08sub", "golden": g.name, "ix": ii, "slot": j, "what": sub.what}),
                        });
                    } else if st.samples.len() < 6 && st.cells % 211 == 0 {
                        st.samples.push(json!({"instruction": g.name, "slot": j, "slot_class": class, "substitute": sub.what, "result": "refused"}));
                    }
                }
            }
        }
    }
    let mut o = Outcome { level: "exploration".into(), ..Default::default() };
    o.found = st.found;
    if gs.len() - st.not_exercised.len() < 30 {
        o.machinery.push(format!("vacuity guard: only {} golden calls succeeded: {:?}", gs.len() - st.not_exercised.len(), st.not_exercised));
    }
    let refused: u64 = st.classes.iter().filter(|(k, _)| k.ends_with("refused")).map(|(_, v)| *v).sum();
    if st.samples.is_empty() {
        st.samples.push(json!({"note": "see outcome classes"}));
    }
    o.coverage = json!({
        "evaluations": st.cells,
        "distinct_nontrivial": refused,
        "rule": "for each instruction a golden call (asserted to succeed from its prepared state); then every cell of instruction x 12 signer identities, every cell of (balance-changing instruction) x {frozen, in-receivership, in-flash-loan, disabled} x 12 signers, and every cell of instruction x account slot x substitute (foreign group's group/bank/account/staked settings, another bank's vaults / authorities / oracle, other-kind vault, look-alike PDA with identical bytes, wrong owner program, wrong discriminator, another program, another mint); a cell outside the role table of the statement must be refused; distinct_nontrivial = refused cells",
        "instructions": gs.len(),
        "golden_calls_not_exercised": st.not_exercised,
        "slots_unprotected_by_rule": st.unprotected,
        "slots_ignored_by_program": st.ignored,
        "exhaustive": true,
        "outcome_classes": st.classes,
        "samples": st.samples,
    });
    o.assumptions = vec![
        "environment model E1 (svm-lite); failed transactions leave the store untouched by construction (atomic commit)".into(),
        "account states frozen / receivership / flash-loan / disabled are forged flag bits on the subject account".into(),
        "slots classified unprotected by rule: token accounts chosen by the signer, plain wallets (fee payer, new authority, destination wallet); integration-venue instructions are outside E1".into(),
    ];
    o
}

pub fn replay(v: &serde_json::Value) -> Vec<crate::mc::Violation> {
    // re-run the whole matrix and return the findings of the same golden
    let o = run(Tier::Quick);
    let g = v["golden"].as_str().unwrap_or("");
    o.found.into_iter().filter(|f| f.sig.starts_with(g)).map(|f| crate::mc::Violation { clause: f.clause, detail: f.detail }).collect()
}
