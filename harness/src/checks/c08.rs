//! C08 — authorisation: the complete (instruction x signer identity x account state) matrix and the
//! complete (instruction x account slot x substitute) matrix through the real entrypoint.

use super::Tier;
use crate::act;
use crate::evidence::{Found, Outcome};
use crate::golden::{self, Env, Golden, Kind, Role};
use crate::ix;
use crate::svm::{process_tx, Acct, Store, Tx};
use crate::world::{self, key};
use marginfi_type_crate::constants::discriminators;
use marginfi_type_crate::types::{ACCOUNT_DISABLED, ACCOUNT_FROZEN, ACCOUNT_IN_FLASHLOAN, ACCOUNT_IN_RECEIVERSHIP};
use serde_json::json;
use solana_program::pubkey::Pubkey;
use std::collections::BTreeMap;

pub fn signer_menu(e: &Env) -> Vec<(&'static str, Pubkey)> {
    let w = &e.w;
    vec![
        ("authority_u0", w.users[0].authority),
        ("authority_u1", w.users[1].authority),
        ("stranger", act::stranger()),
        ("group_admin", w.roles.admin),
        ("emode_admin", w.roles.emode),
        ("curve_admin", w.roles.curve),
        ("limit_admin", w.roles.limit),
        ("emissions_admin", w.roles.emissions),
        ("metadata_admin", w.roles.metadata),
        ("risk_admin", w.roles.risk),
        ("global_fee_admin", w.fee_admin),
        ("foreign_group_admin", e.f.roles.admin),
    ]
}

fn entitled(e: &Env, role: Role, sg: &Pubkey) -> bool {
    let w = &e.w;
    match role {
        Role::Authority(u) => *sg == w.users[u].authority,
        Role::GroupAdmin => *sg == w.roles.admin,
        Role::Emode => *sg == w.roles.emode,
        Role::Curve => *sg == w.roles.curve,
        Role::Limit => *sg == w.roles.limit,
        Role::Emissions => *sg == w.roles.emissions,
        Role::Metadata => *sg == w.roles.metadata,
        Role::Risk => *sg == w.roles.risk,
        Role::FeeAdmin => *sg == w.fee_admin,
        Role::AdminOrRisk => *sg == w.roles.admin || *sg == w.roles.risk,
        Role::AdminOrEmode => *sg == w.roles.admin || *sg == w.roles.emode,
        Role::Anyone => true,
    }
}

#[derive(Clone, Copy, Debug, PartialEq, Eq)]
enum AState {
    Normal,
    Frozen,
    Receivership,
    Flashloan,
    Disabled,
}

fn apply_state(e: &Env, s: &mut Store, u: usize, st: AState) {
    let flag = match st {
        AState::Normal => 0,
        AState::Frozen => ACCOUNT_FROZEN,
        AState::Receivership => ACCOUNT_IN_RECEIVERSHIP,
        AState::Flashloan => ACCOUNT_IN_FLASHLOAN,
        AState::Disabled => ACCOUNT_DISABLED,
    };
    world::edit_account(s, &e.w.users[u].account, |a| a.account_flags |= flag);
}

/// who may act per the statement in this account state
fn allowed_in_state(e: &Env, g: &Golden, st: AState, sg: &Pubkey) -> bool {
    match (g.kind, st) {
        (Kind::User { .. }, AState::Frozen) => entitled(e, g.role, sg) || *sg == e.w.roles.admin,
        (Kind::User { receivership_ok: true }, AState::Receivership) => true,
        _ => entitled(e, g.role, sg),
    }
}

struct Stats {
    cells: u64,
    classes: BTreeMap<String, u64>,
    found: Vec<Found>,
    not_exercised: Vec<String>,
    unprotected: BTreeMap<String, u64>,
    samples: Vec<serde_json::Value>,
    ignored: Vec<String>,
}

fn run_tx(s: &Store, tx: &Tx) -> (bool, u64) {
    let mut t = s.clone();
    let r = process_tx(&mut t, tx);
    (r.ok(), r.code())
}

// ---- substitution

#[derive(Clone, Debug)]
struct Sub {
    what: &'static str,
    key: Pubkey,
    /// extra account to add to the store for this substitute (look-alikes, wrong-owner copies)
    forge: Option<Acct>,
}

impl Sub {
    /// substitutes that can never be part of a legitimate call: forged copies, wrong-kind vaults,
    /// wrong programs. Every other substitute must be rejected exactly when it makes the
    /// instruction's accounts inconsistent (belonging to different groups / banks).
    fn always_illegitimate(&self) -> bool {
        (self.forge.is_some() && !self.what.starts_with("look-alike mint")) || self.what.starts_with("other-kind") || self.what.contains("program") || self.what == "another wallet" || self.what.contains("not the canonical")
    }
}

/// Do the accounts of this instruction belong together? (reference semantics of "belongs to another
/// group, bank or program", evaluated on the store)
fn consistent(e: &Env, s: &Store, i: &crate::svm::Ix) -> bool {
    use std::collections::BTreeSet;
    let mut groups: BTreeSet<Pubkey> = BTreeSet::new();
    let mut banks: BTreeSet<Pubkey> = BTreeSet::new();
    let mut accounts: BTreeSet<Pubkey> = BTreeSet::new();
    let mid = marginfi::ID;
    for m in &i.accounts {
        let Some(a) = s.get(&m.pubkey) else { continue };
        if a.owner != mid || a.data.len() < 8 {
            continue;
        }
        let d = &a.data[..8];
        if d == discriminators::GROUP {
            groups.insert(m.pubkey);
        } else if d == discriminators::BANK {
            banks.insert(m.pubkey);
            groups.insert(world::bank(s, &m.pubkey).group);
        } else if d == discriminators::ACCOUNT {
            accounts.insert(m.pubkey);
            groups.insert(world::account(s, &m.pubkey).group);
        } else if d == discriminators::STAKED_SETTINGS {
            let ss: marginfi_type_crate::types::StakedSettings = world::read_pod(&a.data);
            groups.insert(ss.marginfi_group);
        }
    }
    if groups.len() > 1 {
        return false;
    }
    for m in &i.accounts {
        let k = m.pubkey;
        if let Some((bi, _, _)) = vault_kind(e, &k) {
            let bk = if bi == usize::MAX { e.spare_bank } else if bi >= 1000 { e.f.banks[bi - 1000].key } else { e.w.banks[bi].key };
            if !banks.contains(&bk) {
                return false;
            }
        }
        let Some(a) = s.get(&k) else { continue };
        if a.owner == pyth_solana_receiver_sdk::id() || a.owner == marginfi::constants::SWITCHBOARD_PULL_ID {
            if !banks.iter().any(|b| world::bank(s, b).config.oracle_keys[0] == k) {
                return false;
            }
        }
        if a.owner == mid && a.data.len() >= 8 && a.data[..8] == discriminators::LIQUIDATION_RECORD {
            let r = world::liq_record(s, &k);
            if !accounts.contains(&r.marginfi_account) {
                return false;
            }
        }
        if (a.owner == spl_token::id() || a.owner == spl_token_2022::id()) && (a.data.len() == 82 || (a.data.len() > 165 && a.data[165] == 1)) && !banks.is_empty() {
            if !banks.iter().any(|b| {
                let bb = world::bank(s, b);
                bb.mint == k || bb.emissions_mint == k
            }) {
                return false;
            }
        }
        if k == ix::emissions_vault(&e.f.banks[0].key, &e.em_mint) || k == ix::emissions_auth(&e.f.banks[0].key, &e.em_mint) {
            if !banks.contains(&e.f.banks[0].key) {
                return false;
            }
        }
        if k == ix::metadata_key(&e.f.banks[0].key) && !banks.contains(&e.f.banks[0].key) {
            return false;
        }
    }
    true
}

/// Cooperating substitution of a marginfi account: the substitute `na` (already placed in its slot) gets the risk
/// accounts a client would pass for it - one (bank, oracle) group per active position and one per bank named in the
/// instruction's own slots, sorted by bank key, descending.
fn account_bundle(s: &Store, i: &mut crate::svm::Ix, na: &Pubkey) {
    use solana_program::instruction::AccountMeta;
    let is_bank = |p: &Pubkey| s.get(p).map(|a| a.owner == marginfi::ID && a.data.len() >= 8 && a.data[..8] == discriminators::BANK).unwrap_or(false);
    let last_prog = i.accounts.iter().rposition(|m| s.get(&m.pubkey).map(|a| a.executable).unwrap_or(false) || m.pubkey == solana_program::sysvar::instructions::id());
    let from = last_prog.map(|x| x + 1).unwrap_or(0);
    let t0 = (from..i.accounts.len()).find(|&x| is_bank(&i.accounts[x].pubkey)).unwrap_or(i.accounts.len());
    i.accounts.truncate(t0);
    let Some(acc) = world::try_account(s, na) else { return };
    let mut banks: Vec<Pubkey> = acc.lending_account.balances.iter().filter(|b| b.is_active()).map(|b| b.bank_pk).collect();
    for m in i.accounts.iter() {
        if is_bank(&m.pubkey) && !banks.contains(&m.pubkey) {
            banks.push(m.pubkey);
        }
    }
    banks.sort_by(|a, b| b.cmp(a));
    for b in banks {
        let bb = world::bank(s, &b);
        i.accounts.push(AccountMeta::new_readonly(b, false));
        i.accounts.push(AccountMeta::new_readonly(bb.config.oracle_keys[0], false));
    }
}

/// Cooperating substitution of a whole bank: every occurrence of bank `k` in the instruction (main slot and risk
/// accounts) becomes the foreign bank `fb`, together with everything that hangs off it - vaults, vault authorities,
/// oracle, mint - and every token account of `k`'s mint is exchanged for the same wallet's token account of `fb`'s
/// mint. What is left wrong is only the link between the bank and the group / the marginfi account. Modes:
/// 0 = the risk accounts are rewritten in place, 1 = and re-ordered by bank key (descending, as the risk engine expects
/// them), 2 = the risk accounts keep the original bank and list the foreign one in addition, sorted.
fn full_bundle(e: &Env, s: &Store, i: &mut crate::svm::Ix, k: &Pubkey, fb: &Pubkey, mode: u8) {
    use solana_program::instruction::AccountMeta;
    let kb = world::bank(s, k);
    let fbb = world::bank(s, fb);
    let is_bank = |p: &Pubkey| s.get(p).map(|a| a.owner == marginfi::ID && a.data.len() >= 8 && a.data[..8] == discriminators::BANK).unwrap_or(false);
    let swap = |m: &mut AccountMeta| {
        if m.pubkey == *k {
            m.pubkey = *fb;
            return;
        }
        if let Some((bi, kind, auth)) = vault_kind(e, &m.pubkey) {
            if bi < 1000 && bi != usize::MAX && e.w.banks[bi].key == *k {
                m.pubkey = vault_of(fb, kind, auth);
            }
            return;
        }
        if m.pubkey == kb.config.oracle_keys[0] && kb.config.oracle_keys[0] != Pubkey::default() {
            m.pubkey = fbb.config.oracle_keys[0];
            return;
        }
        if m.pubkey == kb.mint {
            m.pubkey = fbb.mint;
            return;
        }
        let Some(a) = s.get(&m.pubkey) else { return };
        if (a.owner == spl_token::id() || a.owner == spl_token_2022::id()) && a.data.len() >= 165 && !(a.data.len() > 165 && a.data[165] == 1) && world::token_mint(s, &m.pubkey) == kb.mint {
            let wallet = world::token_owner(s, &m.pubkey);
            let twin = s.accts.iter().find(|(tk, ta)| (ta.owner == spl_token::id() || ta.owner == spl_token_2022::id()) && ta.data.len() >= 165 && !(ta.data.len() > 165 && ta.data[165] == 1) && world::token_mint(s, tk) == fbb.mint && world::token_owner(s, tk) == wallet && vault_kind(e, tk).is_none());
            if let Some((tk, _)) = twin {
                m.pubkey = *tk;
            }
        }
    };
    // the tail (risk accounts): from the first bank after the last program / sysvar account
    let last_prog = i.accounts.iter().rposition(|m| s.get(&m.pubkey).map(|a| a.executable).unwrap_or(false) || m.pubkey == solana_program::sysvar::instructions::id());
    let from = last_prog.map(|x| x + 1).unwrap_or(0);
    let t0 = (from..i.accounts.len()).find(|&x| is_bank(&i.accounts[x].pubkey)).unwrap_or(i.accounts.len());
    let mut groups: Vec<Vec<AccountMeta>> = vec![];
    for m in i.accounts[t0..].iter().cloned() {
        if is_bank(&m.pubkey) || groups.is_empty() {
            groups.push(vec![m]);
        } else {
            groups.last_mut().unwrap().push(m);
        }
    }
    i.accounts.truncate(t0);
    for m in i.accounts.iter_mut() {
        swap(m);
    }
    if mode == 2 {
        let mut extra: Vec<AccountMeta> = groups.iter().find(|g| g[0].pubkey == *k).cloned().unwrap_or_else(|| vec![AccountMeta::new_readonly(*k, false), AccountMeta::new_readonly(kb.config.oracle_keys[0], false)]);
        for m in extra.iter_mut() {
            swap(m);
        }
        if !groups.iter().any(|g| g[0].pubkey == *fb) {
            groups.push(extra);
        }
    } else {
        for g in groups.iter_mut() {
            for m in g.iter_mut() {
                swap(m);
            }
        }
    }
    if mode >= 1 {
        groups.sort_by(|a, b| b[0].pubkey.cmp(&a[0].pubkey));
    }
    for g in groups {
        i.accounts.extend(g);
    }
}

fn copy_with(a: &Acct, owner: Option<Pubkey>, bad_disc: bool) -> Acct {
    let mut c = a.clone();
    c.digest = Default::default();
    if let Some(o) = owner {
        c.owner = o;
    }
    if bad_disc && c.data.len() >= 8 {
        c.data[0] ^= 0xFF;
    }
    c
}

fn vault_kind(e: &Env, k: &Pubkey) -> Option<(usize, u8, bool)> {
    // (bank index incl. spare as usize::MAX, kind 0 liq / 1 ins / 2 fee, is authority)
    let mut banks: Vec<(usize, Pubkey)> = e.w.banks.iter().enumerate().map(|(i, b)| (i, b.key)).collect();
    banks.push((usize::MAX, e.spare_bank));
    for (i, b) in e.f.banks.iter().enumerate() {
        banks.push((1000 + i, b.key));
    }
    for (i, b) in banks {
        let ks = [ix::liquidity_vault(&b).0, ix::insurance_vault(&b).0, ix::fee_vault(&b).0];
        let au = [ix::liquidity_vault_auth(&b).0, ix::insurance_vault_auth(&b).0, ix::fee_vault_auth(&b).0];
        for kind in 0..3 {
            if ks[kind] == *k {
                return Some((i, kind as u8, false));
            }
            if au[kind] == *k {
                return Some((i, kind as u8, true));
            }
        }
    }
    None
}

fn vault_of(bank: &Pubkey, kind: u8, auth: bool) -> Pubkey {
    match (kind, auth) {
        (0, false) => ix::liquidity_vault(bank).0,
        (1, false) => ix::insurance_vault(bank).0,
        (2, false) => ix::fee_vault(bank).0,
        (0, true) => ix::liquidity_vault_auth(bank).0,
        (1, true) => ix::insurance_vault_auth(bank).0,
        _ => ix::fee_vault_auth(bank).0,
    }
}

fn substitutes(e: &Env, s: &Store, k: &Pubkey) -> (String, Vec<Sub>) {
    let w = &e.w;
    let f = &e.f;
    let Some(a) = s.get(k) else {
        // not-yet-existing accounts (to be created) and plain wallets
        if let Some((bi, kind, auth)) = vault_kind(e, k) {
            let _ = (bi, kind, auth);
        }
        return ("absent".into(), vec![]);
    };
    let mid = marginfi::ID;
    if a.executable || *k == solana_program::sysvar::instructions::id() {
        let other = if *k == solana_program::system_program::id() { spl_token::id() } else { solana_program::system_program::id() };
        return ("program_or_sysvar".into(), vec![Sub { what: "another program", key: other, forge: None }, Sub { what: "a non-program account", key: w.fee_wallet, forge: None }]);
    }
    if let Some((bi, kind, auth)) = vault_kind(e, k) {
        let this_bank = if bi == usize::MAX { e.spare_bank } else if bi >= 1000 { f.banks[bi - 1000].key } else { w.banks[bi].key };
        // the spare bank shares bank 0's mint: its vaults are the closest possible impostors
        let other_same_group = if this_bank == w.banks[0].key { e.spare_bank } else { w.banks[0].key };
        let mut v = vec![
            Sub { what: "same-kind vault/authority of another bank of the group", key: vault_of(&other_same_group, kind, auth), forge: None },
            Sub { what: "other-kind vault/authority of the same bank", key: vault_of(&this_bank, (kind + 1) % 3, auth), forge: None },
            Sub { what: "same-kind vault/authority of a foreign group's bank", key: vault_of(&f.banks[0].key, kind, auth), forge: None },
        ];
        if !auth {
            v.push(Sub { what: "look-alike token account with identical bytes at another address", key: key("c08:lookalike:vault"), forge: Some(copy_with(a, None, false)) });
        }
        return (if auth { "vault_authority".into() } else { "vault".into() }, v);
    }
    if a.owner == mid && a.data.len() >= 8 {
        let d = &a.data[..8];
        if d == discriminators::GROUP {
            return ("group".into(), vec![Sub { what: "the foreign group", key: f.group, forge: None }, Sub { what: "same bytes, wrong owner program", key: key("c08:wrongowner:group"), forge: Some(copy_with(a, Some(spl_token::id()), false)) }]);
        }
        if d == discriminators::BANK {
            let fb = if *k == w.banks[1].key { f.banks[1].key } else { f.banks[0].key };
            return (
                "bank".into(),
                vec![
                    Sub { what: "a bank of the foreign group", key: fb, forge: None },
                    Sub { what: "a bank of the foreign group with all its vaults, authorities and oracle", key: fb, forge: None },
                    Sub { what: "full bundle: a bank of the foreign group in every place the bank is named, with its vaults, authorities, oracle, mint and the same wallets' token accounts of that mint", key: fb, forge: None },
                    Sub { what: "full bundle, risk accounts re-sorted by bank key: a bank of the foreign group in every place the bank is named, with its vaults, authorities, oracle, mint and the same wallets' token accounts of that mint", key: fb, forge: None },
                    Sub { what: "full bundle, added to the risk accounts: a bank of the foreign group in the instruction's bank slot, with its vaults, authorities, oracle, mint and the same wallets' token accounts of that mint; the risk accounts keep the original bank and list the foreign one as well, sorted by bank key", key: fb, forge: None },
                    Sub { what: "same bytes, wrong owner program", key: key("c08:wrongowner:bank"), forge: Some(copy_with(a, Some(solana_program::system_program::id()), false)) },
                    Sub { what: "same bytes, wrong discriminator", key: key("c08:wrongdisc:bank"), forge: Some(copy_with(a, None, true)) },
                ],
            );
        }
        if d == discriminators::ACCOUNT {
            return (
                "marginfi_account".into(),
                vec![
                    Sub { what: "an account of the foreign group with the same authority", key: key("FG:acct:shared"), forge: None },
                    Sub { what: "account bundle: an account of the foreign group with the same authority, the risk accounts rebuilt for its positions plus the instruction's banks, sorted by bank key", key: key("FG:acct:shared"), forge: None },
                    Sub { what: "another user's account of the same group", key: if *k == w.users[1].account { w.users[0].account } else { w.users[1].account }, forge: None },
                    Sub { what: "same bytes, wrong owner program", key: key("c08:wrongowner:acct"), forge: Some(copy_with(a, Some(spl_token::id()), false)) },
                    Sub { what: "same bytes, wrong discriminator", key: key("c08:wrongdisc:acct"), forge: Some(copy_with(a, None, true)) },
                ],
            );
        }
        if d == discriminators::FEE_STATE {
            return ("fee_state".into(), vec![Sub { what: "look-alike fee state with identical bytes at another address", key: key("c08:lookalike:feestate"), forge: Some(copy_with(a, None, false)) }, Sub { what: "same bytes, wrong owner program", key: key("c08:wrongowner:feestate"), forge: Some(copy_with(a, Some(spl_token::id()), false)) }]);
        }
        if d == discriminators::STAKED_SETTINGS {
            return ("staked_settings".into(), vec![Sub { what: "the foreign group's staked settings", key: ix::staked_settings_key(&f.group), forge: None }]);
        }
        if d == discriminators::LIQUIDATION_RECORD {
            let other = if *k == ix::liq_record_key(&w.users[0].account) { ix::liq_record_key(&w.users[1].account) } else { ix::liq_record_key(&w.users[0].account) };
            return ("liquidation_record".into(), vec![Sub { what: "another account's liquidation record", key: other, forge: None }, Sub { what: "a foreign group's account's record", key: ix::liq_record_key(&f.users[0].account), forge: None }]);
        }
        if *k == ix::metadata_key(&w.banks[0].key) {
            return ("bank_metadata".into(), vec![Sub { what: "the foreign bank's metadata", key: ix::metadata_key(&f.banks[0].key), forge: None }]);
        }
        return ("other_program_account".into(), vec![]);
    }
    if a.owner == pyth_solana_receiver_sdk::id() || a.owner == marginfi::constants::SWITCHBOARD_PULL_ID {
        let other = if Some(*k) == w.banks[0].oracle { w.banks[1].oracle.unwrap() } else { w.banks[0].oracle.unwrap() };
        let mut cheap = a.clone();
        cheap.digest = Default::default();
        return ("oracle".into(), vec![Sub { what: "another bank's oracle", key: other, forge: None }, Sub { what: "look-alike oracle with identical bytes at another address", key: key("c08:lookalike:oracle"), forge: Some(cheap) }, Sub { what: "same bytes, wrong owner program", key: key("c08:wrongowner:oracle"), forge: Some(copy_with(a, Some(marginfi::ID), false)) }]);
    }
    if a.owner == spl_token::id() || a.owner == spl_token_2022::id() {
        if a.data.len() == 82 || (a.data.len() > 165 && a.data[165] == 1) {
            let other = if *k == w.banks[0].mint { w.banks[1].mint } else { w.banks[0].mint };
            // a look-alike whose supply is a tenth: matters where the mint is an oracle input (staked banks)
            let mut thin = copy_with(a, None, false);
            let sup = u64::from_le_bytes(thin.data[36..44].try_into().unwrap());
            thin.data[36..44].copy_from_slice(&(sup / 10).max(1).to_le_bytes());
            return ("mint".into(), vec![Sub { what: "another mint", key: other, forge: None }, Sub { what: "look-alike mint with a tenth of the supply at another address", key: key("c08:lookalike:mint"), forge: Some(thin) }]);
        }
        if *k == ix::emissions_vault(&w.banks[0].key, &e.em_mint) {
            return ("emissions_vault".into(), vec![Sub { what: "the foreign bank's emissions vault", key: ix::emissions_vault(&f.banks[0].key, &e.em_mint), forge: None }, Sub { what: "look-alike at another address", key: key("c08:lookalike:emvault"), forge: Some(copy_with(a, None, false)) }]);
        }
        if *k == e.fees_dest || *k == e.em_dest_u0 {
            return ("fixed_destination".into(), vec![Sub { what: "another token account of the same mint", key: if *k == e.fees_dest { w.users[1].tokens[&w.banks[0].mint] } else { e.em_funding }, forge: None }]);
        }
        let live_wallet = world::fee_state(s).global_fee_wallet;
        if *k == w.banks[0].fee_ata || *k == world::ata(&live_wallet, &w.banks[0].mint, &w.banks[0].token_program) {
            let mut v = vec![Sub { what: "another token account of the same mint (not the canonical fee-wallet ATA)", key: w.users[1].tokens[&w.banks[0].mint], forge: None }];
            if *k != w.banks[0].fee_ata {
                // the global fee admin has rotated the wallet: the previous wallet's token account is no longer canonical
                v.push(Sub { what: "the previous fee wallet's token account (not the canonical fee-wallet ATA any more)", key: w.banks[0].fee_ata, forge: None });
            }
            return ("global_fee_ata".into(), v);
        }
        return ("user_token_account(unprotected)".into(), vec![]);
    }
    if a.owner == marginfi::constants::NATIVE_STAKE_ID {
        // a delegated stake account of somebody else's making: ten times the stake
        let mut fat = copy_with(a, None, false);
        let off = 4 + 120 + 32;
        let st = u64::from_le_bytes(fat.data[off..off + 8].try_into().unwrap());
        fat.data[off..off + 8].copy_from_slice(&st.saturating_mul(10).to_le_bytes());
        return ("stake_pool".into(), vec![Sub { what: "a foreign delegated stake account with ten times the stake", key: key("c08:foreign:stakepool"), forge: Some(fat) }, Sub { what: "look-alike stake account with identical bytes at another address", key: key("c08:lookalike:stakepool"), forge: Some(copy_with(a, None, false)) }]);
    }
    if *k == w.fee_wallet {
        return ("global_fee_wallet".into(), vec![Sub { what: "another wallet", key: act::stranger(), forge: None }]);
    }
    if *k == ix::emissions_auth(&w.banks[0].key, &e.em_mint) {
        return ("emissions_authority".into(), vec![Sub { what: "the foreign bank's emissions authority", key: ix::emissions_auth(&f.banks[0].key, &e.em_mint), forge: None }]);
    }
    ("wallet(unprotected)".into(), vec![])
}

pub fn run(_tier: Tier) -> Outcome {
    let e = golden::build_env();
    let gs = golden::goldens();
    let mut st = Stats { cells: 0, classes: BTreeMap::new(), found: vec![], not_exercised: vec![], unprotected: BTreeMap::new(), samples: vec![], ignored: vec![] };
    let signers = signer_menu(&e);
    for g in &gs {
        let s0 = (g.prep)(&e);
        let gk = golden::role_key(&e, g.role);
        let gtx = (g.make)(&e, &s0, gk);
        let (ok, code) = run_tx(&s0, &gtx);
        st.cells += 1;
        if !ok {
            st.not_exercised.push(format!("{} (golden call failed with {})", g.name, crate::svm::err_name(code)));
            continue;
        }
        *st.classes.entry(format!("golden_ok:{:?}", g.role).split('(').next().unwrap().to_string()).or_insert(0) += 1;
        // control over an account never outlives the transaction: no marker may survive a commit
        {
            let mut t = s0.clone();
            process_tx(&mut t, &gtx);
            for (k, a) in t.accts.iter() {
                if a.owner == marginfi::ID && a.data.len() > 8 && a.data[..8] == discriminators::ACCOUNT {
                    let (f0, f1) = (s0.get(k).map(|_| world::account(&s0, k).account_flags).unwrap_or(0), world::account(&t, k).account_flags);
                    let markers = ACCOUNT_IN_RECEIVERSHIP | ACCOUNT_IN_FLASHLOAN | marginfi_type_crate::types::ACCOUNT_IN_DELEVERAGE;
                    if f1 & markers & !f0 != 0 {
                        st.found.push(Found {
                            clause: "C08.control_ends_with_the_transaction".into(),
                            sig: format!("{}:marker", g.name),
                            detail: format!("after the committed {} account {} carries flags {:#b} (third-party control / flash-loan marker survives the transaction)", g.name, world::label_of(k), f1),
                            replay: json!({"model": "C08", "golden": g.name, "signer": "golden", "state": "Normal"}),
                        });
                    }
                }
            }
        }
        let golden_post_key = {
            let mut t = s0.clone();
            process_tx(&mut t, &gtx);
            crate::canon::state_key(&t, &[])
        };
        // ---- signer matrix (normal account state)
        for (sname, sg) in &signers {
            let tx = (g.make)(&e, &s0, *sg);
            let (ok, code) = run_tx(&s0, &tx);
            st.cells += 1;
            let inside = entitled(&e, g.role, sg);
            *st.classes.entry(format!("signer:{}:{}", if inside { "entitled" } else { "not_entitled" }, if ok { "ok" } else { "refused" })).or_insert(0) += 1;
            if !inside && ok {
                st.found.push(Found {
                    clause: "C08.signer_not_entitled".into(),
                    sig: format!("{}:{}", g.name, sname),
                    detail: format!("{} succeeded when signed by {} (entitled: {:?})", g.name, sname, g.role),
                    replay: json!({"model": "C08", "golden": g.name, "signer": sname, "state": "Normal"}),
                });
            }
            let _ = code;
        }
        // ---- the entitled key is named in its account slot but does not sign (a stranger signs and pays)
        if !matches!(g.role, Role::Anyone) {
            let mut tx = gtx.clone();
            // (whether the slot is declared a signer slot is the program's own business: the account metas come
            // from the program's account structs, so a slot that lost its `Signer` type arrives unsigned already)
            let stripped = tx.signers.contains(&gk) && tx.ixs.iter().any(|i| i.accounts.iter().any(|m| m.pubkey == gk));
            for i in tx.ixs.iter_mut() {
                for m in i.accounts.iter_mut() {
                    if m.pubkey == gk {
                        m.is_signer = false;
                    }
                }
            }
            if stripped {
                tx.signers.remove(&gk);
                tx.signers.insert(act::stranger());
                let (ok, _) = run_tx(&s0, &tx);
                st.cells += 1;
                *st.classes.entry(format!("unsigned_role_key:{}", if ok { "ok" } else { "refused" })).or_insert(0) += 1;
                if ok {
                    st.found.push(Found {
                        clause: "C08.signer_not_entitled".into(),
                        sig: format!("{}:unsigned_role_key", g.name),
                        detail: format!("{} succeeded with the {:?} key merely named in its account slot, without that key's signature", g.name, g.role),
                        replay: json!({"model": "C08", "golden": g.name, "signer": "unsigned_role_key", "state": "Normal"}),
                    });
                }
            }
        }
        // ---- account-state matrix for instructions that act on a user account
        if let (Kind::User { .. }, Some(u)) = (g.kind, g.subject) {
            for stt in [AState::Frozen, AState::Receivership, AState::Flashloan, AState::Disabled] {
                let mut s1 = s0.clone();
                apply_state(&e, &mut s1, u, stt);
                for (sname, sg) in &signers {
                    let tx = (g.make)(&e, &s1, *sg);
                    let (ok, _) = run_tx(&s1, &tx);
                    st.cells += 1;
                    let inside = allowed_in_state(&e, g, stt, sg);
                    *st.classes.entry(format!("state:{:?}:{}:{}", stt, if inside { "allowed" } else { "not_allowed" }, if ok { "ok" } else { "refused" })).or_insert(0) += 1;
                    if !inside && ok {
                        st.found.push(Found {
                            clause: "C08.signer_not_entitled".into(),
                            sig: format!("{}:{}:{:?}", g.name, sname, stt),
                            detail: format!("{} on a {:?} account succeeded when signed by {}", g.name, stt, sname),
                            replay: json!({"model": "C08", "golden": g.name, "signer": sname, "state": format!("{:?}", stt)}),
                        });
                    }
                }
            }
        }
        // ---- substitution matrix
        for (ii, i) in gtx.ixs.iter().enumerate() {
            if i.program_id != marginfi::ID {
                continue;
            }
            for j in 0..i.accounts.len() {
                let k = i.accounts[j].pubkey;
                if gtx.signers.contains(&k) {
                    continue;
                }
                // the same key at an earlier slot of this instruction was already substituted there
                let (class, subs) = substitutes(&e, &s0, &k);
                if subs.is_empty() {
                    *st.unprotected.entry(class).or_insert(0) += 1;
                    continue;
                }
                for sub in subs {
                    if sub.key == k {
                        continue;
                    }
                    let mut s1 = s0.clone();
                    if let Some(a) = &sub.forge {
                        s1.set(sub.key, a.clone());
                    }
                    let mut tx = gtx.clone();
                    tx.ixs[ii].accounts[j].pubkey = sub.key;
                    if sub.what.contains("with all its vaults") {
                        // cooperating substitution: the foreign bank comes with its own vaults,
                        // authorities and oracle, so that only the group / account link is wrong
                        let fb = sub.key;
                        for m in tx.ixs[ii].accounts.iter_mut() {
                            if let Some((bi, kind, auth)) = vault_kind(&e, &m.pubkey) {
                                if bi < 1000 && bi != usize::MAX && e.w.banks[bi].key == k {
                                    m.pubkey = vault_of(&fb, kind, auth);
                                }
                            }
                            if Some(m.pubkey) == e.w.bank_by_key(&k).and_then(|b| b.oracle) {
                                m.pubkey = world::bank(&s1, &fb).config.oracle_keys[0];
                            }
                        }
                    }
                    if sub.what.starts_with("account bundle") {
                        account_bundle(&s1, &mut tx.ixs[ii], &sub.key);
                    }
                    if sub.what.starts_with("full bundle") {
                        full_bundle(&e, &s1, &mut tx.ixs[ii], &k, &sub.key, if sub.what.contains("added to the risk accounts") { 2 } else if sub.what.contains("re-sorted") { 1 } else { 0 });
                    }
                    // a fixed destination is protected only where no entitled signer chooses it
                    let free_choice = class == "fixed_destination" && g.role != Role::Anyone;
                    let must_reject = !free_choice && (sub.always_illegitimate() || !consistent(&e, &s1, &tx.ixs[ii]));
                    let mut t = s1.clone();
                    let r = process_tx(&mut t, &tx);
                    let ok = r.ok();
                    st.cells += 1;
                    if std::env::var("VERIF_C08_TRACE").map(|n| n == g.name).unwrap_or(false) {
                        eprintln!("[c08 trace] {} ix#{} slot {} ({}) <- {}: ok={} code={} must_reject={}", g.name, ii, j, class, sub.what, ok, r.code(), must_reject);
                    }
                    if !must_reject {
                        *st.classes.entry(format!("substitute:{}:consistent_alternative_call:{}", class, if ok { "ok" } else { "refused" })).or_insert(0) += 1;
                        continue;
                    }
                    if ok && crate::canon::state_key(&t, &[]) == crate::canon::state_key(&s1, &[]) {
                        // accepted without any observable effect (only write-only diagnostic caches changed)
                        *st.classes.entry(format!("substitute:{}:accepted_without_effect", class)).or_insert(0) += 1;
                        continue;
                    }
                    if ok && sub.forge.is_none() && crate::canon::state_key(&t, &[]) == golden_post_key {
                        // bit-identical to the golden call: either the program never looks at this slot, or the
                        // foreign account happens to hold what the right one holds and was read and accepted.
                        // The same account with its data zeroed tells the two apart.
                        let mut s2 = s1.clone();
                        let mut read = false;
                        if let Some(orig) = s1.get(&sub.key) {
                            let mut blank = orig.clone();
                            blank.digest = Default::default();
                            for b in blank.data.iter_mut() {
                                *b = 0;
                            }
                            s2.set(sub.key, blank);
                            let mut t3 = s2.clone();
                            let r3 = process_tx(&mut t3, &tx);
                            t3.set(sub.key, orig.clone());
                            read = !(r3.ok() && crate::canon::state_key(&t3, &[]) == golden_post_key);
                        }
                        if !read {
                            *st.classes.entry(format!("substitute:{}:slot_ignored_by_program", class)).or_insert(0) += 1;
                            st.ignored.push(format!("{} ix#{} slot {} ({}): {}", g.name, ii, j, class, sub.what));
                            continue;
                        }
                        *st.classes.entry(format!("substitute:{}:read_and_ACCEPTED", class)).or_insert(0) += 1;
                        st.found.push(Found {
                            clause: "C08.substitution_rejected".into(),
                            sig: format!("{}:slot{}:{}", g.name, j, class),
                            detail: format!("{} (instruction #{ii}) accepted {} in account slot {} ({}) with the same outcome as the right account; the program does read this slot (the same substitute with zeroed data changes the result)", g.name, sub.what, j, class),
                            replay: json!({"model": "C08sub", "golden": g.name, "ix": ii, "slot": j, "what": sub.what}),
                        });
                        continue;
                    }
                    if ok && sub.forge.is_some() {
                        let mut t2 = t.clone();
                        t2.accts.remove(&sub.key);
                        let mut gp = s0.clone();
                        process_tx(&mut gp, &gtx);
                        if crate::canon::state_key(&t2, &[]) == crate::canon::state_key(&gp, &[]) {
                            // same outcome as the golden call: is the slot ignored, or was the impostor read and
                            // accepted? Present the same impostor with its data zeroed: a program that never
                            // looks at the slot cannot tell the difference
                            let mut s2 = s1.clone();
                            let mut blank = sub.forge.clone().unwrap();
                            blank.digest = Default::default();
                            for b in blank.data.iter_mut() {
                                *b = 0;
                            }
                            s2.set(sub.key, blank);
                            let mut t3 = s2.clone();
                            let r3 = process_tx(&mut t3, &tx);
                            t3.accts.remove(&sub.key);
                            if r3.ok() && crate::canon::state_key(&t3, &[]) == crate::canon::state_key(&gp, &[]) {
                                *st.classes.entry(format!("substitute:{}:slot_ignored_by_program", class)).or_insert(0) += 1;
                                continue;
                            }
                            *st.classes.entry(format!("substitute:{}:read_and_ACCEPTED", class)).or_insert(0) += 1;
                            st.found.push(Found {
                                clause: "C08.substitution_rejected".into(),
                                sig: format!("{}:slot{}:{}", g.name, j, class),
                                detail: format!("{} (instruction #{ii}) accepted {} in account slot {} ({}); the program does read this slot (the same impostor with zeroed data changes the result)", g.name, sub.what, j, class),
                                replay: json!({"model": "C08sub", "golden": g.name, "ix": ii, "slot": j, "what": sub.what}),
                            });
                            continue;
                        }
                    }
                    *st.classes.entry(format!("substitute:{}:{}", class, if ok { "ACCEPTED" } else { "refused" })).or_insert(0) += 1;
                    if ok {
                        st.found.push(Found {
                            clause: "C08.substitution_rejected".into(),
                            sig: format!("{}:slot{}:{}", g.name, j, class),
                            detail: format!("{} (instruction #{ii}) accepted {} in account slot {} ({})", g.name, sub.what, j, class),
                            replay: json!({"model": "C08sub", "golden": g.name, "ix": ii, "slot": j, "what": sub.what}),
                        });
                    } else if st.samples.len() < 6 && st.cells % 211 == 0 {
                        st.samples.push(json!({"instruction": g.name, "slot": j, "slot_class": class, "substitute": sub.what, "result": "refused"}));
                    }
                }
            }
        }
    }
    // ---- cooperating substitution: the group slot names the foreign group AND the signer is one of
    // the foreign group's role holders (who is, legitimately, admin of *that* group)
    let foreign_signers: Vec<(&str, Pubkey)> = vec![("foreign_group_admin", e.f.roles.admin), ("foreign_risk_admin", e.f.roles.risk), ("foreign_emode_admin", e.f.roles.emode)];
    for g in &gs {
        let s0 = (g.prep)(&e);
        let states: Vec<AState> = if let (Kind::User { .. }, Some(_)) = (g.kind, g.subject) { vec![AState::Normal, AState::Frozen] } else { vec![AState::Normal] };
        for stt in states {
            let mut s1 = s0.clone();
            if let Some(u) = g.subject {
                if stt != AState::Normal {
                    apply_state(&e, &mut s1, u, stt);
                }
            }
            for (sname, sg) in &foreign_signers {
                let mut tx = (g.make)(&e, &s1, *sg);
                let mut has_group = false;
                for i in tx.ixs.iter_mut() {
                    if i.program_id != marginfi::ID {
                        continue;
                    }
                    for m in i.accounts.iter_mut() {
                        if m.pubkey == e.w.group {
                            m.pubkey = e.f.group;
                            has_group = true;
                        }
                    }
                }
                if !has_group || entitled(&e, g.role, sg) {
                    continue;
                }
                let mut t = s1.clone();
                let r = process_tx(&mut t, &tx);
                st.cells += 1;
                let changed = crate::canon::state_key(&t, &[]) != crate::canon::state_key(&s1, &[]);
                *st.classes.entry(format!("foreign_group_and_signer:{:?}:{}", stt, if r.ok() && changed { "ACCEPTED" } else if r.ok() { "accepted_without_effect" } else { "refused" })).or_insert(0) += 1;
                if r.ok() && changed {
                    // legitimate only if nothing of the main group was touched
                    let touched_main = t.accts.iter().any(|(k, a)| {
                        s1.get(k).map(|b| b != &**a).unwrap_or(true) && a.owner == marginfi::ID && a.data.len() > 8 && {
                            let d = &a.data[..8];
                            (d == discriminators::ACCOUNT && world::account(&t, k).group == e.w.group) || (d == discriminators::BANK && world::bank(&t, k).group == e.w.group) || *k == e.w.group
                        }
                    }) || s1.accts.iter().any(|(k, a)| a.owner == marginfi::ID && a.data.len() > 8 && a.data[..8] == discriminators::ACCOUNT && world::account(&s1, k).group == e.w.group && t.get(k).map(|b| &**a != b).unwrap_or(true));
                    if touched_main {
                        st.found.push(Found {
                            clause: "C08.substitution_rejected".into(),
                            sig: format!("{}:foreign_group+{}:{:?}", g.name, sname, stt),
                            detail: format!("{} with the foreign group in the group slot, signed by the {} ({:?} subject account), succeeded and changed accounts of the main group", g.name, sname, stt),
                            replay: json!({"model": "C08coop", "golden": g.name, "signer": sname, "state": format!("{:?}", stt)}),
                        });
                    }
                }
            }
        }
    }
    // ---- role rotation: marginfi_group_configure must install exactly the requested key in exactly
    // the named role, whatever it coincides with; the old holder loses the role's instructions
    {
        let w = &e.w;
        let cur = [w.roles.admin, w.roles.emode, w.roles.curve, w.roles.limit, w.roles.emissions, w.roles.metadata, w.roles.risk];
        let names = ["admin", "emode_admin", "curve_admin", "limit_admin", "emissions_admin", "metadata_admin", "risk_admin"];
        let role_of = [Role::GroupAdmin, Role::Emode, Role::Curve, Role::Limit, Role::Emissions, Role::Metadata, Role::Risk];
        let read = |s: &Store| -> [Pubkey; 7] {
            let g = world::group(s, &w.group);
            [g.admin, g.emode_admin, g.delegate_curve_admin, g.delegate_limit_admin, g.delegate_emissions_admin, g.metadata_admin, g.risk_admin]
        };
        for r in 0..7 {
            let mut values: Vec<(String, Pubkey)> = vec![("a fresh key".into(), key(&format!("c08:rotated:{}", names[r]))), ("the zero key".into(), Pubkey::default())];
            for o in 0..7 {
                if o != r {
                    values.push((format!("the current {}", names[o]), cur[o]));
                }
            }
            // two roles moved to one fresh key in the same call
            for (vname, v) in values {
                for also in [None, Some((r + 1) % 7)] {
                    if r == 0 && v == Pubkey::default() {
                        continue;
                    }
                    let mut want = cur;
                    want[r] = v;
                    if let Some(o) = also {
                        if o == 0 {
                            continue;
                        }
                        want[o] = v;
                    }
                    let roles = ix::GroupRoles { admin: want[0], emode: want[1], curve: want[2], limit: want[3], emissions: want[4], metadata: want[5], risk: want[6] };
                    let mut t = e.s.clone();
                    let res = process_tx(&mut t, &Tx::one(ix::group_configure(w.group, w.roles.admin, &roles, None, None), &[w.roles.admin]));
                    st.cells += 1;
                    if !res.ok() {
                        *st.classes.entry("rotation:refused".into()).or_insert(0) += 1;
                        continue;
                    }
                    *st.classes.entry("rotation:ok".into()).or_insert(0) += 1;
                    let got = read(&t);
                    if got != want {
                        let which: Vec<String> = (0..7).filter(|i| got[*i] != want[*i]).map(|i| format!("{} is {} instead of {}", names[i], world::label_of(&got[i]), world::label_of(&want[i]))).collect();
                        st.found.push(Found {
                            clause: "C08.role_rotation_takes_effect".into(),
                            sig: format!("rotate:{}", names[r]),
                            detail: format!("marginfi_group_configure setting {} to {}{} succeeded but {}", names[r], vname, also.map(|o| format!(" (and {} to the same key)", names[o])).unwrap_or_default(), which.join("; ")),
                            replay: json!({"model": "C08rot", "role": names[r], "value": vname}),
                        });
                        continue;
                    }
                    // behavioural confirmation: the old holder can no longer run the role's instruction
                    if cur[r] != v && r != 0 {
                        if let Some(g) = gs.iter().find(|g| g.role == role_of[r]) {
                            let mut s0 = (g.prep)(&e);
                            let res = process_tx(&mut s0, &Tx::one(ix::group_configure(w.group, w.roles.admin, &roles, None, None), &[w.roles.admin]));
                            if res.ok() {
                                let tx = (g.make)(&e, &s0, cur[r]);
                                let (ok, _) = run_tx(&s0, &tx);
                                st.cells += 1;
                                *st.classes.entry(format!("rotation:old_holder:{}", if ok { "ACCEPTED" } else { "refused" })).or_insert(0) += 1;
                                if ok && !want.iter().enumerate().any(|(i, k)| *k == cur[r] && i == r) && !(want[0] == cur[r]) {
                                    st.found.push(Found {
                                        clause: "C08.role_rotation_takes_effect".into(),
                                        sig: format!("rotate:{}:old_holder", names[r]),
                                        detail: format!("after {} was moved to {}, the previous holder still ran {}", names[r], vname, g.name),
                                        replay: json!({"model": "C08rot", "role": names[r], "value": vname}),
                                    });
                                }
                            }
                        }
                    }
                }
            }
        }
    }
    let mut o = Outcome { level: "exploration".into(), ..Default::default() };
    o.found = st.found;
    if gs.len() - st.not_exercised.len() < 30 {
        o.machinery.push(format!("vacuity guard: only {} golden calls succeeded: {:?}", gs.len() - st.not_exercised.len(), st.not_exercised));
    }
    let refused: u64 = st.classes.iter().filter(|(k, _)| k.ends_with("refused")).map(|(_, v)| *v).sum();
    if st.samples.is_empty() {
        st.samples.push(json!({"note": "see outcome classes"}));
    }
    o.coverage = json!({
        "evaluations": st.cells,
        "distinct_nontrivial": refused,
        "rule": "for each instruction a golden call (asserted to succeed from its prepared state); then every cell of instruction x 12 signer identities, the golden call with the entitled key named but not signing, every cell of (balance-changing instruction) x {frozen, in-receivership, in-flash-loan, disabled} x 12 signers, and every cell of instruction x account slot x substitute (foreign group's group/bank/account/staked settings, another bank's vaults / authorities / oracle, other-kind vault, look-alike PDA with identical bytes, wrong owner program, wrong discriminator, another program, another mint); a cell outside the role table of the statement must be refused; a forged substitute accepted with the golden outcome is re-presented with zeroed data to tell an ignored slot from a read one; plus every instruction x {normal, frozen subject} with the foreign group in the group slot signed by the foreign group's role holders, and marginfi_group_configure rotating each of the seven roles to a fresh key, the zero key and every other role's key (alone and together with a neighbouring role), checked on the stored roles and on the old holder's instruction; distinct_nontrivial = refused cells",
        "instructions": gs.len(),
        "golden_calls": gs.iter().map(|g| g.name).collect::<Vec<_>>(),
        "program_instructions_without_golden_call": instructions_without_golden(&gs),
        "golden_calls_not_exercised": st.not_exercised,
        "slots_unprotected_by_rule": st.unprotected,
        "slots_ignored_by_program": st.ignored,
        "exhaustive": true,
        "outcome_classes": st.classes,
        "samples": st.samples,
    });
    o.assumptions = vec![
        "environment model E1 (svm-lite); failed transactions leave the store untouched by construction (atomic commit)".into(),
        "account states frozen / receivership / flash-loan / disabled are forged flag bits on the subject account".into(),
        "slots classified unprotected by rule: token accounts chosen by the signer, plain wallets (fee payer, new authority, destination wallet); integration-venue instructions are outside E1".into(),
    ];
    o
}

pub fn replay(v: &serde_json::Value) -> Vec<crate::mc::Violation> {
    // re-run the whole matrix and return the findings of the same golden
    let o = run(Tier::Quick);
    let g = v["golden"].as_str().unwrap_or("");
    o.found.into_iter().filter(|f| f.sig.starts_with(g)).map(|f| crate::mc::Violation { clause: f.clause, detail: f.detail }).collect()
}


/// The program's instruction list, read from the source of `#[program] pub mod marginfi` at build time, minus
/// the instructions that occur in some golden call (by full name, or by the short names used inside bracket
/// goldens). What remains is reported in the evidence: instructions the matrix does not drive.
fn instructions_without_golden(gs: &[crate::golden::Golden]) -> Vec<String> {
    const LIB: &str = include_str!("/repo/programs/marginfi/src/lib.rs");
    let body = LIB.split("pub mod marginfi {").nth(1).unwrap_or("");
    let mut all: Vec<String> = vec![];
    for line in body.lines() {
        let t = line.trim_start();
        if let Some(rest) = t.strip_prefix("pub fn ") {
            if let Some(name) = rest.split(|c: char| c == '(' || c == '<').next() {
                all.push(name.trim().to_string());
            }
        }
    }
    let mut driven: std::collections::BTreeSet<String> = Default::default();
    for g in gs {
        for part in g.name.split('+') {
            let p = part.split('(').next().unwrap_or("").trim().to_string();
            for cand in [p.clone(), format!("lending_account_{p}"), format!("lending_pool_{p}")] {
                driven.insert(cand);
            }
        }
    }
    all.into_iter().filter(|n| !driven.contains(n)).collect()
}
