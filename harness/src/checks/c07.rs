//! C07 — bankruptcy: threshold lattice through the real handle_bankruptcy instruction with an exact
//! oracle for eligibility, entitlement, insurance cover, pro-rata socialisation and the kill rule,
//! plus a breadth-first search over the admin alphabet from every killed bank (permanence).

use super::histcommon::*;
use super::Tier;
use crate::act::{self, Action, Signer};
use crate::evidence::{Found, Outcome};
use crate::health::{self, Req};
use crate::ix;
use crate::refmodel::{self as rf, Q};
use crate::svm::{process_tx, Store, Tx};
use crate::world::{self, *};
use fixed::types::I80F48;
use marginfi_type_crate::constants::PERMISSIONLESS_BAD_DEBT_SETTLEMENT_FLAG;
use marginfi_type_crate::types::{BankConfigOpt, BankOperationalState, InterestRateConfigOpt, ACCOUNT_DISABLED, ACCOUNT_IN_FLASHLOAN, ACCOUNT_IN_RECEIVERSHIP};
use num_traits::{Signed, ToPrimitive, Zero};
use serde_json::json;
use std::collections::BTreeMap;

#[derive(Clone, Debug, serde::Serialize, serde::Deserialize)]
pub struct Case {
    pub bank: String,
    /// depositor distribution id
    pub dist: usize,
    /// insurance vault balance (native)
    pub ins: u64,
    /// bad debt in raw 2^-48 native units
    pub debt_raw: String,
    /// liability share value of the bank (raw)
    pub lsv_raw: String,
    pub signer: Signer,
    pub permissionless: bool,
    /// 0 = debt bank, 1 = bank where the account has a deposit, 2 = bank without a position
    pub target: u8,
    /// native units of the $1 collateral token held by the account (assets)
    pub assets: u64,
    pub account_flags: u64,
    /// seconds since the debt bank last accrued when the bankruptcy is handled (0 = up to date)
    #[serde(default)]
    pub stale_s: i64,
    /// the bank holding the account's assets was switched to reduce-only by the admin
    #[serde(default)]
    pub assets_reduce_only: bool,
    /// the bank holding the account's assets caps the value counted for *initial* margin at this many
    /// dollars (0 = no cap); the cap must not shrink the assets in the bankruptcy (equity) test
    #[serde(default)]
    pub assets_init_limit: u64,
    /// the bank holding the account's assets is an isolated-tier bank (weights 0: its deposits back no borrowing)
    #[serde(default)]
    pub assets_isolated: bool,
    /// the entitled key is merely named in the signer slot: a stranger signs and pays for the transaction
    #[serde(default)]
    pub unsigned: bool,
    /// the oracle of the bank holding the account's assets has not been updated for an hour (the debt bank's is fresh)
    #[serde(default)]
    pub assets_oracle_stale: bool,
    /// the account owes a second bank as well (its bad debt there is settled by a separate call)
    #[serde(default)]
    pub second_debt: bool,
    /// the admin switched the *debt* bank to reduce-only before the bankruptcy is handled (a bank being wound down)
    #[serde(default)]
    pub debt_bank_reduce_only: bool,
}

fn bank_spec_by(name: &str) -> BankSpec {
    match name {
        "B6" => spec_b6(),
        "BF100" => spec_bf(100, 5000),
        "BF1" => spec_bf(1, 1),
        "BT" => spec_bt(),
        _ => panic!("bank"),
    }
}

/// total deposits (native) per distribution; chosen small so that bad debt can exceed them
const DISTS: [&[u64]; 4] = [&[5_000], &[2_500, 2_500], &[1, 1_000_000], &[3_000, 1_999, 1]];

pub fn base(bank: &str, dist: usize) -> (World, Store) {
    let mut a = spec_b6();
    a.label = "A".into();
    a.mint = MintSpec::spl("c07a", 6);
    let mut x = spec_b6();
    x.label = "X".into();
    x.mint = MintSpec::spl("c07x", 6);
    let (w, mut s) = build_world(&WorldSpec::new(&format!("C07{bank}{dist}"), vec![bank_spec_by(bank), a, x], &["u0", "d0", "d1", "d2"]));
    for (i, amt) in DISTS[dist].iter().enumerate() {
        let r = act::apply(&w, &mut s, &Action::Deposit { u: 1 + i, b: 0, amt: *amt, up_to_limit: None });
        assert!(r.committed, "depositor deposit failed {:?}", r);
    }
    (w, s)
}

/// forge the bankrupt account's debt (and the matching bank total) and fund the insurance vault
pub fn prepare(w: &World, s0: &Store, c: &Case) -> Store {
    let mut s = s0.clone();
    let debt_raw: i128 = c.debt_raw.parse().unwrap();
    let lsv_raw: i128 = c.lsv_raw.parse().unwrap();
    if c.assets > 0 {
        let r = act::apply(w, &mut s, &Action::Deposit { u: 0, b: 1, amt: c.assets, up_to_limit: None });
        assert!(r.committed);
    }
    if c.debt_bank_reduce_only {
        let r = process_tx(&mut s, &Tx::one(ix::configure_bank(w.group, w.roles.admin, w.banks[0].key, marginfi_type_crate::types::BankConfigOpt { operational_state: Some(BankOperationalState::ReduceOnly), ..Default::default() }), &[w.roles.admin]));
        assert!(r.ok());
    }
    if c.assets_reduce_only {
        let r = process_tx(&mut s, &Tx::one(ix::configure_bank(w.group, w.roles.admin, w.banks[1].key, marginfi_type_crate::types::BankConfigOpt { operational_state: Some(BankOperationalState::ReduceOnly), ..Default::default() }), &[w.roles.admin]));
        assert!(r.ok());
    }
    if c.assets_isolated {
        let r = process_tx(&mut s, &Tx::one(ix::configure_bank(w.group, w.roles.admin, w.banks[1].key, marginfi_type_crate::types::BankConfigOpt { risk_tier: Some(marginfi_type_crate::types::RiskTier::Isolated), asset_weight_init: Some(I80F48::ZERO.into()), asset_weight_maint: Some(I80F48::ZERO.into()), ..Default::default() }), &[w.roles.admin]));
        assert!(r.ok(), "switching the asset bank to the isolated tier failed: {}", crate::svm::err_name(r.code()));
    }
    if c.assets_init_limit > 0 {
        // someone else holds $50,000 in that bank, so that the cap is exceeded many thousand times over
        let r = act::apply(w, &mut s, &Action::Deposit { u: 1, b: 1, amt: 50_000_000_000, up_to_limit: None });
        assert!(r.committed, "large deposit into the asset bank failed: {:?}", r);
        let r = process_tx(&mut s, &Tx::one(ix::configure_bank_limits_only(w.group, w.roles.limit, w.banks[1].key, None, None, Some(c.assets_init_limit)), &[w.roles.limit]));
        assert!(r.ok());
    }
    let lsv = I80F48::from_bits(lsv_raw);
    let shares = I80F48::from_bits(debt_raw) / lsv;
    let bk = w.banks[0].key;
    world::edit_bank(&mut s, &bk, |b| {
        b.liability_share_value = lsv.into();
        b.total_liability_shares = (I80F48::from(b.total_liability_shares) + shares).into();
        b.borrowing_position_count += 1;
        if c.permissionless {
            b.flags |= PERMISSIONLESS_BAD_DEBT_SETTLEMENT_FLAG;
        }
    });
    if debt_raw > 0 {
        world::edit_account(&mut s, &w.users[0].account, |a| {
            // keep balances sorted by bank key (descending), as the program does
            let mut bals: Vec<marginfi_type_crate::types::Balance> = a.lending_account.balances.iter().filter(|b| b.active != 0).cloned().collect();
            let mut nb = marginfi_type_crate::types::Balance::empty_deactivated();
            nb.active = 1;
            nb.bank_pk = bk;
            nb.liability_shares = shares.into();
            nb.last_update = 1_700_000_000;
            bals.push(nb);
            bals.sort_by(|x, y| y.bank_pk.cmp(&x.bank_pk));
            for (i, slot) in a.lending_account.balances.iter_mut().enumerate() {
                *slot = if i < bals.len() { bals[i] } else { marginfi_type_crate::types::Balance::empty_deactivated() };
            }
        });
    }
    if c.second_debt {
        // $3 owed to bank X as well (forged like the main debt, bank total raised to match)
        let bx = w.banks[2].key;
        let sh = I80F48::from_num(3_000_000) / I80F48::from(world::bank(&s, &bx).liability_share_value);
        world::edit_bank(&mut s, &bx, |b| {
            b.total_liability_shares = (I80F48::from(b.total_liability_shares) + sh).into();
            b.borrowing_position_count += 1;
        });
        world::edit_account(&mut s, &w.users[0].account, |a| {
            let mut bals: Vec<marginfi_type_crate::types::Balance> = a.lending_account.balances.iter().filter(|b| b.active != 0).cloned().collect();
            let mut nb = marginfi_type_crate::types::Balance::empty_deactivated();
            nb.active = 1;
            nb.bank_pk = bx;
            nb.liability_shares = sh.into();
            nb.last_update = 1_700_000_000;
            bals.push(nb);
            bals.sort_by(|x, y| y.bank_pk.cmp(&x.bank_pk));
            for (i, slot) in a.lending_account.balances.iter_mut().enumerate() {
                *slot = if i < bals.len() { bals[i] } else { marginfi_type_crate::types::Balance::empty_deactivated() };
            }
        });
    }
    world::edit_account(&mut s, &w.users[0].account, |a| a.account_flags |= c.account_flags);
    if c.ins > 0 {
        mint_to(&mut s, &w.mint_auth, &w.banks[0].mint, &w.banks[0].iv, w.banks[0].t22, c.ins);
    }
    if c.assets_oracle_stale {
        // time passes; every oracle but the asset bank's is cranked
        s.advance(3_600);
        let keep = w.banks[1].oracle.and_then(|o| s.get(&o).cloned());
        refresh_oracles(&mut s, w);
        if let (Some(o), Some(a)) = (w.banks[1].oracle, keep) {
            s.set(o, a);
        }
    }
    // the borrowed tokens are long gone; keep the vault at deposits (irrelevant for this property)
    s
}

fn tx_of(w: &World, s: &Store, c: &Case) -> Tx {
    let signer = act::signer_key(w, &c.signer, Some(0));
    let b = c.target as usize;
    let a = Action::Bankruptcy { signer: c.signer.clone(), u: 0, b };
    let mut i = act::user_ix(w, s, &a, signer).unwrap();
    if c.unsigned {
        for m in i.accounts.iter_mut() {
            if m.pubkey == signer {
                m.is_signer = false;
            }
        }
        return Tx::one(i, &[act::stranger()]);
    }
    Tx::one(i, &[signer])
}

fn sig(c: &Case) -> String {
    if c.assets_isolated {
        return "assets_in_isolated_tier_bank".into();
    }
    if c.unsigned {
        return format!("{:?}:named_not_signing", c.signer);
    }
    if c.assets_oracle_stale {
        return "assets_oracle_stale".into();
    }
    if c.second_debt {
        return format!("second_debt:{:?}", c.signer);
    }
    format!("{}:{:?}:perm{}:target{}:flags{}", c.bank, c.signer, c.permissionless, c.target, c.account_flags)
}

struct Judged {
    class: String,
    found: Vec<Found>,
    killed_state: Option<Store>,
}

fn transfer_fee_cfg(w: &World) -> Option<(u16, u64)> {
    w.mints.get(&w.banks[0].mint).and_then(|m| m.fee)
}

fn fee_of(amount: u64, fee: Option<(u16, u64)>) -> u64 {
    match fee {
        None => 0,
        Some((bps, max)) => (((amount as u128) * (bps as u128) + 9_999) / 10_000).min(max as u128) as u64,
    }
}

pub fn judge(w: &World, s0: &Store, c: &Case) -> Judged {
    let mut pre = prepare(w, s0, c);
    if c.stale_s > 0 {
        pre.advance(c.stale_s);
        refresh_oracles(&mut pre, w);
    }
    let mut post = pre.clone();
    let r = process_tx(&mut post, &tx_of(w, &pre, c));
    // every reference quantity is taken from the pre-state brought up to date by the real accrue
    // instruction: what the account owes and what depositors hold *now*
    let pre_exec = pre.clone();
    if c.stale_s > 0 {
        let ra = act::apply(w, &mut pre, &Action::Accrue { b: 0 });
        assert!(ra.committed, "reference accrual failed: {}", crate::svm::err_name(ra.code));
    }
    let _ = &pre_exec;
    let rep = json!({"model": "C07", "case": c});
    let mut found = vec![];
    let mut fail = |clause: &str, detail: String| found.push(Found { clause: clause.into(), sig: sig(c), detail, replay: rep.clone() });
    let acct = w.users[0].account;
    // the debt as it stands in the forged pre-state (exact product of raw shares and share value)
    let debt: Q = {
        let a = world::account(&pre, &acct);
        let bk = world::bank(&pre, &w.banks[0].key);
        a.lending_account.balances.iter().filter(|b| b.active != 0 && b.bank_pk == w.banks[0].key).map(|b| rf::q(b.liability_shares) * rf::q(bk.liability_share_value)).fold(rf::qzero(), |x, y| x + y)
    };
    if !r.ok() {
        return Judged { class: format!("rejected:{}", crate::svm::err_name(r.code())), found, killed_state: None };
    }
    // the same call with the depositors' liquidity vault / the insurance vault replaced by a depositor's own token
    // account of that mint: the cover would not reach the bank
    if c.ins > 0 && c.target == 0 {
        for kind in [0u8, 1u8] {
            let signer = act::signer_key(w, &c.signer, Some(0));
            let base = Action::Bankruptcy { signer: c.signer.clone(), u: 0, b: 0 };
            if let Some(i) = act::user_ix(w, &pre_exec, &Action::WithVaultSwap { base: Box::new(base), bank: 0, kind }, signer) {
                let mut t = pre_exec.clone();
                if process_tx(&mut t, &Tx::one(i, &[signer])).ok() {
                    let which = if kind == 0 { "liquidity vault" } else { "insurance vault" };
                    fail("C07.insurance_first", format!("bankruptcy accepted with a depositor's own token account in the place of the bank's {which}"));
                }
            }
        }
    }
    // ---- accepted: everything the statement demands
    let eq = health::health(&pre, &acct, Req::Equity).unwrap();
    let tol = eq.allow.clone() + rf::qfrac(1, 1_000_000_000);
    // "unweighted assets": deposits in isolated-tier banks are assets too (the program's equity valuation leaves them out)
    let unweighted = eq.assets.clone() + eq.isolated_unweighted.clone();
    if !(unweighted < eq.liabs.clone() + tol.clone()) || !(unweighted < rf::qfrac(1, 10) + tol.clone()) {
        fail("C07.only_real_bad_debt", format!("bankruptcy accepted with unweighted assets ${:.6}{} and liabilities ${:.6}", rf::qf64(&unweighted), if eq.isolated_unweighted > rf::qzero() { " (held in an isolated-tier bank)" } else { "" }, rf::qf64(&eq.liabs)));
    }
    if c.assets_oracle_stale && c.assets > 0 {
        fail("C07.only_real_bad_debt", format!("bankruptcy accepted although the oracle of the bank holding the account's {} native units of assets is stale: their worth was not established", c.assets));
    }
    let entitled = (matches!(c.signer, Signer::GroupAdmin | Signer::RiskAdmin) && !c.unsigned) || c.permissionless;
    if !entitled {
        fail("C07.signer_entitled", format!("bankruptcy accepted from {:?} on a bank without permissionless settlement", c.signer));
    }
    if c.target != 0 {
        fail("C07.account_owes_in_bank", format!("bankruptcy accepted for target bank #{} where the account has no debt", c.target));
    }
    if c.account_flags & ACCOUNT_IN_FLASHLOAN != 0 || c.account_flags & ACCOUNT_IN_RECEIVERSHIP != 0 {
        fail("C07.not_in_flashloan_or_receivership", format!("bankruptcy accepted on an account with flags {:#b}", c.account_flags));
    }
    if c.target != 0 {
        return Judged { class: "accepted:wrong_target".into(), found, killed_state: None };
    }
    let (n0, n1) = (rf::bank_nums(&pre, &w.banks[0]), rf::bank_nums(&post, &w.banks[0]));
    let fee = transfer_fee_cfg(w);
    // insurance reaches as far as its post-fee balance
    let avail = n0.ins_vault - fee_of(n0.ins_vault, fee);
    let covered = rf::qmin(debt.clone(), rf::qu(avail));
    // the program works on the product truncated to 2^-48: allow two ulps before rounding up
    let covered_up = rf::qceil(&(covered.clone() - rf::ulp() * rf::qi(2))).to_u64().unwrap_or(0);
    let ins_out = n0.ins_vault - n1.ins_vault;
    let liq_in = n1.vault - n0.vault;
    if liq_in < covered_up {
        fail("C07.insurance_first", format!("bad debt {:.6}, insurance {} (usable {}): liquidity vault received only {} (< {})", rf::qf64(&debt), n0.ins_vault, avail, liq_in, covered_up));
    }
    if ins_out < liq_in || ins_out > covered_up + fee_of(covered_up + fee.map(|f| f.1).unwrap_or(0), fee) + 1 {
        fail("C07.insurance_amount", format!("insurance vault paid {} for a cover of {} (liquidity vault received {})", ins_out, covered_up, liq_in));
    }
    let loss = debt.clone() - covered.clone();
    let d0 = n0.deposits();
    let class;
    let edge = rf::ulp() * rf::qi(8) * (rf::qone() + rf::q_raw(n0.a_sh));
    if rf::qabs(&(loss.clone() - d0.clone())) <= edge {
        // within rounding of the kill threshold: either verdict is consistent with the statement
        class = "accepted:at_kill_threshold";
        if n1.op_state == 3 && n1.asv != 0 {
            fail("C07.kill_when_consumed", "bank killed but asset share value is not zero".into());
        }
        if n1.op_state != 3 && n1.asv == 0 && n0.a_sh != 0 {
            fail("C07.kill_when_consumed", format!("the uncovered loss {:.9} wiped the deposits {:.9} out (asset share value is now 0) but the bank state is {} instead of killed", rf::qf64(&loss), rf::qf64(&d0), n1.op_state));
        }
    } else if loss >= d0 {
        class = "accepted:killed";
        if n1.op_state != 3 {
            fail("C07.kill_when_consumed", format!("uncovered loss {:.6} >= deposits {:.6} but the bank state is {}", rf::qf64(&loss), rf::qf64(&d0), n1.op_state));
        }
        if n1.asv != 0 {
            fail("C07.kill_when_consumed", format!("bank killed but asset share value is {}", rf::qf64(&rf::q_raw(n1.asv))));
        }
    } else {
        class = if loss.is_zero() { "accepted:fully_insured" } else if covered.is_zero() { "accepted:socialised" } else { "accepted:partially_insured" };
        if n1.op_state == 3 {
            fail("C07.no_kill_when_deposits_remain", format!("bank killed although the uncovered loss {:.6} is below deposits {:.6}", rf::qf64(&loss), rf::qf64(&d0)));
        }
        let d1 = n1.deposits();
        let exp = d0.clone() - loss.clone();
        let al = rf::ulp() * rf::qi(4) * (rf::q_raw(n0.a_sh) + rf::qone());
        if rf::qabs(&(d1.clone() - exp.clone())) > al {
            fail("C07.loss_exactly_socialised", format!("deposits went {:.9} -> {:.9}, expected {:.9} (uncovered {:.9})", rf::qf64(&d0), rf::qf64(&d1), rf::qf64(&exp), rf::qf64(&loss)));
        }
    }
    if n1.asv < 0 {
        fail("C07.share_value_non_negative", "asset share value went negative".into());
    }
    if n1.a_sh != n0.a_sh {
        fail("C07.pro_rata", "total deposit shares changed during bankruptcy".into());
    }
    // every depositor keeps exactly their shares: the same proportional cut for everyone
    for u in 1..w.users.len() {
        let (a0, a1) = (world::account(&pre, &w.users[u].account), world::account(&post, &w.users[u].account));
        if a0.lending_account != a1.lending_account {
            fail("C07.pro_rata", format!("depositor {} had its positions changed by someone else's bankruptcy", u));
        }
    }
    let a1 = world::account(&post, &acct);
    if a1.account_flags & ACCOUNT_DISABLED == 0 {
        fail("C07.account_disabled", "bankrupt account is not disabled".into());
    }
    let left: Q = a1.lending_account.balances.iter().filter(|b| b.active != 0 && b.bank_pk == w.banks[0].key).map(|b| rf::q(b.liability_shares) * rf::q_raw(n1.lsv)).fold(rf::qzero(), |x, y| x + y);
    if left > rf::qfrac(1, 10_000) {
        fail("C07.debt_cleared", format!("bankrupt account still owes {:.9}", rf::qf64(&left)));
    }
    let killed_state = if n1.op_state == 3 { Some(post) } else { None };
    Judged { class: class.into(), found, killed_state }
}

pub fn cases(tier: Tier, bank: &str, dist: usize, deposits: u64) -> Vec<Case> {
    let mut v = vec![];
    let one = I80F48::ONE.to_bits();
    let half = one / 2;
    let lsvs: Vec<i128> = if tier == Tier::Quick { vec![one, one + one / 7] } else { vec![one, one + 1, one + one / 7, one + one / 3, 3 * one, 200 * one] };
    let signers = [(Signer::GroupAdmin, false), (Signer::RiskAdmin, false), (Signer::Stranger, false), (Signer::EmodeAdmin, false), (Signer::Stranger, true), (Signer::EmodeAdmin, true), (Signer::RiskAdmin, true), (Signer::Authority, false)];
    let ins_menu: Vec<u64> = if tier == Tier::Quick { vec![0, 1_000] } else { vec![0, 1, 999, 1_000, 1_001, 77_777] };
    for ins in ins_menu {
        let (i, d) = (ins as i128, deposits as i128);
        let lattice: Vec<i128> = vec![i / 2, i - 1, i, i + 1, i + d / 2, i + d - 1, i + d, i + d + 1, 10 * (i + d)];
        for b in lattice {
            for frac in [0i128, half, 1] {
                let debt = b * one + frac;
                if debt <= 0 {
                    continue;
                }
                for &lsv in &lsvs {
                    for (signer, perm) in signers.iter() {
                        v.push(Case { bank: bank.into(), dist, ins, debt_raw: debt.to_string(), lsv_raw: lsv.to_string(), signer: signer.clone(), permissionless: *perm, target: 0, assets: 0, account_flags: 0, stale_s: 0, assets_reduce_only: false, assets_init_limit: 0, assets_isolated: false, unsigned: false, assets_oracle_stale: false, second_debt: false, debt_bank_reduce_only: false });
                    }
                }
            }
        }
    }
    // eligibility, target and flag dimensions around one mid-lattice debt
    let debt = (1_000i128 + deposits as i128 / 2) * one + half;
    for assets in [0u64, 90_000, 99_999, 110_000, 5_000_000_000] {
        for target in [0u8, 1, 2] {
            for flags in [0u64, ACCOUNT_IN_FLASHLOAN, ACCOUNT_IN_RECEIVERSHIP, ACCOUNT_DISABLED] {
                for (signer, perm) in [(Signer::RiskAdmin, false), (Signer::Stranger, true), (Signer::Stranger, false)] {
                    v.push(Case { bank: bank.into(), dist, ins: 1_000, debt_raw: debt.to_string(), lsv_raw: one.to_string(), signer, permissionless: perm, target, assets, account_flags: flags, stale_s: 0, assets_reduce_only: false, assets_init_limit: 0, assets_isolated: false, unsigned: false, assets_oracle_stale: false, second_debt: false, debt_bank_reduce_only: false });
                }
            }
        }
    }
    // the debt bank has not accrued for 30 days / a year: bad debt below deposits (utilisation < 1)
    for ins in [0u64, 1_000] {
        for num in [1i128, 2, 3] {
            for stale_s in [86_400i64 * 30, 31_536_000] {
                for &lsv in &lsvs {
                    for (signer, perm) in [(Signer::RiskAdmin, false), (Signer::Stranger, true)] {
                        let debt = (ins as i128 + deposits as i128 * num / 4) * one + half;
                        v.push(Case { bank: bank.into(), dist, ins, debt_raw: debt.to_string(), lsv_raw: lsv.to_string(), signer, permissionless: perm, target: 0, assets: 0, account_flags: 0, stale_s, assets_reduce_only: false, assets_init_limit: 0, assets_isolated: false, unsigned: false, assets_oracle_stale: false, second_debt: false, debt_bank_reduce_only: false });
                    }
                }
            }
        }
    }
    // a solvent account whose collateral bank is reduce-only is still solvent
    for assets in [90_000u64, 110_000, 5_000_000_000] {
        for (signer, perm) in [(Signer::RiskAdmin, false), (Signer::Stranger, true)] {
            v.push(Case { bank: bank.into(), dist, ins: 1_000, debt_raw: debt.to_string(), lsv_raw: one.to_string(), signer, permissionless: perm, target: 0, assets, account_flags: 0, stale_s: 0, assets_reduce_only: true, assets_init_limit: 0, assets_isolated: false, unsigned: false, assets_oracle_stale: false, second_debt: false, debt_bank_reduce_only: false });
        }
    }
    // ... and so is one whose collateral bank caps the value counted for initial margin far below its deposits
    for assets in [110_000u64, 5_000_000_000] {
        for (signer, perm) in [(Signer::RiskAdmin, false), (Signer::Stranger, true)] {
            v.push(Case { bank: bank.into(), dist, ins: 1_000, debt_raw: debt.to_string(), lsv_raw: one.to_string(), signer, permissionless: perm, target: 0, assets, account_flags: 0, stale_s: 0, assets_reduce_only: false, assets_init_limit: 1, assets_isolated: false, unsigned: false, assets_oracle_stale: false, second_debt: false, debt_bank_reduce_only: false });
        }
    }
    // ... and so is one whose assets sit in an isolated-tier bank (they back no borrowing, but they are assets)
    for assets in [110_000u64, 5_000_000_000] {
        for (signer, perm) in [(Signer::RiskAdmin, false), (Signer::Stranger, true)] {
            v.push(Case { bank: bank.into(), dist, ins: 1_000, debt_raw: debt.to_string(), lsv_raw: one.to_string(), signer, permissionless: perm, target: 0, assets, account_flags: 0, stale_s: 0, assets_reduce_only: false, assets_init_limit: 0, assets_isolated: true, unsigned: false, assets_oracle_stale: false, second_debt: false, debt_bank_reduce_only: false });
        }
    }
    // the account owes a second bank too: settling the first must disable it all the same
    for (signer, perm) in [(Signer::RiskAdmin, false), (Signer::Stranger, true)] {
        v.push(Case { bank: bank.into(), dist, ins: 1_000, debt_raw: debt.to_string(), lsv_raw: one.to_string(), signer, permissionless: perm, target: 0, assets: 0, account_flags: 0, stale_s: 0, assets_reduce_only: false, assets_init_limit: 0, assets_isolated: false, unsigned: false, assets_oracle_stale: false, second_debt: true, debt_bank_reduce_only: false });
    }
    // the entitled key named but not signing, on a bank without permissionless settlement
    for signer in [Signer::GroupAdmin, Signer::RiskAdmin] {
        v.push(Case { bank: bank.into(), dist, ins: 1_000, debt_raw: debt.to_string(), lsv_raw: one.to_string(), signer, permissionless: false, target: 0, assets: 0, account_flags: 0, stale_s: 0, assets_reduce_only: false, assets_init_limit: 0, assets_isolated: false, unsigned: true, assets_oracle_stale: false, second_debt: false, debt_bank_reduce_only: false });
    }
    // a solvent account whose asset bank's oracle went stale
    for assets in [110_000u64, 5_000_000_000] {
        for (signer, perm) in [(Signer::RiskAdmin, false), (Signer::Stranger, true)] {
            v.push(Case { bank: bank.into(), dist, ins: 1_000, debt_raw: debt.to_string(), lsv_raw: one.to_string(), signer, permissionless: perm, target: 0, assets, account_flags: 0, stale_s: 0, assets_reduce_only: false, assets_init_limit: 0, assets_isolated: false, unsigned: false, assets_oracle_stale: true, second_debt: false, debt_bank_reduce_only: false });
        }
    }
    // a cover large enough for a capped Token-2022 transfer fee to bind (insurance 1,000,000)
    for b in [400_000i128, 999_999, 1_000_000, 1_000_001] {
        for frac in [0i128, half] {
            let d = b * one + frac;
            v.push(Case { bank: bank.into(), dist, ins: 1_000_000, debt_raw: d.to_string(), lsv_raw: one.to_string(), signer: Signer::RiskAdmin, permissionless: false, target: 0, assets: 0, account_flags: 0, stale_s: 0, assets_reduce_only: false, assets_init_limit: 0, assets_isolated: false, unsigned: false, assets_oracle_stale: false, second_debt: false, debt_bank_reduce_only: false });
        }
    }
    // the debt bank is being wound down (reduce-only) when the loss is settled: around the wipe-out threshold
    for ins in [0u64, 1_000] {
        let (i, d) = (ins as i128, deposits as i128);
        for b in [i + d / 2, i + d - 1, i + d, i + d + 1, 10 * (i + d)] {
            for frac in [0i128, half] {
                for (signer, perm) in [(Signer::RiskAdmin, false), (Signer::Stranger, true)] {
                    v.push(Case { bank: bank.into(), dist, ins, debt_raw: (b * one + frac).to_string(), lsv_raw: one.to_string(), signer, permissionless: perm, target: 0, assets: 0, account_flags: 0, stale_s: 0, assets_reduce_only: false, assets_init_limit: 0, assets_isolated: false, unsigned: false, assets_oracle_stale: false, second_debt: false, debt_bank_reduce_only: true });
                }
            }
        }
    }
    // assets above liabilities but under ten cents: not bankrupt
    for debt_small in [one / 100, one * 20_000] {
        v.push(Case { bank: bank.into(), dist, ins: 0, debt_raw: debt_small.to_string(), lsv_raw: one.to_string(), signer: Signer::RiskAdmin, permissionless: false, target: 0, assets: 50_000, account_flags: 0, stale_s: 0, assets_reduce_only: false, assets_init_limit: 0, assets_isolated: false, unsigned: false, assets_oracle_stale: false, second_debt: false, debt_bank_reduce_only: false });
    }
    v
}

// ---- permanence: nothing an admin can do reopens a killed bank

#[derive(Clone, Debug, serde::Serialize, serde::Deserialize, PartialEq, Eq)]
pub enum AdminAct {
    ConfigureState(u8),
    ConfigureWeights,
    ConfigureFlags,
    LimitsOnly,
    InterestOnly,
    ConfigOracle,
    SetFixedPrice,
    EmodeConfigure,
    CloneEmodeInto,
    UserDeposit,
    UserWithdraw,
}

fn admin_tx(w: &World, a: &AdminAct) -> Option<Tx> {
    let (g, b) = (w.group, w.banks[0].key);
    let one = |i: crate::svm::Ix, k: solana_program::pubkey::Pubkey| Some(Tx::one(i, &[k]));
    match a {
        AdminAct::ConfigureState(st) => {
            let st = match st {
                0 => BankOperationalState::Paused,
                1 => BankOperationalState::Operational,
                2 => BankOperationalState::ReduceOnly,
                _ => BankOperationalState::KilledByBankruptcy,
            };
            one(ix::configure_bank(g, w.roles.admin, b, BankConfigOpt { operational_state: Some(st), ..Default::default() }), w.roles.admin)
        }
        AdminAct::ConfigureWeights => one(ix::configure_bank(g, w.roles.admin, b, BankConfigOpt { asset_weight_init: Some(I80F48::from_num(0.7).into()), deposit_limit: Some(77), ..Default::default() }), w.roles.admin),
        AdminAct::ConfigureFlags => one(ix::configure_bank(g, w.roles.admin, b, BankConfigOpt { permissionless_bad_debt_settlement: Some(true), tokenless_repayments_allowed: Some(false), ..Default::default() }), w.roles.admin),
        AdminAct::LimitsOnly => one(ix::configure_bank_limits_only(g, w.roles.limit, b, Some(5), Some(6), Some(7)), w.roles.limit),
        AdminAct::InterestOnly => one(ix::configure_bank_interest_only(g, w.roles.curve, b, InterestRateConfigOpt { zero_util_rate: Some(1), ..Default::default() }), w.roles.curve),
        AdminAct::ConfigOracle => w.banks[0].oracle.and_then(|o| one(ix::configure_bank_oracle(g, w.roles.admin, b, if w.banks[0].label == "BT" { 4 } else { 3 }, o, vec![ix::ro(o)]), w.roles.admin)),
        AdminAct::SetFixedPrice => one(ix::set_fixed_oracle_price(g, w.roles.admin, b, I80F48::from_num(3).into()), w.roles.admin),
        AdminAct::EmodeConfigure => one(ix::configure_bank_emode(g, w.roles.emode, b, 5, [marginfi_type_crate::types::EmodeEntry { collateral_bank_emode_tag: 0, flags: 0, pad0: [0; 5], asset_weight_init: I80F48::ZERO.into(), asset_weight_maint: I80F48::ZERO.into() }; 10]), w.roles.emode),
        AdminAct::CloneEmodeInto => one(ix::clone_emode(g, w.roles.admin, w.banks[1].key, b), w.roles.admin),
        AdminAct::UserDeposit | AdminAct::UserWithdraw => None,
    }
}

fn permanence(w: &World, killed: &Store, depth: usize, found: &mut Vec<Found>, stats: &mut (u64, u64)) {
    let alphabet = vec![
        AdminAct::ConfigureState(0),
        AdminAct::ConfigureState(1),
        AdminAct::ConfigureState(2),
        AdminAct::ConfigureState(3),
        AdminAct::ConfigureWeights,
        AdminAct::ConfigureFlags,
        AdminAct::LimitsOnly,
        AdminAct::InterestOnly,
        AdminAct::ConfigOracle,
        AdminAct::SetFixedPrice,
        AdminAct::EmodeConfigure,
        AdminAct::CloneEmodeInto,
        AdminAct::UserDeposit,
        AdminAct::UserWithdraw,
    ];
    let mut frontier: Vec<(Store, Vec<AdminAct>)> = vec![(killed.clone(), vec![])];
    let mut seen = std::collections::BTreeSet::new();
    seen.insert(crate::canon::state_key(killed, &[]));
    for _ in 0..depth {
        let mut next = vec![];
        for (s, path) in &frontier {
            for a in &alphabet {
                stats.1 += 1;
                let mut t = s.clone();
                let mut p = path.clone();
                p.push(a.clone());
                let rep = json!({"model": "C07perm", "bank": w.banks[0].label, "actions": p});
                match a {
                    AdminAct::UserDeposit | AdminAct::UserWithdraw => {
                        let act_ = if *a == AdminAct::UserDeposit { Action::Deposit { u: 1, b: 0, amt: 10, up_to_limit: None } } else { Action::Withdraw { u: 1, b: 0, amt: 1, all: false } };
                        let r = act::apply(w, &mut t, &act_);
                        if r.committed {
                            found.push(Found { clause: "C07.killed_bank_refuses".into(), sig: format!("{:?}", a), detail: format!("after {:?} a {:?} on the killed bank succeeded", path, a), replay: rep });
                        }
                        continue;
                    }
                    _ => {}
                }
                let Some(tx) = admin_tx(w, a) else { continue };
                let r = process_tx(&mut t, &tx);
                if !r.ok() {
                    continue;
                }
                let st = world::bank(&t, &w.banks[0].key).config.operational_state;
                if st != BankOperationalState::KilledByBankruptcy {
                    found.push(Found {
                        clause: "C07.killed_is_permanent".into(),
                        sig: format!("{:?}", a),
                        detail: format!("bank {} killed by bankruptcy was moved to {:?} by admin sequence {:?}", w.banks[0].label, st, p),
                        replay: rep,
                    });
                    continue;
                }
                let k = crate::canon::state_key(&t, &[]);
                if seen.insert(k) {
                    next.push((t, p));
                }
            }
        }
        frontier = next;
    }
    stats.0 += seen.len() as u64;
}

pub fn run(tier: Tier) -> Outcome {
    let banks: &[&str] = if tier == Tier::Quick { &["B6", "BF100", "BF1"] } else { &["B6", "BF100", "BF1", "BT"] };
    let mut o = Outcome { level: "exploration".into(), ..Default::default() };
    let mut classes: BTreeMap<String, u64> = BTreeMap::new();
    let mut evals = 0u64;
    let mut perm_stats = (0u64, 0u64);
    let mut samples = vec![];
    for bank in banks {
        for dist in 0..DISTS.len() {
            let (w, s0) = base(bank, dist);
            let deposits: u64 = DISTS[dist].iter().sum();
            let mut perm_done = false;
            for c in cases(tier, bank, dist, deposits) {
                let j = judge(&w, &s0, &c);
                evals += 1;
                *classes.entry(format!("{}:{}", bank, j.class)).or_insert(0) += 1;
                if samples.len() < 4 && evals % 1999 == 7 {
                    samples.push(json!({"case": c, "class": j.class}));
                }
                o.found.extend(j.found);
                if let Some(k) = j.killed_state {
                    if !perm_done {
                        perm_done = true;
                        permanence(&w, &k, if tier == Tier::Quick { 2 } else { 3 }, &mut o.found, &mut perm_stats);
                    }
                }
            }
        }
    }
    let accepted_any = classes.keys().any(|k| k.contains(":accepted"));
    if !accepted_any {
        o.machinery.push("vacuity guard: no bankruptcy was accepted at all".into());
    }
    let unexercised: Vec<&str> = ["accepted:killed", "accepted:fully_insured", "accepted:partially_insured", "accepted:socialised", "rejected:6042"].into_iter().filter(|req| !classes.keys().any(|k| k.ends_with(req))).collect();
    if samples.is_empty() {
        samples.push(json!({"note": "see outcome classes"}));
    }
    let accepted: u64 = classes.iter().filter(|(k, _)| k.contains(":accepted")).map(|(_, v)| *v).sum();
    o.coverage = json!({
        "evaluations": evals + perm_stats.1,
        "distinct_nontrivial": accepted,
        "rule": "complete product bank archetype x depositor distribution x insurance balance {0, 1000} x bad-debt lattice {i/2, i-1, i, i+1, i+d/2, i+d-1, i+d, i+d+1, 10(i+d)} each with fractional parts {0, 1/2, 1 ulp} x liability share values x 8 signer/permissionless combinations, plus the eligibility/target/account-flag sub-product; states are forged (debt position and matching bank total written directly, insurance vault minted) and then the real handle_bankruptcy instruction decides; distinct_nontrivial = accepted cases, each judged on all effect clauses; from the first killed bank per world the admin alphabet (14 actions) is searched breadth-first to depth 2 (quick) / 3 (thorough)",
        "exhaustive": true,
        "permanence_states": perm_stats.0,
        "permanence_transitions": perm_stats.1,
        "forged": true,
        "expected_but_unexercised_classes": unexercised,
        "outcome_classes": classes,
        "samples": samples,
    });
    o.assumptions = vec!["environment model E1 (svm-lite)".into(), "bankrupt positions are forged: the debt balance and the bank's liability total are written consistently".into()];
    o
}

pub fn replay(v: &serde_json::Value) -> Vec<crate::mc::Violation> {
    if v["model"] == "C07perm" {
        let bank = v["bank"].as_str().unwrap_or("B6");
        // recreate a killed bank: debt far above deposits, no insurance
        let (w, s0) = base(bank, 0);
        let one = I80F48::ONE.to_bits();
        let c = Case { bank: bank.into(), dist: 0, ins: 0, debt_raw: (50_000 * one).to_string(), lsv_raw: one.to_string(), signer: Signer::RiskAdmin, permissionless: false, target: 0, assets: 0, account_flags: 0, stale_s: 0, assets_reduce_only: false, assets_init_limit: 0, assets_isolated: false, unsigned: false, assets_oracle_stale: false, second_debt: false, debt_bank_reduce_only: false };
        let j = judge(&w, &s0, &c);
        let Some(k) = j.killed_state else { return vec![] };
        let mut found = vec![];
        let mut st = (0, 0);
        permanence(&w, &k, v["actions"].as_array().map(|a| a.len()).unwrap_or(1), &mut found, &mut st);
        return found.into_iter().map(|f| crate::mc::Violation { clause: f.clause, detail: f.detail }).collect();
    }
    let c: Case = serde_json::from_value(v["case"].clone()).expect("case");
    let (w, s0) = base(&c.bank, c.dist);
    judge(&w, &s0, &c).found.into_iter().map(|f| crate::mc::Violation { clause: f.clause, detail: f.detail }).collect()
}
