//! C12 — least privilege. (a) frame matrix: every delegated-admin / per-bank configuration
//! instruction x argument menus (all 64 single-bit flag words, all 128 subsets of the defined bits,
//! all-ones) x {unfrozen, frozen} bank, byte-level diff of every account against a per-role field
//! mask; (b) freeze is absorbing: BFS over the admin alphabet; (c) deleverage bracket: health not
//! worse, daily whole-dollar withdrawal limit over sequences of deleverage transactions.

use super::Tier;
use crate::act::{self, Action};
use crate::evidence::{Found, Outcome};
use crate::golden::{self, Env};
use crate::health::{self, Req};
use crate::ix;
use crate::refmodel as rf;
use crate::svm::{process_tx, Ix, Store, Tx};
use crate::world::{self, *};
use fixed::types::I80F48;
use marginfi_type_crate::constants::*;
use marginfi_type_crate::types::{Bank, BankConfig, BankConfigOpt, BankOperationalState, EmodeEntry, InterestRateConfigOpt, RatePoint, RiskTier};
use serde_json::json;
use solana_program::pubkey::Pubkey;
use std::collections::{BTreeMap, BTreeSet};
use std::mem::{offset_of, size_of};

// ---------------------------------------------------------------- field regions of the Bank account

#[derive(Clone, Copy, Debug, PartialEq, Eq, PartialOrd, Ord)]
enum Region {
    Interest,
    DepositLimit,
    BorrowLimit,
    InitLimit,
    Emode,
    EmissionsRate,
    EmissionsRemaining,
    EmissionsMint,
    Flags,
    Weights,
    Oracle,
    RiskTier,
    OpState,
    Cache,
    Other,
}

fn region_of(off: usize) -> Region {
    let c = offset_of!(Bank, config);
    let within = |start: usize, len: usize| off >= start && off < start + len;
    if within(c + offset_of!(BankConfig, interest_rate_config), size_of::<marginfi_type_crate::types::InterestRateConfig>()) {
        Region::Interest
    } else if within(c + offset_of!(BankConfig, deposit_limit), 8) {
        Region::DepositLimit
    } else if within(c + offset_of!(BankConfig, borrow_limit), 8) {
        Region::BorrowLimit
    } else if within(c + offset_of!(BankConfig, total_asset_value_init_limit), 8) {
        Region::InitLimit
    } else if within(offset_of!(Bank, emode), size_of::<marginfi_type_crate::types::EmodeSettings>()) {
        Region::Emode
    } else if within(offset_of!(Bank, emissions_rate), 8) {
        Region::EmissionsRate
    } else if within(offset_of!(Bank, emissions_remaining), 16) {
        Region::EmissionsRemaining
    } else if within(offset_of!(Bank, emissions_mint), 32) {
        Region::EmissionsMint
    } else if within(offset_of!(Bank, flags), 8) {
        Region::Flags
    } else if within(c + offset_of!(BankConfig, asset_weight_init), 64) {
        Region::Weights
    } else if within(c + offset_of!(BankConfig, oracle_setup), 1) || within(c + offset_of!(BankConfig, oracle_keys), 160) || within(c + offset_of!(BankConfig, oracle_max_age), 2) || within(c + offset_of!(BankConfig, oracle_max_confidence), 4) || within(c + offset_of!(BankConfig, fixed_price), 16) {
        Region::Oracle
    } else if within(c + offset_of!(BankConfig, risk_tier), 1) {
        Region::RiskTier
    } else if within(c + offset_of!(BankConfig, operational_state), 1) {
        Region::OpState
    } else if within(offset_of!(Bank, cache), size_of::<marginfi_type_crate::types::BankCache>()) {
        Region::Cache
    } else {
        Region::Other
    }
}

struct Diff {
    /// regions of the target bank that changed, with the flag bits that changed
    bank_regions: BTreeSet<Region>,
    flag_bits_changed: u64,
    /// other accounts whose bytes (or lamports / owner / existence) changed
    others: Vec<Pubkey>,
}

fn diff(pre: &Store, post: &Store, bank: &Pubkey) -> Diff {
    let mut d = Diff { bank_regions: BTreeSet::new(), flag_bits_changed: 0, others: vec![] };
    let keys: BTreeSet<Pubkey> = pre.accts.keys().chain(post.accts.keys()).cloned().collect();
    for k in keys {
        let (a, b) = (pre.get(&k), post.get(&k));
        if a == b {
            continue;
        }
        if k == *bank {
            if let (Some(a), Some(b)) = (a, b) {
                if a.data.len() == b.data.len() && a.owner == b.owner && a.lamports == b.lamports {
                    for i in 8..a.data.len() {
                        if a.data[i] != b.data[i] {
                            d.bank_regions.insert(region_of(i - 8));
                        }
                    }
                    let (f0, f1) = (world::bank(pre, &k).flags, world::bank(post, &k).flags);
                    d.flag_bits_changed = f0 ^ f1;
                    continue;
                }
            }
        }
        d.others.push(k);
    }
    d
}

#[derive(Clone, Copy, Debug, PartialEq, Eq)]
enum RoleMask {
    Curve,
    Limit,
    Emode,
    Emissions,
    Metadata,
    RiskForceComplete,
    /// the group admin's own per-bank configuration instructions (only the frozen rule applies)
    GroupAdmin,
    /// an instruction anyone may send that has no business with this bank (e.g. the staked-settings
    /// propagation aimed at a bank that is not a staked-collateral bank): may change nothing
    Nobody,
}

fn allowed_regions(r: RoleMask) -> Vec<Region> {
    match r {
        RoleMask::Curve => vec![Region::Interest],
        RoleMask::Limit => vec![Region::DepositLimit, Region::BorrowLimit, Region::InitLimit],
        RoleMask::Emode => vec![Region::Emode],
        RoleMask::Emissions => vec![Region::EmissionsRate, Region::EmissionsRemaining, Region::EmissionsMint, Region::Flags],
        RoleMask::Metadata => vec![],
        RoleMask::Nobody => vec![],
        RoleMask::RiskForceComplete => vec![Region::Flags],
        RoleMask::GroupAdmin => vec![Region::Interest, Region::DepositLimit, Region::BorrowLimit, Region::InitLimit, Region::Emode, Region::Flags, Region::Weights, Region::Oracle, Region::RiskTier, Region::OpState, Region::Other],
    }
}

fn allowed_flag_bits(r: RoleMask) -> u64 {
    match r {
        RoleMask::Emissions => EMISSIONS_FLAG_BORROW_ACTIVE | EMISSIONS_FLAG_LENDING_ACTIVE,
        RoleMask::RiskForceComplete => TOKENLESS_REPAYMENTS_COMPLETE,
        RoleMask::GroupAdmin => PERMISSIONLESS_BAD_DEBT_SETTLEMENT_FLAG | FREEZE_SETTINGS | TOKENLESS_REPAYMENTS_ALLOWED,
        _ => 0,
    }
}

const FROZEN_FORBIDDEN: [Region; 6] = [Region::Weights, Region::Oracle, Region::Interest, Region::RiskTier, Region::InitLimit, Region::OpState];

struct Case {
    name: String,
    role: RoleMask,
    ixs: Vec<Ix>,
    signers: Vec<Pubkey>,
    /// accounts (besides the bank) this role's instruction may legitimately touch
    may_touch: Vec<Pubkey>,
}

fn flag_words() -> Vec<u64> {
    let mut v: Vec<u64> = vec![0, u64::MAX];
    for b in 0..64 {
        v.push(1u64 << b);
    }
    for s in 0u64..128 {
        v.push(s);
    }
    v.sort();
    v.dedup();
    v
}

fn ee(tag: u16, i: f64, m: f64) -> EmodeEntry {
    EmodeEntry { collateral_bank_emode_tag: tag, flags: 0, pad0: [0; 5], asset_weight_init: I80F48::from_num(i).into(), asset_weight_maint: I80F48::from_num(m).into() }
}

fn cases(e: &Env, bank_idx: usize, s: &Store, tier: Tier) -> Vec<Case> {
    let w = &e.w;
    let (g, b) = (w.group, w.banks[bank_idx].key);
    let mut v: Vec<Case> = vec![];
    // --- curve admin
    let wi = |x: f64| -> Option<marginfi_type_crate::types::WrappedI80F48> { Some(I80F48::from_num(x).into()) };
    let mut pts = [RatePoint::default(); 5];
    pts[0] = RatePoint::new(util_u32(0.4), rate_u32(0.2));
    let ir_opts: Vec<(&str, InterestRateConfigOpt)> = vec![
        ("none", InterestRateConfigOpt::default()),
        ("ins_fixed", InterestRateConfigOpt { insurance_fee_fixed_apr: wi(0.02), ..Default::default() }),
        ("ins_ir", InterestRateConfigOpt { insurance_ir_fee: wi(0.03), ..Default::default() }),
        ("prot_fixed", InterestRateConfigOpt { protocol_fixed_fee_apr: wi(0.004), ..Default::default() }),
        ("prot_ir", InterestRateConfigOpt { protocol_ir_fee: wi(0.2), ..Default::default() }),
        ("orig", InterestRateConfigOpt { protocol_origination_fee: wi(0.001), ..Default::default() }),
        ("zero", InterestRateConfigOpt { zero_util_rate: Some(rate_u32(0.01)), ..Default::default() }),
        ("hundred", InterestRateConfigOpt { hundred_util_rate: Some(rate_u32(9.0)), ..Default::default() }),
        ("points", InterestRateConfigOpt { points: Some(pts), ..Default::default() }),
        ("all", InterestRateConfigOpt { insurance_fee_fixed_apr: wi(0.02), insurance_ir_fee: wi(0.03), protocol_fixed_fee_apr: wi(0.004), protocol_ir_fee: wi(0.2), protocol_origination_fee: wi(0.001), zero_util_rate: Some(1), hundred_util_rate: Some(u32::MAX), points: Some(pts) }),
    ];
    for (n, o) in ir_opts {
        v.push(Case { name: format!("interest_only:{n}"), role: RoleMask::Curve, ixs: vec![ix::configure_bank_interest_only(g, w.roles.curve, b, o)], signers: vec![w.roles.curve], may_touch: vec![] });
    }
    // --- limit admin: full product
    let lim: [Option<u64>; 4] = [None, Some(0), Some(1), Some(u64::MAX)];
    for d in lim {
        for bo in lim {
            for il in lim {
                v.push(Case { name: format!("limits_only:{:?}:{:?}:{:?}", d, bo, il), role: RoleMask::Limit, ixs: vec![ix::configure_bank_limits_only(g, w.roles.limit, b, d, bo, il)], signers: vec![w.roles.limit], may_touch: vec![] });
            }
        }
    }
    // --- e-mode admin
    for tag in [0u16, 5] {
        for (n, ents) in [("none", vec![]), ("one", vec![ee(3, 0.85, 0.9)]), ("two", vec![ee(3, 0.85, 0.9), ee(4, 0.5, 0.6)]), ("invalid", vec![ee(3, 0.9, 0.8)])] {
            let mut arr = [ee(0, 0.0, 0.0); 10];
            for (i, x) in ents.iter().enumerate() {
                arr[i] = *x;
            }
            v.push(Case { name: format!("emode:{tag}:{n}"), role: RoleMask::Emode, ixs: vec![ix::configure_bank_emode(g, w.roles.emode, b, tag, arr)], signers: vec![w.roles.emode], may_touch: vec![] });
        }
    }
    v.push(Case { name: "clone_emode".into(), role: RoleMask::Emode, ixs: vec![ix::clone_emode(g, w.roles.emode, w.banks[(bank_idx + 1) % 2].key, b)], signers: vec![w.roles.emode], may_touch: vec![] });
    // --- emissions admin: all flag words
    let bank_now = world::bank(s, &b);
    let has_emissions = bank_now.emissions_mint != Pubkey::default();
    let ev = ix::emissions_vault(&b, &e.em_mint);
    let ea = ix::emissions_auth(&b, &e.em_mint);
    let words = if tier == Tier::Quick { flag_words() } else { flag_words() };
    for f in words {
        if has_emissions {
            for (rate, add) in [(None, None), (Some(7u64), Some(500u64))] {
                v.push(Case { name: format!("update_emissions:flags={f:#x}:{:?}:{:?}", rate, add), role: RoleMask::Emissions, ixs: vec![ix::update_emissions_parameters(g, w.roles.emissions, b, e.em_mint, e.em_funding, spl_token::id(), Some(f), rate, add)], signers: vec![w.roles.emissions], may_touch: vec![ev, e.em_funding] });
            }
        } else {
            v.push(Case { name: format!("setup_emissions:flags={f:#x}"), role: RoleMask::Emissions, ixs: vec![ix::setup_emissions(g, w.roles.emissions, b, e.em_mint, e.em_funding, spl_token::id(), f, 5, 1000)], signers: vec![w.roles.emissions], may_touch: vec![ev, ea, e.em_funding, w.roles.emissions] });
        }
    }
    if has_emissions {
        v.push(Case { name: "update_emissions:none".into(), role: RoleMask::Emissions, ixs: vec![ix::update_emissions_parameters(g, w.roles.emissions, b, e.em_mint, e.em_funding, spl_token::id(), None, None, None)], signers: vec![w.roles.emissions], may_touch: vec![ev, e.em_funding] });
    }
    // --- metadata admin
    if bank_idx == 0 {
        for (t, dsc) in [(None, None), (Some(b"TICK".to_vec()), None), (None, Some(b"descr".to_vec())), (Some(vec![]), Some(vec![1u8; 64]))] {
            v.push(Case { name: format!("metadata:{:?}:{:?}", t.as_ref().map(|x| x.len()), dsc.as_ref().map(|x| x.len())), role: RoleMask::Metadata, ixs: vec![ix::write_bank_metadata(g, b, w.roles.metadata, t, dsc)], signers: vec![w.roles.metadata], may_touch: vec![ix::metadata_key(&b)] });
        }
    }
    // --- risk admin
    v.push(Case { name: "force_tokenless_repay_complete".into(), role: RoleMask::RiskForceComplete, ixs: vec![ix::force_tokenless_repay_complete(g, w.roles.risk, b)], signers: vec![w.roles.risk], may_touch: vec![] });
    // --- group admin per-bank configuration (frozen rule)
    let o_other = w.banks[(bank_idx + 1) % 2].oracle.unwrap();
    let ga = w.roles.admin;
    let opts: Vec<(&str, BankConfigOpt)> = vec![
        ("weights", BankConfigOpt { asset_weight_init: wi(0.1), asset_weight_maint: wi(0.2), liability_weight_init: wi(1.9), liability_weight_maint: wi(1.8), ..Default::default() }),
        ("limits", BankConfigOpt { deposit_limit: Some(123), borrow_limit: Some(456), ..Default::default() }),
        ("state", BankConfigOpt { operational_state: Some(BankOperationalState::Paused), ..Default::default() }),
        ("interest", BankConfigOpt { interest_rate_config: Some(InterestRateConfigOpt { hundred_util_rate: Some(77), ..Default::default() }), ..Default::default() }),
        ("tier", BankConfigOpt { risk_tier: Some(RiskTier::Isolated), asset_weight_init: wi(0.0), asset_weight_maint: wi(0.0), ..Default::default() }),
        ("init_limit", BankConfigOpt { total_asset_value_init_limit: Some(999), ..Default::default() }),
        ("oracle_params", BankConfigOpt { oracle_max_age: Some(33), oracle_max_confidence: Some(5), ..Default::default() }),
        ("unfreeze", BankConfigOpt { freeze_settings: Some(false), ..Default::default() }),
        ("flags", BankConfigOpt { permissionless_bad_debt_settlement: Some(true), tokenless_repayments_allowed: Some(true), ..Default::default() }),
        ("everything", BankConfigOpt { asset_weight_init: wi(0.3), deposit_limit: Some(5), borrow_limit: Some(6), operational_state: Some(BankOperationalState::ReduceOnly), total_asset_value_init_limit: Some(7), freeze_settings: Some(false), asset_tag: Some(1), ..Default::default() }),
    ];
    for (n, o) in opts {
        v.push(Case { name: format!("configure_bank:{n}"), role: RoleMask::GroupAdmin, ixs: vec![ix::configure_bank(g, ga, b, o)], signers: vec![ga], may_touch: vec![] });
    }
    // --- anyone: the permissionless staked-settings propagation aimed at this (ordinary) bank
    for (n, signer) in [("stranger", crate::act::stranger()), ("group_admin", ga), ("limit_admin", w.roles.limit)] {
        for (rn, rem) in [("no_oracle_accounts", vec![]), ("with_oracle_account", w.banks[bank_idx].oracle.map(|o| vec![ix::ro(o)]).unwrap_or_default())] {
            v.push(Case { name: format!("propagate_staked_settings_on_ordinary_bank:{n}:{rn}"), role: RoleMask::Nobody, ixs: vec![ix::propagate_staked_settings(g, b, rem)], signers: vec![signer], may_touch: vec![] });
        }
    }
    v.push(Case { name: "configure_bank_oracle".into(), role: RoleMask::GroupAdmin, ixs: vec![ix::configure_bank_oracle(g, ga, b, 3, o_other, vec![ix::ro(o_other)])], signers: vec![ga], may_touch: vec![] });
    v.push(Case { name: "set_fixed_oracle_price".into(), role: RoleMask::GroupAdmin, ixs: vec![ix::set_fixed_oracle_price(g, ga, b, I80F48::from_num(2).into())], signers: vec![ga], may_touch: vec![] });
    v
}

struct Acc {
    cells: u64,
    classes: BTreeMap<String, u64>,
    found: Vec<Found>,
    samples: Vec<serde_json::Value>,
}

fn frame_matrix(e: &Env, tier: Tier, a: &mut Acc) {
    // bank 0 has emissions configured (update path), bank 1 has none (setup path)
    for bank_idx in [0usize, 1] {
        // (.., true): the bank was switched to a fixed oracle price (real instruction) before it was frozen
        for (frozen, preset, fixed_oracle) in [(false, 0u64, false), (true, 0, false), (false, TOKENLESS_REPAYMENTS_ALLOWED | PERMISSIONLESS_BAD_DEBT_SETTLEMENT_FLAG | CLOSE_ENABLED_FLAG, false), (true, TOKENLESS_REPAYMENTS_ALLOWED | CLOSE_ENABLED_FLAG, false), (false, 0, true), (true, 0, true)] {
            if fixed_oracle && bank_idx != 1 {
                continue;
            }
            let mut s0 = e.s.clone();
            // a day has passed since anybody touched the banks: an instruction that moves a bank's interest clock
            // without accruing (or accrues on the quiet) leaves a trace outside every administrative remit
            s0.advance(86_400);
            refresh_oracles(&mut s0, &e.w);
            refresh_oracles(&mut s0, &e.f);
            if fixed_oracle {
                let r = process_tx(&mut s0, &Tx::one(ix::set_fixed_oracle_price(e.w.group, e.w.roles.admin, e.w.banks[bank_idx].key, I80F48::from_num(3).into()), &[e.w.roles.admin]));
                if !r.ok() {
                    *a.classes.entry("fixed_oracle_setup_refused".into()).or_insert(0) += 1;
                    continue;
                }
            }
            world::edit_bank(&mut s0, &e.w.banks[bank_idx].key, |b| b.flags |= preset);
            if frozen {
                world::edit_bank(&mut s0, &e.w.banks[bank_idx].key, |b| b.flags |= FREEZE_SETTINGS);
            }
            let bk = e.w.banks[bank_idx].key;
            {
                // the e-mode clone source carries settings of its own
                let mut arr = [ee(0, 0.0, 0.0); 10];
                arr[0] = ee(9, 0.7, 0.8);
                let src = e.w.banks[(bank_idx + 1) % 2].key;
                assert!(process_tx(&mut s0, &Tx::one(ix::configure_bank_emode(e.w.group, e.w.roles.emode, src, 11, arr), &[e.w.roles.emode])).ok());
            }
            for c in cases(e, bank_idx, &s0, tier) {
                // the same request with the role's key merely named, not signing (a stranger signs): nobody's remit
                if c.role != RoleMask::Nobody {
                    let mut ixs = c.ixs.clone();
                    for i in ixs.iter_mut() {
                        for m in i.accounts.iter_mut() {
                            if c.signers.contains(&m.pubkey) {
                                m.is_signer = false;
                            }
                        }
                    }
                    let mut t = s0.clone();
                    let r = process_tx(&mut t, &Tx::new(ixs, &[crate::act::stranger()]));
                    a.cells += 1;
                    let kind = c.name.split(':').next().unwrap().to_string();
                    *a.classes.entry(format!("{}:unsigned:{}", kind, if r.ok() { "ok" } else { "refused" })).or_insert(0) += 1;
                    if r.ok() {
                        let d = diff(&s0, &t, &bk);
                        if !d.bank_regions.is_empty() || !d.others.is_empty() || d.flag_bits_changed != 0 {
                            a.found.push(Found { clause: "C12.role_writes_only_its_fields".into(), sig: format!("{}:unsigned", kind), detail: format!("{} changed the bank ({:?}) although the {:?} key did not sign", c.name, d.bank_regions, c.role), replay: json!({"model": "C12a", "bank": bank_idx, "frozen": frozen, "preset_flags": preset, "case": c.name, "unsigned": true}) });
                        }
                    }
                }
                let mut t = s0.clone();
                let r = process_tx(&mut t, &Tx::new(c.ixs.clone(), &c.signers));
                a.cells += 1;
                let kind = c.name.split(':').next().unwrap().to_string();
                if !r.ok() {
                    *a.classes.entry(format!("{}:{}:refused", kind, if frozen { "frozen" } else { "unfrozen" })).or_insert(0) += 1;
                    continue;
                }
                let d = diff(&s0, &t, &bk);
                *a.classes.entry(format!("{}:{}:ok:{}", kind, if frozen { "frozen" } else { "unfrozen" }, if d.bank_regions.is_empty() && d.others.is_empty() { "no_change" } else { "wrote" })).or_insert(0) += 1;
                let rep = json!({"model": "C12a", "bank": bank_idx, "frozen": frozen, "preset_flags": preset, "case": c.name});
                let allowed = allowed_regions(c.role);
                for reg in &d.bank_regions {
                    if *reg == Region::Cache {
                        continue;
                    }
                    if !allowed.contains(reg) {
                        a.found.push(Found { clause: "C12.role_writes_only_its_fields".into(), sig: format!("{}:{:?}", kind, reg), detail: format!("{} ({:?}) changed bank region {:?}", c.name, c.role, reg), replay: rep.clone() });
                    }
                }
                // (the risk admin may mark a wind-down complete only on a bank the group admin opened for token-less repayment)
                let role_bits = if c.role == RoleMask::RiskForceComplete && world::bank(&s0, &bk).flags & TOKENLESS_REPAYMENTS_ALLOWED == 0 { 0 } else { allowed_flag_bits(c.role) };
                let bad_bits = d.flag_bits_changed & !role_bits;
                if bad_bits != 0 {
                    a.found.push(Found { clause: "C12.role_writes_only_its_flags".into(), sig: format!("{}:bits", kind), detail: format!("{} ({:?}) changed bank flag bits {:#b} outside its remit ({:#b} -> {:#b})", c.name, c.role, bad_bits, world::bank(&s0, &bk).flags, world::bank(&t, &bk).flags), replay: rep.clone() });
                }
                for k in &d.others {
                    if !c.may_touch.contains(k) {
                        a.found.push(Found { clause: "C12.role_touches_only_its_accounts".into(), sig: format!("{}:{}", kind, world::label_of(k)), detail: format!("{} ({:?}) changed account {}", c.name, c.role, world::label_of(k)), replay: rep.clone() });
                    }
                }
                if frozen {
                    for reg in &d.bank_regions {
                        if FROZEN_FORBIDDEN.contains(reg) {
                            a.found.push(Found { clause: "C12.frozen_settings_stay".into(), sig: format!("{}:{:?}", kind, reg), detail: format!("{} changed {:?} of a bank whose settings are frozen", c.name, reg), replay: rep.clone() });
                        }
                    }
                    if world::bank(&t, &bk).flags & FREEZE_SETTINGS == 0 {
                        a.found.push(Found { clause: "C12.freeze_cannot_be_lifted".into(), sig: kind.clone(), detail: format!("{} cleared the FREEZE_SETTINGS flag ({:#b} -> {:#b})", c.name, world::bank(&s0, &bk).flags, world::bank(&t, &bk).flags), replay: rep.clone() });
                    }
                }
                if a.samples.len() < 4 && a.cells % 401 == 0 {
                    a.samples.push(json!({"case": c.name, "frozen": frozen, "regions_changed": d.bank_regions.iter().map(|r| format!("{:?}", r)).collect::<Vec<_>>()}));
                }
            }
        }
    }
}

/// (a2) a staked-collateral bank: the group admin edits the group's staked settings, then anyone propagates them to
/// the bank. On a bank whose settings are frozen the propagation is a per-bank configuration instruction like the
/// others: weights, oracle, risk tier and collateral-value cap stay (the deposit limit may follow).
fn staked_frozen_matrix(e: &Env, a: &mut Acc) {
    use marginfi::instructions::StakedSettingsEditConfig as Ed;
    let wi = |x: f64| -> Option<marginfi_type_crate::types::WrappedI80F48> { Some(I80F48::from_num(x).into()) };
    let none = || Ed { oracle: None, asset_weight_init: None, asset_weight_maint: None, deposit_limit: None, total_asset_value_init_limit: None, oracle_max_age: None, risk_tier: None };
    let bk = e.w.banks[1].key;
    let edits: Vec<(&str, Ed)> = vec![
        ("nothing", none()),
        ("deposit_limit", Ed { deposit_limit: Some(777_000_000), ..none() }),
        ("weights", Ed { asset_weight_init: wi(0.25), asset_weight_maint: wi(0.35), ..none() }),
        ("init_limit", Ed { total_asset_value_init_limit: Some(12_345), ..none() }),
        ("max_age", Ed { oracle_max_age: Some(45), ..none() }),
        ("oracle", Ed { oracle: Some(e.w.banks[0].oracle.unwrap()), ..none() }),
        ("isolated", Ed { risk_tier: Some(RiskTier::Isolated), asset_weight_init: wi(0.0), asset_weight_maint: wi(0.0), ..none() }),
    ];
    for frozen in [false, true] {
        for (n, ed) in &edits {
            let mut s0 = golden::staked_prep(e);
            if frozen {
                world::edit_bank(&mut s0, &bk, |b| b.flags |= FREEZE_SETTINGS);
            }
            let r = process_tx(&mut s0, &Tx::one(ix::edit_staked_settings(e.w.group, e.w.roles.admin, Ed { oracle: ed.oracle, asset_weight_init: ed.asset_weight_init, asset_weight_maint: ed.asset_weight_maint, deposit_limit: ed.deposit_limit, total_asset_value_init_limit: ed.total_asset_value_init_limit, oracle_max_age: ed.oracle_max_age, risk_tier: ed.risk_tier }), &[e.w.roles.admin]));
            if !r.ok() {
                *a.classes.entry(format!("staked_propagation:{n}:edit_refused")).or_insert(0) += 1;
                continue;
            }
            let st: marginfi_type_crate::types::StakedSettings = world::read_pod(s0.data(&ix::staked_settings_key(&e.w.group)));
            let cfg = world::bank(&s0, &bk).config;
            for (sn, signer) in [("stranger", crate::act::stranger()), ("group_admin", e.w.roles.admin)] {
                let mut t = s0.clone();
                let r = process_tx(&mut t, &Tx::one(ix::propagate_staked_settings(e.w.group, bk, vec![ix::ro(st.oracle), ix::ro(cfg.oracle_keys[1]), ix::ro(cfg.oracle_keys[2])]), &[signer]));
                a.cells += 1;
                let d = diff(&s0, &t, &bk);
                *a.classes.entry(format!("staked_propagation:{}:{}:{}", if frozen { "frozen" } else { "unfrozen" }, n, if !r.ok() { "refused" } else if d.bank_regions.is_empty() { "ok:no_change" } else { "ok:wrote" })).or_insert(0) += 1;
                if !r.ok() {
                    continue;
                }
                let rep = json!({"model": "C12a2", "frozen": frozen, "case": format!("staked_propagation:{n}:{sn}")});
                for k in &d.others {
                    a.found.push(Found { clause: "C12.role_touches_only_its_accounts".into(), sig: format!("staked_propagation:{}", world::label_of(k)), detail: format!("propagate_staked_settings changed account {}", world::label_of(k)), replay: rep.clone() });
                }
                if d.flag_bits_changed != 0 {
                    a.found.push(Found { clause: "C12.role_writes_only_its_flags".into(), sig: "staked_propagation:bits".into(), detail: format!("propagate_staked_settings changed bank flag bits {:#b}", d.flag_bits_changed), replay: rep.clone() });
                }
                if frozen {
                    for reg in &d.bank_regions {
                        if FROZEN_FORBIDDEN.contains(reg) {
                            a.found.push(Found { clause: "C12.frozen_settings_stay".into(), sig: format!("staked_propagation:{:?}", reg), detail: format!("propagate_staked_settings (after edit_staked_settings {n}, sent by {sn}) changed {:?} of a staked-collateral bank whose settings are frozen", reg), replay: rep.clone() });
                        }
                    }
                }
            }
        }
    }
}

/// (b) freeze is absorbing under every admin sequence up to the depth bound
fn freeze_bfs(e: &Env, depth: usize, a: &mut Acc) -> (u64, u64) {
    let mut states = 0u64;
    let mut trans = 0u64;
    for bank_idx in [0usize, 1] {
        let mut s0 = e.s.clone();
        world::edit_bank(&mut s0, &e.w.banks[bank_idx].key, |b| b.flags |= FREEZE_SETTINGS);
        let bk = e.w.banks[bank_idx].key;
        let mut frontier = vec![(s0.clone(), Vec::<String>::new())];
        let mut seen = BTreeSet::new();
        seen.insert(crate::canon::state_key(&s0, &[]));
        for _ in 0..depth {
            let mut next = vec![];
            for (s, path) in &frontier {
                // a reduced but role-complete alphabet (flag words: 0, each defined bit, all-ones)
                let all: Vec<Case> = cases(e, bank_idx, s, Tier::Quick)
                    .into_iter()
                    .filter(|c| {
                        if let Some(p) = c.name.find("flags=") {
                            let w = u64::from_str_radix(c.name[p + 8..].split(':').next().unwrap_or("0"), 16).unwrap_or(0);
                            w == 0 || w == u64::MAX || (w.count_ones() == 1 && w < 128)
                        } else if c.name.starts_with("limits_only") {
                            c.name.ends_with("None:None:None") || c.name.contains("Some(1):Some(1):Some(1)")
                        } else {
                            true
                        }
                    })
                    .collect();
                for c in all {
                    let mut t = s.clone();
                    let r = process_tx(&mut t, &Tx::new(c.ixs.clone(), &c.signers));
                    trans += 1;
                    if !r.ok() {
                        continue;
                    }
                    let mut p = path.clone();
                    p.push(c.name.clone());
                    if world::bank(&t, &bk).flags & FREEZE_SETTINGS == 0 {
                        a.found.push(Found { clause: "C12.freeze_cannot_be_lifted".into(), sig: c.name.split(':').next().unwrap().to_string(), detail: format!("admin sequence {:?} cleared FREEZE_SETTINGS on bank {}", p, e.w.banks[bank_idx].label), replay: json!({"model": "C12b", "bank": bank_idx, "path": p}) });
                        continue;
                    }
                    if seen.insert(crate::canon::state_key(&t, &[])) {
                        next.push((t, p));
                    }
                }
            }
            frontier = next;
        }
        states += seen.len() as u64;
    }
    (states, trans)
}

// ---------------------------------------------------------------- (c) deleverage

fn delev_tx(e: &Env, s: &Store, withdraw_amt: u64, repay_amt: u64) -> Tx {
    let w = &e.w;
    let acct = w.users[0].account;
    let risk = w.roles.risk;
    let rem = w.risk_metas(s, &acct, None, None);
    let ta0 = golden::token_account_of(s, &w.banks[0].mint, &risk).unwrap();
    let ta1 = golden::token_account_of(s, &w.banks[1].mint, &risk).unwrap();
    let mut ixs = vec![ix::start_deleverage(w.group, acct, risk, rem.clone())];
    if repay_amt > 0 {
        ixs.push(ix::repay(w.group, acct, risk, w.banks[1].key, ta1, w.banks[1].token_program, repay_amt, None, vec![]));
    }
    if withdraw_amt > 0 {
        ixs.push(ix::withdraw(w.group, acct, risk, w.banks[0].key, ta0, w.banks[0].token_program, withdraw_amt, None, rem.clone()));
    }
    ixs.push(ix::end_deleverage(w.group, acct, risk, rem));
    Tx::new(ixs, &[risk])
}

/// "A forced deleverage is bracketed like a liquidation": every instruction list of length <= 4 over the risk
/// admin's start / end for two accounts and a small repay / withdraw on each, signed by the risk admin only. Whatever
/// commits leaves no receivership / deleverage marker on either account, and an account whose balances changed was
/// bracketed by exactly one start and one end of its own, in that order, with the changes in between.
fn deleverage_shapes(e: &Env, a: &mut Acc) -> u64 {
    let w = &e.w;
    let mut s = e.s.clone();
    golden::fund_all_identities(e, &mut s);
    let risk = w.roles.risk;
    #[derive(Clone, Copy, Debug, PartialEq, Eq)]
    enum Y {
        Start(usize),
        End(usize),
        Repay(usize),
        Withdraw(usize),
    }
    // u0 lends bank 0 and owes bank 1, u1 the other way round
    let lend = |u: usize| if u == 0 { 0usize } else { 1 };
    let owe = |u: usize| if u == 0 { 1usize } else { 0 };
    let build = |y: Y| -> crate::svm::Ix {
        match y {
            Y::Start(u) => ix::start_deleverage(w.group, w.users[u].account, risk, w.risk_metas(&s, &w.users[u].account, None, None)),
            Y::End(u) => ix::end_deleverage(w.group, w.users[u].account, risk, w.risk_metas(&s, &w.users[u].account, None, None)),
            Y::Repay(u) => {
                let b = &w.banks[owe(u)];
                ix::repay(w.group, w.users[u].account, risk, b.key, golden::token_account_of(&s, &b.mint, &risk).unwrap(), b.token_program, 1_000, None, vec![])
            }
            Y::Withdraw(u) => {
                let b = &w.banks[lend(u)];
                ix::withdraw(w.group, w.users[u].account, risk, b.key, golden::token_account_of(&s, &b.mint, &risk).unwrap(), b.token_program, 10, None, w.risk_metas(&s, &w.users[u].account, None, None))
            }
        }
    };
    let alpha = [Y::Start(0), Y::Start(1), Y::End(0), Y::End(1), Y::Repay(0), Y::Withdraw(0), Y::Repay(1), Y::Withdraw(1)];
    let mut lists: Vec<Vec<Y>> = vec![vec![]];
    let mut all: Vec<Vec<Y>> = vec![];
    for _ in 0..4 {
        let mut next = vec![];
        for l in &lists {
            for y in alpha {
                let mut q = l.clone();
                q.push(y);
                next.push(q);
            }
        }
        all.extend(next.iter().cloned());
        lists = next;
    }
    let shares = |st: &Store, u: usize| -> Vec<(i128, i128)> { world::account(st, &w.users[u].account).lending_account.balances.iter().map(|b| (b.asset_shares.value.iter().fold(0i128, |acc, x| acc.wrapping_mul(31).wrapping_add(*x as i128)), b.liability_shares.value.iter().fold(0i128, |acc, x| acc.wrapping_mul(31).wrapping_add(*x as i128)))).collect() };
    let mut n = 0u64;
    for l in &all {
        let tx = Tx::new(l.iter().map(|y| build(*y)).collect(), &[risk]);
        let mut t = s.clone();
        let r = process_tx(&mut t, &tx);
        n += 1;
        if !r.ok() {
            *a.classes.entry("deleverage_shapes:refused".into()).or_insert(0) += 1;
            continue;
        }
        *a.classes.entry("deleverage_shapes:committed".into()).or_insert(0) += 1;
        let rep = json!({"model": "C12shapes", "shape": format!("{:?}", l)});
        for u in 0..2 {
            let acct = world::account(&t, &w.users[u].account);
            if acct.account_flags & (marginfi_type_crate::types::ACCOUNT_IN_RECEIVERSHIP | marginfi_type_crate::types::ACCOUNT_IN_DELEVERAGE) != 0 {
                a.found.push(Found { clause: "C12.deleverage_bracketed".into(), sig: format!("marker:{:?}", l), detail: format!("{:?} committed and left the receivership / deleverage marker on account u{u}", l), replay: rep.clone() });
            }
            let starts: Vec<usize> = l.iter().enumerate().filter(|(_, y)| **y == Y::Start(u)).map(|(i, _)| i).collect();
            let ends: Vec<usize> = l.iter().enumerate().filter(|(_, y)| **y == Y::End(u)).map(|(i, _)| i).collect();
            let body: Vec<usize> = l.iter().enumerate().filter(|(_, y)| **y == Y::Repay(u) || **y == Y::Withdraw(u)).map(|(i, _)| i).collect();
            let well_formed = starts.len() == 1 && ends.len() == 1 && starts[0] == 0 && ends[0] == l.len() - 1 && body.iter().all(|i| *i > starts[0] && *i < ends[0]);
            if shares(&s, u) != shares(&t, u) && !well_formed {
                a.found.push(Found { clause: "C12.deleverage_bracketed".into(), sig: format!("shape:{:?}", l), detail: format!("{:?} committed and changed the balances of u{u} although the list is not [start(u{u}), repay / withdraw on u{u} ..., end(u{u})]", l), replay: rep.clone() });
            }
            if shares(&s, u) != shares(&t, u) {
                *a.classes.entry("deleverage_shapes:committed_with_balance_change".into()).or_insert(0) += 1;
            }
        }
    }
    n
}

fn deleverage(e: &Env, tier: Tier, a: &mut Acc) -> (u64, u64) {
    let mut s0 = e.s.clone();
    golden::fund_all_identities(e, &mut s0);
    let w = &e.w;
    // enlarge the debt so that several proportional repayments fit (B9 is $100, 9 decimals)
    let r = act::apply(w, &mut s0, &Action::Borrow { u: 0, b: 1, amt: 12_000_000_000 });
    assert!(r.committed, "C12 deleverage root: borrow {}", crate::svm::err_name(r.code));
    let mut states = 0u64;
    let mut trans = 0u64;
    // bank 0 token is worth $1 with 6 decimals: x dollars = x * 1e6 native
    let usd = |cents: u64| cents * 10_000;
    for limit in [0u32, 1, 100] {
        let mut s = s0.clone();
        if limit > 0 {
            assert!(process_tx(&mut s, &Tx::one(ix::configure_deleverage_withdrawal_limit(w.group, w.roles.admin, limit), &[w.roles.admin])).ok());
        }
        // history search: state = (store, window bookkeeping kept independently)
        #[derive(Clone)]
        struct St {
            s: Store,
            window_start: i64,
            window_sum: u64,
            path: Vec<String>,
        }
        let l = limit as u64;
        let menu_cents: Vec<u64> = {
            let mut m = vec![40, 99, 100, 101];
            if l > 1 {
                m.extend([(l - 1) * 100, l * 100, (l + 1) * 100]);
            }
            m
        };
        let depth = if tier == Tier::Quick { 3 } else { 4 };
        let mut frontier = vec![St { s: s.clone(), window_start: s.now, window_sum: 0, path: vec![] }];
        for _ in 0..depth {
            let mut next = vec![];
            for st in &frontier {
                for dt in [0i64, 86_399, 86_400, 86_401] {
                    if dt > 0 && st.path.iter().filter(|p| p.starts_with("advance")).count() >= 2 {
                        continue;
                    }
                    for &c in &menu_cents {
                        let mut t = st.s.clone();
                        let mut path = st.path.clone();
                        if dt > 0 {
                            t.advance(dt);
                            refresh_oracles(&mut t, w);
                            path.push(format!("advance({dt})"));
                        }
                        // repay enough that health cannot get worse
                        let pre_h = health::health(&t, &w.users[0].account, Req::Maintenance).unwrap();
                        let mut u = t.clone();
                        let r = process_tx(&mut u, &delev_tx(e, &t, usd(c), c * 130_000));
                        trans += 1;
                        path.push(format!("deleverage(withdraw ${}.{:02})", c / 100, c % 100));
                        let rep = json!({"model": "C12c", "limit": limit, "path": path});
                        if !r.ok() {
                            *a.classes.entry(format!("deleverage:limit{}:refused:{}", limit, crate::svm::err_name(r.code()))).or_insert(0) += 1;
                            continue;
                        }
                        *a.classes.entry(format!("deleverage:limit{}:ok", limit)).or_insert(0) += 1;
                        // reference bookkeeping: tumbling window of at least 24 h, whole dollars
                        let (mut ws, mut sum) = (st.window_start, st.window_sum);
                        if u.now - ws >= 86_400 {
                            ws = u.now;
                            sum = 0;
                        }
                        sum += c / 100;
                        if l > 0 && sum > l {
                            a.found.push(Found { clause: "C12.deleverage_daily_limit".into(), sig: format!("limit{limit}"), detail: format!("whole-dollar deleverage withdrawals reached ${} within a window that started {} s ago although the daily limit is ${} ({:?})", sum, u.now - ws, l, path), replay: rep.clone() });
                        }
                        let post_h = health::health(&u, &w.users[0].account, Req::Maintenance).unwrap();
                        if post_h.health() < pre_h.health() - pre_h.allow.clone() - post_h.allow.clone() {
                            a.found.push(Found { clause: "C12.deleverage_not_less_healthy".into(), sig: format!("limit{limit}"), detail: format!("deleverage left maintenance health at {:.6} from {:.6}", rf::qf64(&post_h.health()), rf::qf64(&pre_h.health())), replay: rep.clone() });
                        }
                        let acct = world::account(&u, &w.users[0].account);
                        if acct.account_flags & (marginfi_type_crate::types::ACCOUNT_IN_RECEIVERSHIP | marginfi_type_crate::types::ACCOUNT_IN_DELEVERAGE) != 0 {
                            a.found.push(Found { clause: "C12.deleverage_bracketed".into(), sig: "flags".into(), detail: "receivership / deleverage flag survived the transaction".into(), replay: rep });
                        }
                        next.push(St { s: u, window_start: ws, window_sum: sum, path });
                    }
                }
            }
            states += next.len() as u64;
            frontier = next;
            if frontier.len() > 4000 {
                frontier.truncate(4000);
            }
        }
    }
    // withdraw-all inside a deleverage counts with its full value against the daily limit
    for limit in [0u32, 100] {
        // from the unhealthy state: emptying the account cannot make its (negative) health worse
        let mut s = golden::unhealthy(e);
        golden::fund_all_identities(e, &mut s);
        if limit > 0 {
            assert!(process_tx(&mut s, &Tx::one(ix::configure_deleverage_withdrawal_limit(w.group, w.roles.admin, limit), &[w.roles.admin])).ok());
        }
        let acct = w.users[0].account;
        let risk = w.roles.risk;
        // rewards would keep the balance from closing: this bank stops emitting and nothing is outstanding
        world::edit_bank(&mut s, &w.banks[0].key, |b| b.flags &= !(EMISSIONS_FLAG_BORROW_ACTIVE | EMISSIONS_FLAG_LENDING_ACTIVE));
        world::edit_account(&mut s, &acct, |a| {
            for b in a.lending_account.balances.iter_mut() {
                b.emissions_outstanding = I80F48::ZERO.into();
            }
        });
        let rem = w.risk_metas(&s, &acct, None, None);
        let ta0 = golden::token_account_of(&s, &w.banks[0].mint, &risk).unwrap();
        let ta1 = golden::token_account_of(&s, &w.banks[1].mint, &risk).unwrap();
        let pos_usd = {
            let a = world::account(&s, &acct);
            let bk = world::bank(&s, &w.banks[0].key);
            a.lending_account.balances.iter().find(|b| b.active != 0 && b.bank_pk == w.banks[0].key).map(|b| rf::qf64(&(rf::q(b.asset_shares) * rf::q(bk.asset_share_value))) / 1e6).unwrap_or(0.0)
        };
        let ixs = vec![
            ix::start_deleverage(w.group, acct, risk, rem.clone()),
            ix::repay(w.group, acct, risk, w.banks[1].key, ta1, w.banks[1].token_program, 0, Some(true), vec![]),
            ix::withdraw(w.group, acct, risk, w.banks[0].key, ta0, w.banks[0].token_program, 0, Some(true), w.risk_metas(&s, &acct, None, Some(w.banks[1].key))),
            ix::end_deleverage(w.group, acct, risk, vec![]),
        ];
        let mut u = s.clone();
        let r = process_tx(&mut u, &Tx::new(ixs, &[risk]));
        trans += 1;
        *a.classes.entry(format!("deleverage:withdraw_all:limit{}:{}", limit, if r.ok() { "ok".to_string() } else { format!("refused:{}", crate::svm::err_name(r.code())) })).or_insert(0) += 1;
        if r.ok() && limit > 0 && pos_usd.floor() > limit as f64 {
            a.found.push(Found { clause: "C12.deleverage_daily_limit".into(), sig: format!("withdraw_all:limit{limit}"), detail: format!("a deleverage withdrew the whole position worth ${:.2} in one go although the daily limit is ${}", pos_usd, limit), replay: json!({"model": "C12c", "limit": limit, "withdraw_all": true}) });
        }
    }
    // purging a lender's balance is for wound-down banks only: refused unless the bank is flagged complete
    for (fname, flags) in [("no_flags", 0u64), ("allowed_only", TOKENLESS_REPAYMENTS_ALLOWED), ("allowed_and_complete", TOKENLESS_REPAYMENTS_ALLOWED | TOKENLESS_REPAYMENTS_COMPLETE)] {
        let mut s = s0.clone();
        world::edit_bank(&mut s, &w.banks[0].key, |b| b.flags |= flags);
        let before = world::account(&s, &w.users[0].account).lending_account;
        let mut u = s.clone();
        let r = process_tx(&mut u, &Tx::one(ix::purge_deleverage_balance(w.group, w.users[0].account, w.roles.risk, w.banks[0].key), &[w.roles.risk]));
        trans += 1;
        *a.classes.entry(format!("purge:{fname}:{}", if r.ok() { "ok" } else { "refused" })).or_insert(0) += 1;
        if r.ok() && flags & TOKENLESS_REPAYMENTS_COMPLETE == 0 && world::account(&u, &w.users[0].account).lending_account != before {
            a.found.push(Found { clause: "C12.risk_admin_only_what_deleveraging_needs".into(), sig: format!("purge:{fname}"), detail: format!("the risk admin purged a lender's balance in a bank that is not wound down (flags: {fname})"), replay: json!({"model": "C12c", "purge": fname}) });
        }
    }
    // a deleverage that only withdraws must be refused (health would get worse); by others too
    {
        let mut u = s0.clone();
        let r = process_tx(&mut u, &delev_tx(e, &s0, 50_000_000, 0));
        trans += 1;
        if r.ok() {
            let (h0, h1) = (health::health(&s0, &w.users[0].account, Req::Maintenance).unwrap(), health::health(&u, &w.users[0].account, Req::Maintenance).unwrap());
            if h1.health() < h0.health() - h0.allow.clone() - h1.allow.clone() {
                a.found.push(Found { clause: "C12.deleverage_not_less_healthy".into(), sig: "withdraw_only".into(), detail: "a withdraw-only deleverage lowered maintenance health".into(), replay: json!({"model": "C12c", "withdraw_only": true}) });
            }
        }
        *a.classes.entry(format!("deleverage:withdraw_only:{}", crate::svm::err_name(r.code()))).or_insert(0) += 1;
    }
    (states, trans)
}

pub fn run(tier: Tier) -> Outcome {
    let e = golden::build_env();
    let mut a = Acc { cells: 0, classes: BTreeMap::new(), found: vec![], samples: vec![] };
    frame_matrix(&e, tier, &mut a);
    staked_frozen_matrix(&e, &mut a);
    let (fs, ft) = freeze_bfs(&e, if tier == Tier::Quick { 2 } else { 3 }, &mut a);
    let (ds, dt) = deleverage(&e, tier, &mut a);
    // the bracket grid of C10 driven by the risk admin: partial amounts and close-outs on healthy and unhealthy accounts
    let dg = super::c10::deleverage_grid(tier, &mut a.classes, &mut a.found);
    a.cells += dg;
    let dsh = deleverage_shapes(&e, &mut a);
    a.cells += dsh;
    let shapes_vacuous = !a.classes.contains_key("deleverage_shapes:committed_with_balance_change") || !a.classes.contains_key("deleverage_shapes:refused");
    let mut o = Outcome { level: "exploration".into(), ..Default::default() };
    if shapes_vacuous {
        o.machinery.push("vacuity guard: the deleverage shape enumeration never committed a bracket with a balance change, or never refused a list".into());
    }
    o.found = a.found;
    let wrote: u64 = a.classes.iter().filter(|(k, _)| k.ends_with(":wrote")).map(|(_, v)| *v).sum();
    for kind in ["interest_only", "limits_only", "emode", "update_emissions", "setup_emissions", "metadata", "force_tokenless_repay_complete"] {
        if !a.classes.iter().any(|(k, v)| k.starts_with(kind) && k.ends_with(":wrote") && *v > 0) {
            o.machinery.push(format!("vacuity guard: {kind} never wrote anything"));
        }
    }
    if a.samples.is_empty() {
        a.samples.push(json!({"note": "see outcome classes"}));
    }
    o.coverage = json!({
        "evaluations": a.cells + ft + dt,
        "distinct_nontrivial": wrote,
        "rule": "(a) every case of {interest-only (each optional field alone, none, all), limits-only (full 4^3 product), e-mode configure / clone, setup / update emissions with flag words 0, all 64 single bits, all 128 subsets of the seven defined bits and all-ones, metadata, force-complete, and the group admin's configure_bank / oracle / fixed-price menus} x {bank with, without emissions} x {unfrozen, frozen}: byte diff of all accounts, bank bytes mapped to field regions, compared with the role's mask and the frozen-forbidden set; distinct_nontrivial = successful cases that wrote something; (b) BFS over the admin alphabet from frozen banks: FREEZE_SETTINGS must never clear; (c) sequences of deleverage transactions by the risk admin x withdrawal values {0.40, 0.99, 1.00, 1.01, L-1, L, L+1} $ x clock advances {0, 86399, 86400, 86401} x limits {none, 1, 100}: reference tumbling-window whole-dollar sum <= limit, health not worse, flags cleared",
        "exhaustive": true,
        "freeze_bfs_states": fs,
        "freeze_bfs_transitions": ft,
        "deleverage_states": ds,
        "deleverage_transactions": dt,
        "outcome_classes": a.classes,
        "samples": a.samples,
    });
    o.assumptions = vec!["environment model E1 (svm-lite)".into(), "frozen banks are produced by forging the FREEZE_SETTINGS bit (equivalent to configure_bank{freeze_settings: true})".into(), "the daily limit is read as a tumbling 24-hour window (the statement's 'within a day')".into()];
    let _ = Action::Accrue { b: 0 };
    let _ = act::stranger;
    o
}

pub fn replay(v: &serde_json::Value) -> Vec<crate::mc::Violation> {
    let o = run(Tier::Quick);
    let want = v["case"].as_str().map(|s| s.split(':').next().unwrap().to_string());
    o.found.into_iter().filter(|f| want.as_ref().map(|w| f.sig.starts_with(w.as_str())).unwrap_or(true)).map(|f| crate::mc::Violation { clause: f.clause, detail: f.detail }).collect()
}
