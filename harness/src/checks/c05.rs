//! C05 — classic liquidation: eligibility, improvement, bounds and the 95 / 97.5 / 2.5 % split.
//! Configuration product; the liquidatee's health is steered by bisecting the debt asset's oracle
//! price on the reference maintenance health; the seize amount is bisected through the real
//! instruction to the over-liquidation boundary and boundary amounts are executed.

use super::c04::Cfg as _Unused;
use super::Tier;
use crate::act::{self, Action};
use crate::evidence::{Found, Outcome};
use crate::health::{self, Req};
use crate::refmodel::{self as rf, Q};
use crate::ix;
use crate::svm::{process_tx, Store, Tx};
use crate::world::{self, *};
use fixed::types::I80F48;
use num_traits::{Signed, ToPrimitive, Zero};
use rayon::prelude::*;
use serde_json::json;
use std::collections::BTreeMap;
use std::sync::Mutex;

const ERR_HEALTHY: u64 = 6068;

#[derive(Clone, Copy, Debug, PartialEq, Eq, serde::Serialize, serde::Deserialize)]
pub enum Level {
    SlightlyPositive,
    SlightlyNegative,
    Negative,
    DeeplyNegative,
    NegativeOnlyAfterBias,
}

#[derive(Clone, Copy, Debug, PartialEq, Eq, serde::Serialize, serde::Deserialize)]
pub enum Liquidator {
    LargeDepositInDebtBank,
    SmallDepositInDebtBank,
    OnlyOtherCollateral,
    DebtInAssetBank,
    /// a few dollars of collateral only: larger seizures would leave the liquidator unhealthy
    ThinCollateral,
    /// the liquidator pays out of a deposit in the debt bank, and that deposit is what backs its own debt in a third
    /// bank (borrowed almost to the limit): swapping it for the seized collateral at its lower weight makes it unhealthy
    DebtBankDepositBacksThirdDebt,
}

#[derive(Clone, Debug, serde::Serialize, serde::Deserialize)]
pub struct Cfg {
    /// (asset decimals, liab decimals, asset is token-2022 with fee, liab is token-2022 with fee)
    pub pair: (u8, u8, bool, bool),
    pub level: Level,
    pub liquidator: Liquidator,
    pub asset_w_maint: f64,
    pub liab_w_maint: f64,
    pub asset_conf_pp: u64,
    /// departures from the flat world: EMA away from spot, share values away from one
    #[serde(default)]
    pub variant: Variant,
}

#[derive(Clone, Copy, Debug, PartialEq, Eq, serde::Serialize, serde::Deserialize, Default)]
pub enum Variant {
    #[default]
    Plain,
    /// both oracles' EMA 20 % below spot (set after the positions exist)
    EmaBelowSpot,
    /// both oracles' EMA 25 % above spot
    EmaAboveSpot,
    /// the collateral bank went through a socialised loss: asset share value 0.8
    AssetShareBelowOne,
    /// interest accrued everywhere: share values 1.2 .. 1.3
    SharesAboveOne,
    /// nobody touched the two banks for 180 days although both are heavily borrowed: eligibility and the
    /// improvement are judged at the share values the liquidation itself brings up to date
    StaleBanks,
    /// the liquidatee also owes a little to a second bank; both debt banks list the collateral's e-mode tag
    /// with different weights (0.85/0.95 and 0.70/0.90): the least favourable entry applies. The second
    /// bank's address sorts above / below the first one's
    EmodeTwoLiabsAbove,
    EmodeTwoLiabsBelow,
    /// the collateral bank caps the value that counts for *initial* margin at $50, far below its deposits; the cap
    /// has no say in maintenance health, which decides about liquidation
    CappedCollateral,
    /// the liquidatee holds a third collateral leg whose oracle has not been updated for an hour (the two banks
    /// of the liquidation are fresh): its maintenance health cannot be established, so nothing may be liquidated
    ThirdLegStale,
    /// the group admin raised the e-mode leverage caps to 100x and the debt bank grants the collateral's tag a
    /// maintenance weight of 0.98 (its own is lower): with a liability weight of 1.0 every dollar seized takes 0.98 of
    /// weighted collateral away for 0.95 of debt relief, so no liquidation can improve health - none may commit
    EmodeHighMaint,
}

fn emode_entry(tag: u16, i: f64, m: f64) -> marginfi_type_crate::types::EmodeEntry {
    marginfi_type_crate::types::EmodeEntry { collateral_bank_emode_tag: tag, flags: 0, pad0: [0; 5], asset_weight_init: I80F48::from_num(i).into(), asset_weight_maint: I80F48::from_num(m).into() }
}

fn emode_entries(v: &[marginfi_type_crate::types::EmodeEntry]) -> [marginfi_type_crate::types::EmodeEntry; marginfi_type_crate::types::MAX_EMODE_ENTRIES] {
    let mut a = [emode_entry(0, 0.0, 0.0); marginfi_type_crate::types::MAX_EMODE_ENTRIES];
    for (i, e) in v.iter().enumerate() {
        a[i] = *e;
    }
    a
}

/// the state in which the reference judges health: for the stale variant, the two banks brought up to date by
/// the real accrue instruction (which is what the liquidation does first)
fn judged_state(c: &Cfg, w: &World, s: &Store) -> Store {
    let mut t = s.clone();
    if c.variant == Variant::StaleBanks {
        for b in [0usize, 1] {
            let _ = act::apply(w, &mut t, &Action::Accrue { b });
        }
    }
    t
}

type Unused = _Unused;


fn pyth_spec(price_e8: i64, conf_pp: u64) -> OracleSpec {
    pyth_spec_ema(price_e8, conf_pp, 100)
}

fn pyth_spec_ema(price_e8: i64, conf_pp: u64, ema_pct: i64) -> OracleSpec {
    let conf = (price_e8 as u128 * conf_pp as u128 / 100_000) as u64;
    let ema = price_e8 * ema_pct / 100;
    OracleSpec::Pyth { price: price_e8, conf, ema_price: ema, ema_conf: (ema as u128 * conf_pp as u128 / 100_000) as u64, expo: -8 }
}

fn set_price(s: &mut Store, w: &World, b: usize, price_e8: i64, conf_pp: u64) {
    world::set_oracle(s, &w.banks[b].oracle.unwrap(), &pyth_spec(price_e8, conf_pp));
}

static DRAINED_OK: std::sync::atomic::AtomicU64 = std::sync::atomic::AtomicU64::new(0);
static DRAINED_REFUSED: std::sync::atomic::AtomicU64 = std::sync::atomic::AtomicU64::new(0);

pub struct Built {
    pub w: World,
    pub s: Store,
}

pub fn build(c: &Cfg, tag: &str) -> Option<Built> {
    let mk_mint = |name: &str, dec: u8, fee: bool| if fee { MintSpec::t22(name, dec, Some((50, 1_000_000))) } else { MintSpec::spl(name, dec) };
    let mut acfg = BankCfg::default();
    // (initial weights follow the maintenance ones where the menu would otherwise make the configuration invalid)
    acfg.asset_weight_init = I80F48::from_num(0.5f64.min(c.asset_w_maint));
    acfg.asset_weight_maint = I80F48::from_num(c.asset_w_maint);
    let mut lcfg = BankCfg::default();
    lcfg.liability_weight_init = I80F48::from_num(1.5f64.max(c.liab_w_maint));
    lcfg.liability_weight_maint = I80F48::from_num(c.liab_w_maint);
    let ccfg = BankCfg::default();
    // asset worth ~ $4 per whole token at 0 decimals would be coarse: price per whole token chosen per decimals
    let a_price: i64 = if c.pair.0 == 0 { 1_000_000 } else { 400_000_000 };
    let l_price: i64 = if c.pair.1 == 0 { 2_000_000 } else { 2_500_000_000 };
    let banks = vec![
        BankSpec { label: "A".into(), mint: mk_mint(&format!("c05a{}{}", c.pair.0, c.pair.2), c.pair.0, c.pair.2), oracle: pyth_spec(a_price, c.asset_conf_pp), config: acfg },
        BankSpec { label: "L".into(), mint: mk_mint(&format!("c05l{}{}", c.pair.1, c.pair.3), c.pair.1, c.pair.3), oracle: pyth_spec(l_price, 0), config: lcfg },
        BankSpec { label: "C3".into(), mint: MintSpec::spl("c05c3", 6), oracle: pyth_spec(100_000_000, 0), config: ccfg },
    ];
    let mut banks = banks;
    let emode2 = matches!(c.variant, Variant::EmodeTwoLiabsAbove | Variant::EmodeTwoLiabsBelow);
    if emode2 {
        let l_key = world::key(&format!("C05{tag}:bank:L"));
        let want_above = c.variant == Variant::EmodeTwoLiabsAbove;
        let label = (0..100_000).map(|i| format!("L2v{i}")).find(|l| (world::key(&format!("C05{tag}:bank:{l}")) > l_key) == want_above).unwrap();
        let mut l2cfg = BankCfg::default();
        l2cfg.liability_weight_init = I80F48::from_num(1.5);
        l2cfg.liability_weight_maint = I80F48::from_num(c.liab_w_maint);
        banks.push(BankSpec { label, mint: MintSpec::spl("c05l2", 6), oracle: pyth_spec(100_000_000, 0), config: l2cfg });
    }
    let users: &[&str] = if c.variant == Variant::StaleBanks { &["u0", "u1", "seeder", "whale"] } else { &["u0", "u1", "seeder"] };
    let mut spec = WorldSpec::new(&format!("C05{tag}"), banks, users);
    spec.user_funding_whole = if c.pair.0 >= 18 || c.pair.1 >= 18 { 10 } else { 100_000_000 };
    let (w, mut s) = build_world(&spec);
    let one = |b: usize| 10u128.pow(w.banks[b].decimals as u32);
    let usd = |b: usize, price_e8: i64, dollars: u128| -> u64 { (dollars * one(b) * 100_000_000 / price_e8 as u128).min(u64::MAX as u128 / 8192) as u64 };
    let go = |s: &mut Store, a: Action| act::apply(&w, s, &a).committed;
    // liquidity
    if !go(&mut s, Action::Deposit { u: 2, b: 1, amt: usd(1, l_price, 1_000_000), up_to_limit: None }) {
        return { if std::env::var("VERIF_C05_DEBUG").is_ok() { eprintln!("c05 build failed at site 1: {:?}", c); } None };
    }
    if !go(&mut s, Action::Deposit { u: 2, b: 0, amt: usd(0, a_price, 1_000_000), up_to_limit: None }) {
        return { if std::env::var("VERIF_C05_DEBUG").is_ok() { eprintln!("c05 build failed at site 2: {:?}", c); } None };
    }
    if !go(&mut s, Action::Deposit { u: 2, b: 2, amt: usd(2, 100_000_000, 1_000_000), up_to_limit: None }) {
        return { if std::env::var("VERIF_C05_DEBUG").is_ok() { eprintln!("c05 build failed at site 3: {:?}", c); } None };
    }
    // liquidatee: $1000 collateral (init weight 0.5), $300 debt (init weight 1.5 -> $450 <= $500)
    if !go(&mut s, Action::Deposit { u: 0, b: 0, amt: usd(0, a_price, 1000) + 1, up_to_limit: None }) {
        return { if std::env::var("VERIF_C05_DEBUG").is_ok() { eprintln!("c05 build failed at site 4: {:?}", c); } None };
    }
    if !go(&mut s, Action::Borrow { u: 0, b: 1, amt: usd(1, l_price, 300) + 1 }) {
        return { if std::env::var("VERIF_C05_DEBUG").is_ok() { eprintln!("c05 build failed at site 5: {:?}", c); } None };
    }
    if c.variant == Variant::ThirdLegStale {
        if !go(&mut s, Action::Deposit { u: 0, b: 2, amt: usd(2, 100_000_000, 150), up_to_limit: None }) {
            return None;
        }
    }
    // liquidator
    match c.liquidator {
        Liquidator::LargeDepositInDebtBank => {
            if !go(&mut s, Action::Deposit { u: 1, b: 1, amt: usd(1, l_price, 100_000), up_to_limit: None }) {
                return { if std::env::var("VERIF_C05_DEBUG").is_ok() { eprintln!("c05 build failed at site 6: {:?}", c); } None };
            }
        }
        Liquidator::SmallDepositInDebtBank => {
            if !go(&mut s, Action::Deposit { u: 1, b: 1, amt: usd(1, l_price, 20), up_to_limit: None }) {
                return { if std::env::var("VERIF_C05_DEBUG").is_ok() { eprintln!("c05 build failed at site 7: {:?}", c); } None };
            }
            if !go(&mut s, Action::Deposit { u: 1, b: 2, amt: usd(2, 100_000_000, 200_000), up_to_limit: None }) {
                return { if std::env::var("VERIF_C05_DEBUG").is_ok() { eprintln!("c05 build failed at site 8: {:?}", c); } None };
            }
        }
        Liquidator::OnlyOtherCollateral => {
            if !go(&mut s, Action::Deposit { u: 1, b: 2, amt: usd(2, 100_000_000, 200_000), up_to_limit: None }) {
                return { if std::env::var("VERIF_C05_DEBUG").is_ok() { eprintln!("c05 build failed at site 9: {:?}", c); } None };
            }
        }
        Liquidator::ThinCollateral => {
            if !go(&mut s, Action::Deposit { u: 1, b: 2, amt: usd(2, 100_000_000, 40), up_to_limit: None }) {
                return { if std::env::var("VERIF_C05_DEBUG").is_ok() { eprintln!("c05 build failed at site 10: {:?}", c); } None };
            }
        }
        Liquidator::DebtBankDepositBacksThirdDebt => {
            if !go(&mut s, Action::Deposit { u: 1, b: 1, amt: usd(1, l_price, 400), up_to_limit: None }) {
                return { if std::env::var("VERIF_C05_DEBUG").is_ok() { eprintln!("c05 build failed at site 10b: {:?}", c); } None };
            }
            // borrow from the third bank as much as the deposit carries (largest of a descending menu that commits)
            let mut borrowed = false;
            for cents in [39_000u128, 35_000, 30_000, 25_000, 20_000, 15_000, 10_000, 5_000] {
                let amt = usd(2, 100_000_000, cents) / 100;
                if go(&mut s, Action::Borrow { u: 1, b: 2, amt }) {
                    borrowed = true;
                    break;
                }
            }
            if !borrowed {
                return { if std::env::var("VERIF_C05_DEBUG").is_ok() { eprintln!("c05 build failed at site 10c: {:?}", c); } None };
            }
        }
        Liquidator::DebtInAssetBank => {
            if !go(&mut s, Action::Deposit { u: 1, b: 2, amt: usd(2, 100_000_000, 200_000), up_to_limit: None }) {
                return { if std::env::var("VERIF_C05_DEBUG").is_ok() { eprintln!("c05 build failed at site 11: {:?}", c); } None };
            }
            if !go(&mut s, Action::Borrow { u: 1, b: 0, amt: usd(0, a_price, 150) + 1 }) {
                return { if std::env::var("VERIF_C05_DEBUG").is_ok() { eprintln!("c05 build failed at site 12: {:?}", c); } None };
            }
        }
    }
    if emode2 {
        // liquidity in the second debt bank, a small second debt, and the two e-mode tables
        if !go(&mut s, Action::Deposit { u: 2, b: 3, amt: usd(3, 100_000_000, 1_000_000), up_to_limit: None }) {
            return { if std::env::var("VERIF_C05_DEBUG").is_ok() { eprintln!("c05 build failed at site 13: {:?}", c); } None };
        }
        if !go(&mut s, Action::Borrow { u: 0, b: 3, amt: usd(3, 100_000_000, 20) + 1 }) {
            return { if std::env::var("VERIF_C05_DEBUG").is_ok() { eprintln!("c05 build failed at site 14: {:?}", c); } None };
        }
        let (g, em) = (w.group, w.roles.emode);
        let cfgs = [(0usize, 7u16, emode_entries(&[])), (1, 0, emode_entries(&[emode_entry(7, 0.85, 0.95)])), (3, 0, emode_entries(&[emode_entry(7, 0.70, 0.90)]))];
        for (b, tagv, ents) in cfgs {
            let r = process_tx(&mut s, &Tx::one(ix::configure_bank_emode(g, em, w.banks[b].key, tagv, ents), &[em]));
            if !r.ok() {
                return { if std::env::var("VERIF_C05_DEBUG").is_ok() { eprintln!("c05 build failed at site 15 (bank {b}: {}): {:?}", crate::svm::err_name(r.code()), c); } None };
            }
        }
    }
    if c.variant == Variant::EmodeHighMaint {
        let (g, em) = (w.group, w.roles.emode);
        let hundred: marginfi_type_crate::types::WrappedI80F48 = I80F48::from_num(100).into();
        let ninety: marginfi_type_crate::types::WrappedI80F48 = I80F48::from_num(90).into();
        if !process_tx(&mut s, &Tx::one(ix::group_configure(g, w.roles.admin, &w.roles, Some(ninety), Some(hundred)), &[w.roles.admin])).ok() {
            return None;
        }
        for (b, tagv, ents) in [(0usize, 7u16, emode_entries(&[])), (1, 0, emode_entries(&[emode_entry(7, 0.5, 0.98)]))] {
            if !process_tx(&mut s, &Tx::one(ix::configure_bank_emode(g, em, w.banks[b].key, tagv, ents), &[em])).ok() {
                return { if std::env::var("VERIF_C05_DEBUG").is_ok() { eprintln!("c05 build failed at the high-maint e-mode table: {:?}", c); } None };
            }
        }
    }
    if c.variant == Variant::StaleBanks {
        // the seeder borrows heavily from both banks, then half a year passes without anybody touching them
        // a fourth user lends $3M of the third asset and borrows heavily from both banks
        for a in [Action::Deposit { u: 3, b: 2, amt: usd(2, 100_000_000, 3_000_000), up_to_limit: None }, Action::Borrow { u: 3, b: 0, amt: usd(0, a_price, 500_000) }, Action::Borrow { u: 3, b: 1, amt: usd(1, l_price, 300_000) }] {
            let r16 = act::apply(&w, &mut s, &a);
            if !r16.committed {
                return { if std::env::var("VERIF_C05_DEBUG").is_ok() { eprintln!("c05 build failed at site 16 ({:?}: {}): {:?}", a, crate::svm::err_name(r16.code), c); } None };
            }
        }
        s.advance(86_400 * 180);
        world::refresh_oracles(&mut s, &w);
    }
    match c.variant {
        Variant::AssetShareBelowOne => world::edit_bank(&mut s, &w.banks[0].key, |b| b.asset_share_value = (I80F48::from(b.asset_share_value) * I80F48::from_num(0.8)).into()),
        Variant::SharesAboveOne => {
            world::edit_bank(&mut s, &w.banks[0].key, |b| {
                b.asset_share_value = (I80F48::from(b.asset_share_value) * I80F48::from_num(1.25)).into();
                b.liability_share_value = (I80F48::from(b.liability_share_value) * I80F48::from_num(1.3)).into();
            });
            world::edit_bank(&mut s, &w.banks[1].key, |b| {
                b.asset_share_value = (I80F48::from(b.asset_share_value) * I80F48::from_num(1.2)).into();
                b.liability_share_value = (I80F48::from(b.liability_share_value) * I80F48::from_num(1.3)).into();
            });
        }
        _ => {}
    }
    if c.variant == Variant::CappedCollateral {
        world::edit_bank(&mut s, &w.banks[0].key, |b| b.config.total_asset_value_init_limit = 50);
    }
    // steer the liquidatee's maintenance health with the debt asset's price
    let acct = w.users[0].account;
    let hm = |s: &Store| health::health(&judged_state(c, &w, s), &acct, Req::Maintenance).unwrap().health();
    let (mut lo, mut hi) = (l_price, l_price * 64);
    {
        let mut t = s.clone();
        set_price(&mut t, &w, 1, hi, 0);
        if !hm(&t).is_negative() {
            return { if std::env::var("VERIF_C05_DEBUG").is_ok() { eprintln!("c05 build failed at site 18: {:?}", c); } None };
        }
    }
    // largest price with health >= 0
    while hi - lo > 1 {
        let mid = lo + (hi - lo) / 2;
        let mut t = s.clone();
        set_price(&mut t, &w, 1, mid, 0);
        if hm(&t).is_negative() {
            hi = mid;
        } else {
            lo = mid;
        }
    }
    match c.level {
        Level::SlightlyPositive => set_price(&mut s, &w, 1, lo, 0),
        Level::SlightlyNegative => set_price(&mut s, &w, 1, hi, 0),
        Level::Negative => set_price(&mut s, &w, 1, hi + hi / 10, 0),
        Level::DeeplyNegative => set_price(&mut s, &w, 1, hi * 3, 0),
        Level::NegativeOnlyAfterBias => set_price(&mut s, &w, 1, lo - lo / 200, 1000),
    }
    if c.liquidator == Liquidator::DebtBankDepositBacksThirdDebt {
        // the debt asset's price has moved (and with it the worth of the liquidator's deposit): the liquidator now
        // borrows from the third bank up to its limit, in steps of decreasing size
        let mut step = usd(2, 100_000_000, 100_000);
        while step >= 1_000 {
            while go(&mut s, Action::Borrow { u: 1, b: 2, amt: step }) {}
            step /= 4;
        }
    }
    if c.variant == Variant::ThirdLegStale {
        let keep = s.get(&w.banks[2].oracle.unwrap()).cloned().unwrap();
        s.advance(3_600);
        world::refresh_oracles(&mut s, &w);
        s.set(w.banks[2].oracle.unwrap(), keep);
    }
    // the time-weighted prices move away from spot only now: maintenance health (spot) is unchanged
    let ema_pct = match c.variant {
        Variant::EmaBelowSpot => 80,
        Variant::EmaAboveSpot => 125,
        _ => 100,
    };
    if ema_pct != 100 {
        for bi in [0usize, 1] {
            let ok = w.banks[bi].oracle.unwrap();
            let raw = health::parse_pyth(&s.get(&ok).unwrap().data).unwrap();
            let (price, conf) = (raw.price, raw.conf);
            let conf_pp = (conf as u128 * 100_000 / price.max(1) as u128) as u64;
            world::set_oracle(&mut s, &ok, &pyth_spec_ema(price, conf_pp, ema_pct));
        }
    }
    Some(Built { w, s })
}

struct Pos {
    asset: Q,
    liab: Q,
    a_sh: Q,
    l_sh: Q,
}

fn pos(s: &Store, w: &World, u: usize, b: usize) -> Pos {
    let a = world::account(s, &w.users[u].account);
    let bank = world::bank(s, &w.banks[b].key);
    for bal in a.lending_account.balances.iter() {
        if bal.active != 0 && bal.bank_pk == w.banks[b].key {
            return Pos { asset: rf::q(bal.asset_shares) * rf::q(bank.asset_share_value), liab: rf::q(bal.liability_shares) * rf::q(bank.liability_share_value), a_sh: rf::q(bal.asset_shares), l_sh: rf::q(bal.liability_shares) };
        }
    }
    Pos { asset: rf::qzero(), liab: rf::qzero(), a_sh: rf::qzero(), l_sh: rf::qzero() }
}

struct R {
    class: String,
    found: Vec<Found>,
    execs: u64,
}

fn sig(c: &Cfg) -> String {
    if c.variant == Variant::Plain {
        format!("{:?}:{:?}", c.level, c.liquidator)
    } else {
        format!("{:?}:{:?}:{:?}", c.level, c.liquidator, c.variant)
    }
}

fn judge(c: &Cfg, b: &Built, amt: u64, found: &mut Vec<Found>) -> (bool, u64) {
    let w = &b.w;
    let mut t = b.s.clone(); // the program sees the stored (possibly stale) state
    let pre_state = judged_state(c, w, &b.s);
    let pre_h = health::health(&pre_state, &w.users[0].account, Req::Maintenance).unwrap();
    let r = act::apply(w, &mut t, &Action::Liquidate { liquidator: 1, liquidatee: 0, asset: 0, liab: 1, amt });
    let rep = json!({"model": "C05", "cfg": c, "amount": amt});
    let mut fail = |clause: &str, detail: String| found.push(Found { clause: clause.into(), sig: sig(c), detail, replay: rep.clone() });
    if !r.committed {
        if r.code == ERR_HEALTHY && pre_h.health() < -pre_h.allow.clone() {
            fail("C05.unhealthy_is_liquidatable", format!("liquidation of {} refused as healthy although reference maintenance health is {:.9}", amt, rf::qf64(&pre_h.health())));
        }
        return (false, r.code);
    }
    // eligibility
    if let Some(e) = &pre_h.engine_err {
        fail("C05.only_when_unhealthy", format!("liquidation of {} succeeded although the liquidatee's maintenance health cannot be established ({:?} on one of its positions)", amt, e));
        return (true, 0);
    }
    if pre_h.health() > pre_h.allow.clone() {
        fail("C05.only_when_unhealthy", format!("liquidation of {} succeeded although reference maintenance health before was {:.9} > 0", amt, rf::qf64(&pre_h.health())));
    }
    let post_h = health::health(&t, &w.users[0].account, Req::Maintenance).unwrap();
    let allow = pre_h.allow.clone() + post_h.allow.clone();
    if post_h.health() < pre_h.health() - allow.clone() {
        fail("C05.health_improves", format!("maintenance health fell from {:.9} to {:.9}", rf::qf64(&pre_h.health()), rf::qf64(&post_h.health())));
    }
    if post_h.health() > allow.clone() {
        fail("C05.still_not_positive", format!("maintenance health after liquidation is {:.9} > 0 (seized {})", rf::qf64(&post_h.health()), amt));
    }
    // no flips on the liquidatee
    let (le_a0, le_l0) = (pos(&pre_state, w, 0, 0), pos(&pre_state, w, 0, 1));
    let (le_a1, le_l1) = (pos(&t, w, 0, 0), pos(&t, w, 0, 1));
    if le_l1.a_sh >= rf::qone() || le_l1.l_sh < rf::qone() {
        fail("C05.debt_not_flipped", format!("liquidatee's debt position ended with asset shares {:.6} / liability shares {:.6}", rf::qf64(&le_l1.a_sh), rf::qf64(&le_l1.l_sh)));
    }
    if le_a1.l_sh >= rf::qone() {
        fail("C05.collateral_not_flipped", format!("liquidatee's collateral position turned into a debt of {:.6}", rf::qf64(&le_a1.liab)));
    }
    // liquidator stays initially healthy
    let lq_h = health::health(&t, &w.users[1].account, Req::Initial).unwrap();
    if lq_h.engine_err.is_none() && lq_h.health() < -lq_h.allow.clone() {
        fail("C05.liquidator_healthy", format!("liquidator ends with reference initial health {:.9}", rf::qf64(&lq_h.health())));
    }
    // the split
    let (ab, lb) = (world::bank(&pre_state, &w.banks[0].key), world::bank(&pre_state, &w.banks[1].key));
    let (oa, ol) = (health::oracle_ref(&pre_state, &ab), health::oracle_ref(&pre_state, &lb));
    if let (Ok(oa), Ok(ol)) = (oa, ol) {
        if let (Ok(pa), Ok(pl)) = (oa.biased(Req::Maintenance, false), ol.biased(Req::Maintenance, true)) {
            let (da, dl) = (rf::pow10(ab.mint_decimals as u32), rf::pow10(lb.mint_decimals as u32));
            let value = rf::qu(amt) * pa.clone() / da;
            let to_l = |v: Q| v * dl.clone() / pl.clone();
            // the statement's figures: liquidator keeps 2.5 %, insurance gets 2.5 %
            let f_liq = rf::qfrac(1, 40);
            let f_ins = rf::qfrac(1, 40);
            let q_ll = to_l(value.clone() * (rf::qone() - f_liq.clone()));
            let q_lf = to_l(value.clone() * (rf::qone() - f_liq - f_ins));
            let fee = q_ll.clone() - q_lf.clone();
            // allowance in native units of the debt mint
            let amp = rf::qone() + dl.clone() / pl.clone();
            // ... plus the representation error of the two prices themselves: a price is held at 2^-48
            // resolution, i.e. with a relative error of up to ulp / price
            let price_repr = rf::ulp() * rf::qi(8) * (rf::qone() / pa.clone() + rf::qone() / pl.clone() + rf::qone());
            let al = rf::ulp() * rf::qi(1024) * amp * (rf::qone() + rf::q(lb.liability_share_value) + rf::q(lb.asset_share_value)) + rf::ulp() * rf::qi(64) * (q_ll.clone() + rf::qone()) + q_ll.clone() * price_repr;
            let relief = le_l0.liab.clone() - le_l1.liab.clone();
            if rf::qabs(&(relief.clone() - q_lf.clone())) > al {
                fail("C05.split_liquidatee_95", format!("liquidatee's debt fell by {:.9} but 95% of the seized value is {:.9} native units", rf::qf64(&relief), rf::qf64(&q_lf)));
            }
            let (lq0, lq1) = (pos(&pre_state, w, 1, 1), pos(&t, w, 1, 1));
            let paid = (lq0.asset.clone() - lq0.liab.clone()) - (lq1.asset.clone() - lq1.liab.clone());
            if rf::qabs(&(paid.clone() - q_ll.clone())) > al {
                fail("C05.split_liquidator_975", format!("liquidator's debt-bank position fell by {:.9} but 97.5% of the seized value is {:.9}", rf::qf64(&paid), rf::qf64(&q_ll)));
            }
            // insurance: whole tokens to the vault, the fraction to outstanding insurance fees
            let (n0, n1) = (rf::bank_nums(&pre_state, &w.banks[1]), rf::bank_nums(&t, &w.banks[1]));
            let vault_out = n0.vault as i128 - n1.vault as i128;
            let fee_lo = rf::qfloor(&(fee.clone() - al.clone())).to_i128().unwrap_or(0).max(0);
            let fee_hi = rf::qfloor(&(fee.clone() + al.clone())).to_i128().unwrap_or(0);
            if vault_out < fee_lo || vault_out > fee_hi {
                fail("C05.split_insurance_whole", format!("liquidity vault paid {} to insurance but the whole-token part of the 2.5% fee {:.9} is {}..{}", vault_out, rf::qf64(&fee), fee_lo, fee_hi));
            }
            let ins_in = n1.ins_vault as i128 - n0.ins_vault as i128;
            if ins_in > vault_out || (!w.banks[1].t22 && ins_in != vault_out) {
                fail("C05.split_insurance_vault", format!("insurance vault received {} of the {} sent", ins_in, vault_out));
            }
            let booked = rf::q_raw(n1.f_ins - n0.f_ins) + rf::qi(vault_out);
            if rf::qabs(&(booked.clone() - fee.clone())) > al {
                fail("C05.split_insurance_total", format!("insurance received {:.9} in total (vault + outstanding fees) but the 2.5% fee is {:.9}", rf::qf64(&booked), rf::qf64(&fee)));
            }
            // seized collateral moves one-to-one
            let taken = le_a0.asset.clone() - le_a1.asset.clone();
            let aa = rf::ulp() * rf::qi(64) * (rf::qone() + rf::q(ab.asset_share_value) + rf::q(ab.liability_share_value));
            if rf::qabs(&(taken.clone() - rf::qu(amt))) > aa {
                fail("C05.seized_amount", format!("liquidatee lost {:.9} collateral for a seize amount of {}", rf::qf64(&taken), amt));
            }
        }
    }
    (true, 0)
}

fn run_cfg(c: &Cfg, idx: usize) -> R {
    let Some(b) = build(c, &idx.to_string()) else { return R { class: format!("unbuildable:{:?}", c.variant), found: vec![], execs: 0 } };
    let mut found = vec![];
    let mut execs = 0u64;
    let w = &b.w;
    let coll = rf::qfloor(&pos(&b.s, w, 0, 0).asset).to_u64().unwrap_or(0);
    // over-liquidation boundary by bisection
    let mut ex = |amt: u64, found: &mut Vec<Found>| {
        execs += 1;
        judge(c, &b, amt, found)
    };
    let (ok1, code1) = ex(1, &mut found);
    let mut boundary = 0u64;
    if ok1 {
        let (okc, _) = ex(coll.max(1), &mut found);
        if okc {
            boundary = coll;
        } else {
            let (mut lo, mut hi) = (1u64, coll.max(2));
            while hi - lo > 1 {
                let mid = lo + (hi - lo) / 2;
                if ex(mid, &mut found).0 {
                    lo = mid;
                } else {
                    hi = mid;
                }
            }
            boundary = lo;
        }
    }
    let shares = rf::qfloor(&pos(&b.s, w, 0, 0).a_sh).to_u64().unwrap_or(0);
    let mut amts = vec![1u64, 2, 3, coll.saturating_sub(1), coll, coll + 1, coll / 2, coll / 7 + 1, u64::MAX / 4, shares.saturating_sub(1).max(1), shares.max(1), shares + 1, (coll + shares) / 2 + 1];
    for d in [-2i64, -1, 1, 2] {
        amts.push((boundary as i64 + d).max(1) as u64);
    }
    amts.retain(|x| *x >= 1);
    amts.sort();
    amts.dedup();
    let mut first_reject_code = code1;
    for a in amts {
        let (ok, code) = ex(a, &mut found);
        if !ok && a == boundary + 1 {
            first_reject_code = code;
        }
    }
    // the same liquidation with the liquidator's own token account offered in the place of the debt bank's
    // insurance vault / liquidity vault: if it commits, the 2.5 % did not go to the bank's insurance
    let mut swap_class = "";
    if boundary >= 1 {
        let amt = (boundary / 2).max(1);
        for kind in [1u8, 0u8] {
            let mut t = b.s.clone();
            let base = Action::Liquidate { liquidator: 1, liquidatee: 0, asset: 0, liab: 1, amt };
            let r = act::apply(w, &mut t, &Action::WithVaultSwap { base: Box::new(base), bank: 1, kind });
            execs += 1;
            if r.committed {
                swap_class = ":VAULT_SWAP_ACCEPTED";
                let which = if kind == 1 { "insurance vault" } else { "liquidity vault" };
                let (n0, n1) = (rf::bank_nums(&b.s, &w.banks[1]), rf::bank_nums(&t, &w.banks[1]));
                found.push(Found {
                    clause: "C05.split_insurance_vault".into(),
                    sig: format!("{}:vault_swap:{which}", sig(c)),
                    detail: format!("a liquidation of {amt} naming the liquidator's own token account as the debt bank's {which} succeeded: the bank's insurance vault went {} -> {}, its liquidity vault {} -> {}", n0.ins_vault, n1.ins_vault, n0.vault, n1.vault),
                    replay: json!({"model": "C05", "cfg": c, "amount": amt, "vault_swap": kind}),
                });
            } else if swap_class.is_empty() {
                swap_class = ":vault_swap_refused";
            }
        }
    }
    // the same liquidations against a debt bank whose liquidity vault is (almost) empty - fully lent out: the
    // insurance share still goes to the insurance vault in whole tokens, or the liquidation fails as a whole
    if boundary >= 1 {
        let lv = crate::ix::liquidity_vault(&w.banks[1].key).0;
        for left in [0u64, 1, 1_000] {
            let mut b2 = Built { w: b.w.clone(), s: b.s.clone() };
            world::set_token_amount(&mut b2.s, &lv, left);
            for amt in [boundary, (boundary / 2).max(1)] {
                let (ok, _) = judge(c, &b2, amt, &mut found);
                execs += 1;
                if ok {
                    DRAINED_OK.fetch_add(1, std::sync::atomic::Ordering::Relaxed);
                } else {
                    DRAINED_REFUSED.fetch_add(1, std::sync::atomic::Ordering::Relaxed);
                }
            }
        }
    }
    let class = format!("{:?}:{:?}:{}{swap_class}", c.level, c.liquidator, if boundary == 0 { format!("never:{}", crate::svm::err_name(code1)) } else if boundary == coll { "whole_collateral".into() } else { format!("bounded:{}", crate::svm::err_name(first_reject_code)) });
    R { class, found, execs }
}

pub fn configs(tier: Tier) -> Vec<Cfg> {
    let pairs: &[(u8, u8, bool, bool)] = if tier == Tier::Quick { &[(6, 9, false, false), (9, 6, false, true), (8, 6, true, false)] } else { &[(6, 9, false, false), (9, 6, false, true), (8, 6, true, false), (0, 9, false, false), (6, 0, false, false), (9, 9, false, false), (6, 6, true, true)] };
    let levels = [Level::SlightlyPositive, Level::SlightlyNegative, Level::Negative, Level::DeeplyNegative, Level::NegativeOnlyAfterBias];
    let lqs = [Liquidator::LargeDepositInDebtBank, Liquidator::SmallDepositInDebtBank, Liquidator::OnlyOtherCollateral, Liquidator::DebtInAssetBank, Liquidator::ThinCollateral, Liquidator::DebtBankDepositBacksThirdDebt];
    let mut v = vec![];
    let weights: &[(f64, f64)] = if tier == Tier::Quick { &[(0.9, 1.1), (0.6, 1.0), (1.0, 1.4), (1.0, 1.0)] } else { &[(0.9, 1.1), (0.6, 1.0), (1.0, 1.4), (1.0, 1.0), (0.05, 1.0), (0.999, 1.001), (0.5, 2.0), (0.95, 1.05)] };
    let confs: &[u64] = if tier == Tier::Quick { &[0, 500] } else { &[0, 1, 100, 500, 2_000, 4_999] };
    for &pair in pairs {
        for &level in &levels {
            for &liquidator in &lqs {
                for &(aw, lw) in weights {
                    for &conf in confs {
                        v.push(Cfg { pair, level, liquidator, asset_w_maint: aw, liab_w_maint: lw, asset_conf_pp: conf, variant: Variant::Plain });
                    }
                }
            }
        }
    }
    // a collateral-value cap that must not reach maintenance health, and an unrelated collateral leg gone stale
    for variant in [Variant::CappedCollateral, Variant::ThirdLegStale] {
        for &pair in pairs {
            for &level in &[Level::SlightlyPositive, Level::SlightlyNegative, Level::Negative] {
                for &(aw, lw) in &[(0.9, 1.1), (0.6, 1.0)] {
                    v.push(Cfg { pair, level, liquidator: Liquidator::LargeDepositInDebtBank, asset_w_maint: aw, liab_w_maint: lw, asset_conf_pp: 0, variant });
                }
            }
        }
    }
    for &pair in pairs {
        for level in [Level::SlightlyNegative, Level::Negative, Level::DeeplyNegative] {
            for liquidator in [Liquidator::LargeDepositInDebtBank, Liquidator::OnlyOtherCollateral] {
                v.push(Cfg { pair, level, liquidator, asset_w_maint: 0.6, liab_w_maint: 1.0, asset_conf_pp: 0, variant: Variant::EmodeHighMaint });
            }
        }
    }
    // departures from the flat world on a sub-product
    for variant in [Variant::EmaBelowSpot, Variant::EmaAboveSpot, Variant::AssetShareBelowOne, Variant::SharesAboveOne, Variant::StaleBanks, Variant::EmodeTwoLiabsAbove, Variant::EmodeTwoLiabsBelow] {
        for &pair in pairs {
            let vlevels: &[Level] = if tier == Tier::Quick { &[Level::SlightlyNegative, Level::Negative, Level::DeeplyNegative] } else { &levels };
            let vlqs: &[Liquidator] = if tier == Tier::Quick { &[Liquidator::LargeDepositInDebtBank, Liquidator::OnlyOtherCollateral] } else { &lqs };
            for &level in vlevels {
                for &liquidator in vlqs {
                    let emode_variant = matches!(variant, Variant::EmodeTwoLiabsAbove | Variant::EmodeTwoLiabsBelow);
                    let vweights: &[(f64, f64)] = if emode_variant { &[(0.9, 1.1), (0.6, 1.25)] } else { &[(0.9, 1.1), (1.0, 1.0)] };
                    for &(aw, lw) in vweights {
                        for &conf in &[0u64, 500] {
                            v.push(Cfg { pair, level, liquidator, asset_w_maint: aw, liab_w_maint: lw, asset_conf_pp: conf, variant });
                        }
                    }
                }
            }
        }
    }
    v
}

pub fn run(tier: Tier) -> Outcome {
    let _ = std::mem::size_of::<Unused>();
    let cfgs = configs(tier);
    let pool = rayon::ThreadPoolBuilder::new().num_threads(16).stack_size(64 << 20).build().unwrap();
    let results: Mutex<Vec<(usize, R)>> = Mutex::new(vec![]);
    pool.install(|| {
        cfgs.par_iter().enumerate().for_each(|(i, c)| {
            let r = run_cfg(c, i % 64);
            results.lock().unwrap().push((i, r));
        })
    });
    let mut res = results.into_inner().unwrap();
    res.sort_by_key(|x| x.0);
    let mut o = Outcome { level: "exploration".into(), ..Default::default() };
    let mut classes: BTreeMap<String, u64> = BTreeMap::new();
    let mut execs = 0;
    let mut samples = vec![];
    for (i, r) in &res {
        *classes.entry(r.class.clone()).or_insert(0) += 1;
        execs += r.execs;
        if samples.len() < 4 && i % 97 == 5 {
            samples.push(json!({"cfg": cfgs[*i], "class": r.class}));
        }
    }
    for (_, r) in res {
        o.found.extend(r.found);
    }
    let liquidated = classes.iter().filter(|(k, _)| k.contains("bounded") || k.contains("whole_collateral")).map(|(_, v)| *v).sum::<u64>();
    if liquidated == 0 {
        o.machinery.push("vacuity guard: no configuration was liquidatable".into());
    }
    classes.insert("drained_debt_vault:liquidation_committed".into(), DRAINED_OK.load(std::sync::atomic::Ordering::Relaxed));
    classes.insert("drained_debt_vault:liquidation_refused".into(), DRAINED_REFUSED.load(std::sync::atomic::Ordering::Relaxed));
    o.coverage = json!({
        "evaluations": execs,
        "distinct_nontrivial": liquidated,
        "rule": "complete product of (asset/debt mint decimals and token program) x liquidatee health level (steered by bisecting the debt oracle price on the reference: one tick above zero, one tick below, -10 %, x3, positive-unless-biased) x liquidator portfolio (large / small deposit in the debt bank, only other collateral, a debt in the asset bank) x maintenance weights x collateral confidence; per configuration the seize amount is bisected through the real instruction and 1,2,3, boundary+-2, collateral+-1, fractions and an over-size amount are executed; every success is judged against the exact reference (eligibility, improvement, non-positivity, no flips, liquidator health, 95/97.5/2.5 split incl. whole/fractional insurance parts); per liquidatable configuration the same call with the liquidator's own token account in the place of the debt bank's insurance / liquidity vault must be refused; distinct_nontrivial = configurations with at least one successful liquidation",
        "configurations": cfgs.len(),
        "exhaustive": true,
        "outcome_classes": classes,
        "samples": samples,
    });
    o.assumptions = vec!["environment model E1 (svm-lite)".into(), "health levels are produced by rewriting forged Pyth accounts".into()];
    o
}

pub fn replay(v: &serde_json::Value) -> Vec<crate::mc::Violation> {
    let c: Cfg = serde_json::from_value(v["cfg"].clone()).expect("cfg");
    let Some(b) = build(&c, "0") else { return vec![] };
    let mut found = vec![];
    judge(&c, &b, v["amount"].as_u64().unwrap_or(1), &mut found);
    found.into_iter().map(|f| crate::mc::Violation { clause: f.clause, detail: f.detail }).collect()
}
