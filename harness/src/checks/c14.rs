//! C14 — operational-state and global-pause gating: complete matrices through the real entrypoint.
//! (A) financial instruction x bank role x bank state; (B) every instruction x pause situation and
//! timing around the exact expiry second, judged observationally (no position or token movement
//! while the pause is in force; identical verdict to the never-paused world once it has expired).

use super::Tier;
use crate::act::{self, Action};
use crate::evidence::{Found, Outcome};
use crate::golden::{self, Env, Golden, Kind, Role};
use crate::ix;
use crate::refmodel as rf;
use crate::svm::{process_tx, Store, Tx};
use crate::world::{self, *};
use marginfi_type_crate::types::BankOperationalState;
use serde_json::json;
use std::collections::BTreeMap;

fn set_state(s: &mut Store, e: &Env, b: usize, st: BankOperationalState) {
    world::edit_bank(s, &e.w.banks[b].key, |bk| bk.config.operational_state = st);
}

/// Did positions or protocol-held funds of the group change? Positions: every balance of every
/// marginfi account present before and after (a newly created account must be empty, a removed one
/// must have been empty); funds: liquidity / insurance / fee vault amounts of every bank of the
/// group, and outflows of emissions vaults.
fn moved(e: &Env, pre: &Store, post: &Store) -> Option<String> {
    let a0 = rf::all_accounts(pre);
    let a1 = rf::all_accounts(post);
    let nonempty = |a: &marginfi_type_crate::types::MarginfiAccount| a.lending_account.balances.iter().any(|b| b.active != 0);
    for (k, a) in &a0 {
        match a1.iter().find(|(k1, _)| k1 == k) {
            Some((_, b)) => {
                for (x, y) in a.lending_account.balances.iter().zip(b.lending_account.balances.iter()) {
                    if x.active != y.active || x.bank_pk != y.bank_pk || x.asset_shares.value != y.asset_shares.value || x.liability_shares.value != y.liability_shares.value {
                        return Some(format!("positions of account {} changed", world::label_of(k)));
                    }
                }
            }
            None => {
                if nonempty(a) {
                    return Some(format!("account {} with positions disappeared", world::label_of(k)));
                }
            }
        }
    }
    for (k, b) in &a1 {
        if !a0.iter().any(|(k0, _)| k0 == k) && nonempty(b) {
            return Some(format!("new account {} holds positions", world::label_of(k)));
        }
    }
    let mut banks: Vec<solana_program::pubkey::Pubkey> = e.w.banks.iter().map(|b| b.key).collect();
    banks.push(e.spare_bank);
    for b in banks {
        for v in [ix::liquidity_vault(&b).0, ix::insurance_vault(&b).0, ix::fee_vault(&b).0] {
            if world::token_amount(pre, &v) != world::token_amount(post, &v) {
                return Some(format!("vault of bank {} changed {} -> {}", world::label_of(&b), world::token_amount(pre, &v), world::token_amount(post, &v)));
            }
        }
        let ev = ix::emissions_vault(&b, &e.em_mint);
        if world::token_amount(post, &ev) < world::token_amount(pre, &ev) {
            return Some(format!("emissions vault of bank {} paid out", world::label_of(&b)));
        }
    }
    None
}

fn extra_goldens() -> Vec<Golden> {
    let user_r = Kind::User { receivership_ok: true };
    let mk = |name: &'static str, a: Action, banks: Vec<usize>| Golden {
        name,
        role: Role::Authority(0),
        kind: user_r,
        subject: Some(0),
        prep: Box::new(|e: &Env| e.s.clone()),
        make: Box::new(move |e: &Env, s: &Store, sg| Tx::one(act::user_ix(&e.w, s, &a, sg).unwrap(), &[sg])),
        banks,
    };
    vec![
        mk("lending_account_repay(repay_all)", Action::Repay { u: 0, b: 1, amt: 0, all: true }, vec![1]),
        Golden {
            name: "lending_account_withdraw(withdraw_all)",
            role: Role::Authority(1),
            kind: user_r,
            subject: Some(1),
            prep: Box::new(|e: &Env| {
                // u1 first repays its debt so that the whole deposit can leave
                let mut s = e.s.clone();
                assert!(act::apply(&e.w, &mut s, &Action::Repay { u: 1, b: 0, amt: 0, all: true }).committed);
                s
            }),
            make: Box::new(|e: &Env, s: &Store, sg| Tx::one(act::user_ix(&e.w, s, &Action::Withdraw { u: 1, b: 1, amt: 0, all: true }, sg).unwrap(), &[sg])),
            banks: vec![1],
        },
    ]
}

use marginfi_type_crate::constants::{CLOSE_ENABLED_FLAG, FREEZE_SETTINGS, PERMISSIONLESS_BAD_DEBT_SETTLEMENT_FLAG, TOKENLESS_REPAYMENTS_ALLOWED, TOKENLESS_REPAYMENTS_COMPLETE};
const FLAVOURS: [(&str, u64); 6] = [
    ("plain", 0),
    ("tokenless_allowed", TOKENLESS_REPAYMENTS_ALLOWED),
    ("tokenless_complete", TOKENLESS_REPAYMENTS_ALLOWED | TOKENLESS_REPAYMENTS_COMPLETE),
    ("frozen", FREEZE_SETTINGS),
    ("permissionless_settlement", PERMISSIONLESS_BAD_DEBT_SETTLEMENT_FLAG),
    ("close_enabled", CLOSE_ENABLED_FLAG),
];

#[derive(Clone, Copy, PartialEq, Eq, Debug)]
enum Expect {
    MustFail,
    MustSucceed,
    Unspecified,
}

/// the statement's table
fn expectation(name: &str, st: BankOperationalState) -> Expect {
    use BankOperationalState::*;
    // exact instruction names, optionally followed by a "(variant)" suffix
    let is = |p: &str| name == p || name.starts_with(&format!("{p}("));
    // (deposits into / withdrawals from a venue-backed bank are deposits and withdrawals)
    let dep_or_borrow = is("lending_account_deposit") || is("lending_account_borrow") || is("drift_deposit");
    let wd_or_repay = is("lending_account_withdraw") || is("lending_account_repay") || is("drift_withdraw");
    let liq_or_bankr = is("lending_account_liquidate") || is("lending_pool_handle_bankruptcy");
    // a third party's (or the risk admin's) bracket whose body repays into / withdraws from the bank in question:
    // these are the same withdraw and repay instructions
    let bracket_body = name.starts_with("start_liquidation+repay") || name.starts_with("start_deleverage+repay");
    match st {
        Paused | KilledByBankruptcy => {
            if dep_or_borrow || wd_or_repay || liq_or_bankr || bracket_body {
                Expect::MustFail
            } else {
                Expect::Unspecified
            }
        }
        ReduceOnly => {
            if dep_or_borrow {
                Expect::MustFail
            } else if wd_or_repay {
                Expect::MustSucceed
            } else {
                Expect::Unspecified
            }
        }
        Operational => Expect::Unspecified,
    }
}

pub fn run(tier: Tier) -> Outcome {
    let e = golden::build_env();
    let mut gs = golden::goldens();
    gs.extend(extra_goldens());
    let mut o = Outcome { level: "exploration".into(), ..Default::default() };
    let mut classes: BTreeMap<String, u64> = BTreeMap::new();
    let mut cells = 0u64;
    let mut not_exercised = vec![];
    let mut samples = vec![];

    // ---------------- (A) bank operational states
    for g in &gs {
        if g.banks.is_empty() {
            continue;
        }
        let s0 = (g.prep)(&e);
        let sg = golden::role_key(&e, g.role);
        let (ok0, code0) = {
            let mut t = s0.clone();
            let r = process_tx(&mut t, &(g.make)(&e, &s0, sg));
            (r.ok(), r.code())
        };
        cells += 1;
        if !ok0 {
            not_exercised.push(format!("{} ({})", g.name, crate::svm::err_name(code0)));
            continue;
        }
        for (pos, &b) in g.banks.iter().enumerate() {
          // the bank additionally carries flag words that open special paths in the handlers (token-less
          // wind-down allowed / completed, frozen settings, permissionless settlement, closing enabled)
          for (flavour, fl) in FLAVOURS {
            let mut s0 = s0.clone();
            if fl != 0 {
                world::edit_bank(&mut s0, &e.w.banks[b].key, |bk| bk.flags |= fl);
                let mut t = s0.clone();
                let r = process_tx(&mut t, &(g.make)(&e, &s0, sg));
                cells += 1;
                if !r.ok() {
                    *classes.entry(format!("bank_flavour_baseline_refused:{flavour}")).or_insert(0) += 1;
                    continue;
                }
                *classes.entry(format!("bank_flavour_baseline_ok:{flavour}")).or_insert(0) += 1;
            }
            let s0 = &s0;
            for st in [BankOperationalState::Paused, BankOperationalState::ReduceOnly, BankOperationalState::KilledByBankruptcy] {
                let mut s1 = s0.clone();
                set_state(&mut s1, &e, b, st);
                let tx = (g.make)(&e, &s1, sg);
                let mut t = s1.clone();
                let r = process_tx(&mut t, &tx);
                cells += 1;
                let ex = expectation(g.name, st);
                *classes.entry(format!("bank_state:{:?}:{}:{}", st, match ex { Expect::MustFail => "must_fail", Expect::MustSucceed => "must_succeed", Expect::Unspecified => "unspecified" }, if r.ok() { "ok" } else { "refused" })).or_insert(0) += 1;
                let rep = json!({"model": "C14A", "golden": g.name, "bank_role": pos, "state": format!("{:?}", st), "bank_flags": flavour});
                let fsig = if fl == 0 { String::new() } else { format!(":{flavour}") };
                match (ex, r.ok()) {
                    (Expect::MustFail, true) => o.found.push(Found {
                        clause: "C14.bank_state_refuses".into(),
                        sig: format!("{}:bank{}:{:?}{fsig}", g.name, pos, st),
                        detail: format!("{} succeeded although its bank #{} ({}, flags {flavour}) is {:?}", g.name, pos, e.w.banks[b].label, st),
                        replay: rep,
                    }),
                    // "still works" = not refused because of the bank's state (a health rejection of a
                    // withdrawal whose collateral no longer counts is the reduce-only valuation rule)
                    (Expect::MustSucceed, false) if matches!(r.code(), 6016 | 6017 | 6084) => o.found.push(Found {
                        clause: "C14.reduce_only_still_works".into(),
                        sig: format!("{}:bank{}:{:?}{fsig}", g.name, pos, st),
                        detail: format!("{} was refused ({}) although its bank is only reduce-only", g.name, crate::svm::err_name(r.code())),
                        replay: rep,
                    }),
                    _ => {}
                }
                if samples.len() < 3 && cells % 17 == 0 {
                    samples.push(json!({"instruction": g.name, "bank": e.w.banks[b].label, "state": format!("{:?}", st), "result": crate::svm::err_name(r.code())}));
                }
            }
          }
        }
    }
    // (A3) "a bank killed by bankruptcy accepts none of these, permanently": from a killed bank (settings
    // frozen or not, wind-down flags or not) every operational-state request of the group admin, alone and in
    // pairs, leaves it killed and a deposit / withdrawal still refused
    {
        use BankOperationalState::*;
        let targets = [Paused, Operational, ReduceOnly];
        for (flavour, fl) in FLAVOURS {
            let mut k0 = e.s.clone();
            world::edit_bank(&mut k0, &e.w.banks[0].key, |bk| {
                bk.flags |= fl;
                bk.config.operational_state = KilledByBankruptcy;
            });
            let cfg = |s: &mut Store, st: BankOperationalState, freeze: Option<bool>| {
                let opt = marginfi_type_crate::types::BankConfigOpt { operational_state: Some(st), freeze_settings: freeze, ..Default::default() };
                process_tx(s, &Tx::one(ix::configure_bank(e.w.group, e.w.roles.admin, e.w.banks[0].key, opt), &[e.w.roles.admin])).ok()
            };
            let mut seqs: Vec<Vec<(BankOperationalState, Option<bool>)>> = vec![];
            for a in targets {
                for fa in [None, Some(true)] {
                    seqs.push(vec![(a, fa)]);
                    for b in targets {
                        seqs.push(vec![(a, fa), (b, None)]);
                    }
                }
            }
            for seq in seqs {
                let mut s = k0.clone();
                let mut accepted = 0;
                for (st, fr) in &seq {
                    if cfg(&mut s, *st, *fr) {
                        accepted += 1;
                    }
                }
                cells += 1;
                // ... and the risk admin's wind-down completion on top (it carries the completed flag only on banks
                // opened for token-less repayment; it is no way out of the killed state either)
                let forced = process_tx(&mut s, &Tx::one(ix::force_tokenless_repay_complete(e.w.group, e.w.roles.risk, e.w.banks[0].key), &[e.w.roles.risk])).ok();
                if forced {
                    *classes.entry(format!("killed_permanence:{flavour}:force_complete_accepted")).or_insert(0) += 1;
                }
                let now = world::bank(&s, &e.w.banks[0].key).config.operational_state;
                let mut t = s.clone();
                let dep = act::apply(&e.w, &mut t, &Action::Deposit { u: 0, b: 0, amt: 10, up_to_limit: None });
                let mut t = s.clone();
                let wd = act::apply(&e.w, &mut t, &Action::Withdraw { u: 0, b: 0, amt: 1, all: false });
                *classes.entry(format!("killed_permanence:{flavour}:requests_accepted_{accepted}:{}", if now == KilledByBankruptcy { "still_killed" } else { "REOPENED" })).or_insert(0) += 1;
                if now != KilledByBankruptcy || dep.committed || wd.committed {
                    o.found.push(Found {
                        clause: "C14.killed_is_permanent".into(),
                        sig: format!("{flavour}:{:?}", seq.iter().map(|x| x.0).collect::<Vec<_>>()),
                        detail: format!("a bank killed by bankruptcy (flags {flavour}) is {:?} after the group admin's operational-state requests {:?}; deposit {} / withdraw {}", now, seq, crate::svm::err_name(dep.code), crate::svm::err_name(wd.code)),
                        replay: json!({"model": "C14A3", "golden": "", "flavour": flavour}),
                    });
                }
            }
        }
    }
    // (A1) the same instructions inside a flash-loan bracket of the acting account ([start_flashloan, X, end_flashloan],
    // one transaction): a bracket defers the health check, not the bank's operational state
    for g in &gs {
        let (Some(u), Kind::User { .. }) = (g.subject, g.kind) else { continue };
        if g.banks.is_empty() || g.role != Role::Authority(u) {
            continue;
        }
        let s0 = (g.prep)(&e);
        let sg = golden::role_key(&e, g.role);
        let acct = act::cur_account(&e.w, &s0, u);
        let wrap = |s: &Store, variant: usize| -> Tx {
            let inner = (g.make)(&e, s, sg);
            let include = if variant == 0 { None } else { Some(e.w.banks[g.banks[0]].key) };
            let rem = e.w.risk_metas(s, &acct, include, None);
            let n = inner.ixs.len() as u64;
            let mut ixs = vec![ix::start_flashloan(acct, sg, n + 1)];
            ixs.extend(inner.ixs.iter().cloned());
            ixs.push(ix::end_flashloan(acct, sg, rem));
            Tx { ixs, signers: inner.signers.clone() }
        };
        let Some(variant) = (0..2).find(|v| {
            let mut t = s0.clone();
            process_tx(&mut t, &wrap(&s0, *v)).ok()
        }) else {
            *classes.entry("in_flashloan:baseline_refused".into()).or_insert(0) += 1;
            continue;
        };
        *classes.entry("in_flashloan:baseline_ok".into()).or_insert(0) += 1;
        for (pos, &b) in g.banks.iter().enumerate() {
            for st in [BankOperationalState::Paused, BankOperationalState::ReduceOnly, BankOperationalState::KilledByBankruptcy] {
                let mut s1 = s0.clone();
                set_state(&mut s1, &e, b, st);
                let mut t = s1.clone();
                let r = process_tx(&mut t, &wrap(&s1, variant));
                cells += 1;
                let ex = expectation(g.name, st);
                *classes.entry(format!("in_flashloan:{:?}:{}:{}", st, match ex { Expect::MustFail => "must_fail", Expect::MustSucceed => "must_succeed", Expect::Unspecified => "unspecified" }, if r.ok() { "ok" } else { "refused" })).or_insert(0) += 1;
                if ex == Expect::MustFail && r.ok() {
                    o.found.push(Found {
                        clause: "C14.bank_state_refuses".into(),
                        sig: format!("{}:bank{}:{:?}:in_flashloan", g.name, pos, st),
                        detail: format!("[start_flashloan, {}, end_flashloan] committed although the instruction's bank #{} ({}) is {:?}", g.name, pos, e.w.banks[b].label, st),
                        replay: json!({"model": "C14A1", "golden": g.name, "bank_role": pos, "state": format!("{:?}", st)}),
                    });
                }
            }
        }
    }
    // (A2) instructions with two banks: every pair of states (incl. Operational) on the two at once
    for g in &gs {
        if g.banks.len() < 2 {
            continue;
        }
        let s0 = (g.prep)(&e);
        let sg = golden::role_key(&e, g.role);
        {
            let mut t = s0.clone();
            if !process_tx(&mut t, &(g.make)(&e, &s0, sg)).ok() {
                continue;
            }
        }
        use BankOperationalState::*;
        let all = [Operational, Paused, ReduceOnly, KilledByBankruptcy];
        for sa in all {
            for sb in all {
                if sa == Operational || sb == Operational {
                    continue; // singles are (A)
                }
                let mut s1 = s0.clone();
                set_state(&mut s1, &e, g.banks[0], sa);
                set_state(&mut s1, &e, g.banks[1], sb);
                let tx = (g.make)(&e, &s1, sg);
                let mut t = s1.clone();
                let r = process_tx(&mut t, &tx);
                cells += 1;
                let must_fail = expectation(g.name, sa) == Expect::MustFail || expectation(g.name, sb) == Expect::MustFail;
                *classes.entry(format!("bank_state_pair:{}:{}", if must_fail { "must_fail" } else { "unspecified" }, if r.ok() { "ok" } else { "refused" })).or_insert(0) += 1;
                if must_fail && r.ok() {
                    o.found.push(Found {
                        clause: "C14.bank_state_refuses".into(),
                        sig: format!("{}:pair:{:?}+{:?}", g.name, sa, sb),
                        detail: format!("{} succeeded although its banks are {:?} and {:?}", g.name, sa, sb),
                        replay: json!({"model": "C14A2", "golden": g.name, "states": [format!("{:?}", sa), format!("{:?}", sb)]}),
                    });
                }
            }
        }
    }
    // reduce-only collateral: worthless for new borrowing, still counted against liquidation; also when the
    // borrowed bank grants the collateral's e-mode tag a favourable weight
    for with_emode in [false, true] {
        let mut s = e.s.clone();
        if with_emode {
            let ent = |tag: u16, i: f64, m: f64| marginfi_type_crate::types::EmodeEntry { collateral_bank_emode_tag: tag, flags: 0, pad0: [0; 5], asset_weight_init: fixed::types::I80F48::from_num(i).into(), asset_weight_maint: fixed::types::I80F48::from_num(m).into() };
            let mut arr = [ent(0, 0.0, 0.0); marginfi_type_crate::types::MAX_EMODE_ENTRIES];
            let ok0 = process_tx(&mut s, &Tx::one(ix::configure_bank_emode(e.w.group, e.w.roles.emode, e.w.banks[0].key, 7, arr), &[e.w.roles.emode])).ok();
            arr[0] = ent(7, 0.9, 0.95);
            let ok1 = process_tx(&mut s, &Tx::one(ix::configure_bank_emode(e.w.group, e.w.roles.emode, e.w.banks[1].key, 0, arr), &[e.w.roles.emode])).ok();
            if !(ok0 && ok1) {
                *classes.entry("reduce_only_valuation:emode_unbuildable".into()).or_insert(0) += 1;
                continue;
            }
        }
        set_state(&mut s, &e, 0, BankOperationalState::ReduceOnly);
        let mut t = s.clone();
        let rb = act::apply(&e.w, &mut t, &Action::Borrow { u: 0, b: 1, amt: 10 });
        let mut t2 = s.clone();
        let rl = act::apply(&e.w, &mut t2, &Action::Liquidate { liquidator: 1, liquidatee: 0, asset: 0, liab: 1, amt: 1000 });
        cells += 2;
        *classes.entry(format!("reduce_only_valuation:{}:borrow_{}:liquidate_{}", if with_emode { "emode_pair" } else { "plain" }, crate::svm::err_name(rb.code), crate::svm::err_name(rl.code))).or_insert(0) += 1;
        if rb.committed {
            o.found.push(Found { clause: "C14.reduce_only_no_new_borrowing".into(), sig: "borrow".into(), detail: "an account whose only collateral sits in a reduce-only bank could borrow more".into(), replay: json!({"model": "C14RO"}) });
        }
        if rl.committed {
            o.found.push(Found { clause: "C14.reduce_only_counts_for_liquidation".into(), sig: "liquidate".into(), detail: "an account that is healthy when its reduce-only collateral is counted was liquidated".into(), replay: json!({"model": "C14RO"}) });
        }
    }

    // ---------------- (B) protocol-wide pause
    let fa = e.w.fee_admin;
    for g in &gs {
      let s0 = (g.prep)(&e);
      // the golden's own signer, and every other identity of the signer menu for which the call succeeds
      // without a pause (second entitled roles: the risk admin for bankruptcy, the group admin on a frozen
      // account, ...)
      let primary = golden::role_key(&e, g.role);
      let mut sgs: Vec<(String, solana_program::pubkey::Pubkey, bool)> = vec![("".into(), primary, true)];
      for (label, k) in super::c08::signer_menu(&e) {
          if !sgs.iter().any(|x| x.1 == k) {
              sgs.push((format!(":signed_by_{label}"), k, false));
          }
      }
      for (sg_label, sg, is_primary) in sgs {
        let run_at = |s: &Store| -> (bool, u64, Option<String>) {
            let tx = (g.make)(&e, s, sg);
            let mut t = s.clone();
            let r = process_tx(&mut t, &tx);
            let m = if r.ok() { moved(&e, s, &t) } else { None };
            (r.ok(), r.code(), m)
        };
        if !run_at(&s0).0 {
            continue;
        }
        // the pause instructions themselves are not subject to the pause
        if g.name.starts_with("panic_") {
            continue;
        }
        // scenario = steps from T (the first pause) + the interval [from, until) in which the pause is in force
        // for the group + probe offsets from T
        #[derive(Clone, Copy)]
        enum Op {
            Pause,
            Unpause,
            UnpauseAnyone,
            Propagate,
            Wait(i64),
        }
        use Op::*;
        let deep = tier == Tier::Thorough;
        let single_probes: Vec<i64> = if deep { vec![1, 2, 900, 1798, 1799, 1800, 1801, 1802, 3600, 86_400] } else { vec![1, 1799, 1800, 1801] };
        let ext_probes: Vec<i64> = if deep { vec![601, 602, 1799, 1800, 1801, 2399, 2400, 2401, 3598, 3599, 3600, 3601, 7200] } else { vec![601, 1800, 2400, 3599, 3600, 3601] };
        let second_probes: Vec<i64> = if deep { vec![1801, 1802, 2700, 3598, 3599, 3600, 3601, 5400] } else { vec![1801, 3599, 3600, 3601] };
        let defs: Vec<(&str, Vec<Op>, i64, i64, Vec<i64>)> = vec![
            ("single", vec![Pause, Propagate], 0, 1800, single_probes),
            // paused at T, extended at T + 600 (in force until T + 3600), propagated then
            ("extended", vec![Pause, Wait(600), Pause, Propagate], 0, 3600, ext_probes),
            // lifted by the admin and propagated: never in force afterwards
            ("lifted", vec![Pause, Propagate, Wait(100), Unpause, Propagate], 0, 0, if deep { vec![101, 102, 900, 1799, 1800] } else { vec![101, 900] }),
            // a second pause right after the first ran out, propagated: in force for another 30 minutes
            ("second", vec![Pause, Propagate, Wait(1800), Pause, Propagate], 1800, 3600, second_probes),
            // ran out, then cleared by anyone and propagated
            ("cleared_by_anyone", vec![Pause, Propagate, Wait(1800), UnpauseAnyone, Propagate], 0, 0, if deep { vec![1801, 1802, 2700, 3600] } else { vec![1801, 2700] }),
        ];
        if !is_primary {
            *classes.entry("second_entitled_signer".into()).or_insert(0) += 1;
        }
        let mut built: Vec<(&str, Store, i64, i64, i64, Vec<i64>)> = vec![];
        for (name, ops, from, until, probes) in defs {
            if !is_primary && name != "single" && name != "extended" {
                continue;
            }
            let mut st = s0.clone();
            let mut elapsed = 0i64;
            let mut ok = true;
            for op in ops {
                ok &= match op {
                    Pause => process_tx(&mut st, &Tx::one(ix::panic_pause(fa), &[fa])).ok(),
                    Unpause => process_tx(&mut st, &Tx::one(ix::panic_unpause(fa), &[fa])).ok(),
                    UnpauseAnyone => process_tx(&mut st, &Tx::one(ix::panic_unpause_permissionless(), &[act::stranger()])).ok(),
                    Propagate => process_tx(&mut st, &Tx::one(ix::propagate_fee_state(e.w.group), &[act::stranger()])).ok(),
                    Wait(dt) => {
                        st.advance(dt);
                        refresh_oracles(&mut st, &e.w);
                        elapsed += dt;
                        true
                    }
                };
            }
            if ok {
                built.push((name, st, elapsed, from, until, probes));
            } else {
                *classes.entry(format!("scenario_unbuildable:{name}")).or_insert(0) += 1;
            }
        }
        let scenarios: Vec<(&str, &Store, i64, i64, i64, Vec<i64>)> = built.iter().map(|(n, st, el, f, u, p)| (*n, st, *el, *f, *u, p.clone())).collect();
        for (scn, base_store, elapsed, from, length, dts) in scenarios {
        for dt in dts {
            for repropagate in [false, true] {
                if repropagate && dt < length {
                    continue;
                }
                let mut s1 = base_store.clone();
                s1.advance(dt - elapsed);
                refresh_oracles(&mut s1, &e.w);
                if repropagate {
                    process_tx(&mut s1, &Tx::one(ix::propagate_fee_state(e.w.group), &[act::stranger()]));
                }
                let mut twin = s0.clone();
                twin.advance(dt);
                refresh_oracles(&mut twin, &e.w);
                let (ok, code, what_moved) = run_at(&s1);
                let (ok_twin, _, _) = run_at(&twin);
                cells += 2;
                let in_force = dt >= from && dt < length;
                let rep = json!({"model": "C14B", "golden": g.name, "scenario": scn, "dt": dt, "repropagate": repropagate});
                if in_force {
                    let moved = what_moved.is_some();
                    *classes.entry(format!("pause_in_force:{}:{}", if ok { "ok" } else { "refused" }, if ok && moved { "MOVED" } else { "nothing_moved" })).or_insert(0) += 1;
                    *classes.entry(format!("scenario:{scn}:in_force:{}", if ok { "ok" } else { "refused" })).or_insert(0) += 1;
                    if ok && moved {
                        o.found.push(Found {
                            clause: "C14.pause_blocks_fund_and_position_changes".into(),
                            sig: format!("{}{sg_label}", g.name),
                            detail: format!("{} succeeded {} s into a propagated protocol pause ({scn}, in force for {length} s): {}", g.name, dt, what_moved.clone().unwrap_or_default()),
                            replay: rep,
                        });
                    }
                } else {
                    *classes.entry(format!("pause_expired:{}:twin_{}", if ok { "ok" } else { "refused" }, if ok_twin { "ok" } else { "refused" })).or_insert(0) += 1;
                    *classes.entry(format!("scenario:{scn}:not_in_force:{}", if ok { "ok" } else { "refused" })).or_insert(0) += 1;
                    if ok_twin && !ok {
                        o.found.push(Found {
                            clause: "C14.expired_pause_does_not_block".into(),
                            sig: format!("{}{sg_label}", g.name),
                            detail: format!("{} is still refused ({}) {} s after the pause started ({scn}, length {length} s; repropagated: {}) although it succeeds in the never-paused world", g.name, crate::svm::err_name(code), dt, repropagate),
                            replay: rep,
                        });
                    }
                }
            }
        }
        }
      }
    }
    if cells < 500 {
        o.machinery.push(format!("vacuity guard: only {} cells executed", cells));
    }
    if !classes.keys().any(|k| k.starts_with("pause_in_force:refused")) {
        o.machinery.push("vacuity guard: the pause never refused anything".into());
    }
    for need in ["in_flashloan:baseline_ok", "in_flashloan:ReduceOnly:must_fail:refused", "second_entitled_signer", "bank_flavour_baseline_ok:tokenless_complete", "scenario:single:in_force:refused", "scenario:extended:in_force:refused", "scenario:second:in_force:refused", "scenario:lifted:not_in_force:ok", "scenario:cleared_by_anyone:not_in_force:ok"] {
        if !classes.contains_key(need) {
            o.machinery.push(format!("vacuity guard: class {need} never occurred"));
        }
    }
    if !classes.keys().any(|k| k.starts_with("killed_permanence:frozen:")) {
        o.machinery.push("vacuity guard: the killed-and-frozen bank was never probed".into());
    }
    if samples.is_empty() {
        samples.push(json!({"note": "see outcome classes"}));
    }
    let refused: u64 = classes.iter().filter(|(k, _)| k.contains("refused")).map(|(_, v)| *v).sum();
    o.coverage = json!({
        "evaluations": cells,
        "distinct_nontrivial": refused,
        "rule": "(A1) every user instruction also as [start_flashloan, X, end_flashloan] of the acting account x bank x state; (A) [each cell also with the bank flagged token-less-repayment allowed / completed, settings frozen, permissionless settlement, close enabled; (A3) a killed bank x those flags x every one- and two-step operational-state request of the group admin (with and without a freeze request) stays killed and refuses deposit and withdrawal; (B) also signed by every other identity for which the un-paused call succeeds] (A) every financial instruction (deposit, withdraw, withdraw-all, borrow, repay, repay-all, liquidation with asset and debt bank separately, bankruptcy, Token-2022 deposit, ...) x each of its banks x {Paused, ReduceOnly, KilledByBankruptcy} against the statement's table (refusals and the 'still works' cells), and for instructions with two banks every pair of non-operational states on both at once; (B) every golden instruction of the program x a propagated protocol pause at +1 s, +1799 s (in force: a success must not move any position or token amount of the group) and +1800 s, +1801 s with and without re-propagation (expired: same verdict as the never-paused twin at the same clock), and the same around an extended pause (paused at T, extended and propagated at T+600, in force until T+3600; probes at +601, +1800, +2400, +3599, +3600, +3601), a pause lifted by the admin and propagated (never in force afterwards), a second pause issued and propagated the second the first ran out (in force for T+1800..T+3600), and a run-out pause cleared by anyone and propagated; the thorough tier probes every scenario at both neighbours of each boundary second and far beyond; distinct_nontrivial = refused cells",
        "golden_calls_not_exercised": not_exercised,
        "exhaustive": true,
        "outcome_classes": classes,
        "samples": samples,
    });
    o.assumptions = vec!["environment model E1 (svm-lite)".into(), "bank operational states are forged on the bank account (KilledByBankruptcy cannot be configured)".into()];
    o
}

pub fn replay(v: &serde_json::Value) -> Vec<crate::mc::Violation> {
    let o = run(Tier::Quick);
    let g = v["golden"].as_str().unwrap_or("");
    o.found.into_iter().filter(|f| f.sig.starts_with(g) || g.is_empty()).map(|f| crate::mc::Violation { clause: f.clause, detail: f.detail }).collect()
}
