//! C20 — integration exchange-rate math never overstates value and fails closed.
//! Complete products over boundary-directed menus, against exact rational arithmetic.

use super::Tier;
use crate::evidence::{Found, Outcome};
use crate::refmodel::{self as rf, Q};
use drift_mocks::state::MinimalSpotMarket;
use fixed::types::I80F48;
use kamino_mocks::state::MinimalReserve;
use marginfi_type_crate::types::price::*;
use num_bigint::BigInt;
use num_traits::{One, Signed, ToPrimitive, Zero};
use serde_json::json;
use solend_mocks::state::SolendMinimalReserve;
use std::collections::BTreeMap;

fn qi80(x: I80F48) -> Q {
    rf::q_raw(x.to_bits())
}
fn qbig(x: u128) -> Q {
    Q::from_integer(BigInt::from(x))
}
fn two79() -> Q {
    Q::from_integer(BigInt::one() << 79)
}

struct Acc {
    evals: u64,
    classes: BTreeMap<String, u64>,
    found: Vec<Found>,
    samples: Vec<serde_json::Value>,
}

impl Acc {
    fn class(&mut self, c: &str) {
        self.evals += 1;
        *self.classes.entry(c.to_string()).or_insert(0) += 1;
    }
    fn fail(&mut self, clause: &str, sig: &str, detail: String, replay: serde_json::Value) {
        if self.found.len() < 4000 {
            self.found.push(Found { clause: clause.into(), sig: sig.into(), detail, replay });
        }
    }
}

static DEEP: std::sync::atomic::AtomicU8 = std::sync::atomic::AtomicU8::new(0);

/// boundary-directed u64 menu. Quick: the hand-picked values, every 2^k and 10^k with both neighbours.
/// Thorough: additionally 3*2^k, 5*10^k +- 1 and the Fibonacci numbers (values without structure in base 2 / 10).
fn amounts() -> Vec<u64> {
    let deep = DEEP.load(std::sync::atomic::Ordering::Relaxed);
    let mut v: Vec<u64> = vec![0, 1, 2, 3, 999, 1_000_000_000, (1u64 << 32) - 1, (1u64 << 32) + 1, (1u64 << 63) - 1, (1u64 << 63) + 1, u64::MAX - 1, u64::MAX];
    for k in 1..64u32 {
        let x = 1u64 << k;
        v.extend([x - 1, x, x + 1]);
    }
    for k in 1..20u32 {
        let x = 10u64.pow(k);
        v.extend([x - 1, x, x.saturating_add(1)]);
    }
    if deep >= 1 {
        for k in 0..62u32 {
            v.push(3u64 << k);
        }
        for k in 0..19u32 {
            let x = 5 * 10u64.pow(k);
            v.extend([x - 1, x, x + 1]);
        }
        let (mut f0, mut f1) = (1u64, 2u64);
        while let Some(n) = f0.checked_add(f1) {
            v.push(n);
            f0 = f1;
            f1 = n;
        }
    }
    v.sort();
    v.dedup();
    v
}

fn supply_pairs(tier: Tier) -> Vec<(u64, u64)> {
    let base: Vec<u64> = if tier == Tier::Thorough {
        vec![0, 1, 2, 3, 999_999, 1_000_000, 1_000_001, 999_999_999, 1_000_000_000_000, 281_474_976_710_655, 281_474_976_710_656, 281_474_976_710_657, 10_000_000_000_000_000_000, (1u64 << 63) - 1, 1u64 << 63, u64::MAX - 1, u64::MAX]
    } else {
        vec![0, 1, 2, 999_999, 1_000_000, 1_000_000_000_000, 281_474_976_710_656, 1u64 << 63, u64::MAX]
    };
    let mut v = vec![];
    for &l in &base {
        for &c in &base {
            v.push((l, c));
        }
    }
    // exchange rates in [0.5, 4]
    for &c in &[3u64, 7, 1_000_003, 123_456_789, 999_999_999_937, 45_000_000_000_000_000, (1u64 << 61) + 5] {
        for (n, d) in [(1u64, 2u64), (999_999, 1_000_000), (1, 1), (1_000_001, 1_000_000), (10_001, 10_000), (107, 100), (13, 11), (3, 2), (2, 1), (4, 1)] {
            let l = ((c as u128) * (n as u128) / (d as u128)).min(u64::MAX as u128) as u64;
            v.push((l, c));
        }
    }
    if tier == Tier::Thorough {
        for k in [20u32, 31, 32, 33, 47, 48, 49, 62] {
            for d in [-1i64, 0, 1] {
                let x = ((1u64 << k) as i64 + d) as u64;
                v.push((x, x / 2 + 1));
                v.push((x / 3 + 1, x));
            }
        }
    }
    v.sort();
    v.dedup();
    v
}

/// the pure conversion functions of type-crate::types::price
fn sweep_scaled(tier: Tier, a: &mut Acc) {
    let decs: Vec<u8> = vec![0, 1, 6, 9, 18, 19, 23, 24, 255];
    for (liq, col) in supply_pairs(tier) {
        for &d in &decs {
            let liq_fx = I80F48::from_num(liq);
            let s = scale_supplies(liq_fx, col, d);
            let Some((tl, tc)) = s else {
                a.class(if d >= 24 { "scale_supplies:none:bad_decimals" } else { "scale_supplies:none" });
                if d < 24 {
                    a.fail("C20.fail_closed", "scale_supplies", format!("scale_supplies({liq},{col},{d}) returned None although 10^{d} is a valid scale"), json!({"fn": "scale_supplies", "liq": liq, "col": col, "dec": d}));
                }
                continue;
            };
            a.class("scale_supplies:some");
            let p = rf::pow10(d as u32);
            for (got, raw, name) in [(tl, liq, "liq"), (tc, col, "col")] {
                let exact = rf::qu(raw) / p.clone();
                let g = qi80(got);
                if g > exact || exact.clone() - g.clone() >= rf::ulp() {
                    a.fail("C20.scale_exact", "scale_supplies", format!("scale_supplies {name}: {raw}/10^{d} gave {got}"), json!({"fn": "scale_supplies", "liq": liq, "col": col, "dec": d}));
                }
            }
            for &x in &amounts() {
                // collateral -> liquidity
                let r = collateral_to_liquidity_from_scaled(x, tl, tc);
                check_conv(a, "c2l", x, tl, tc, r, liq, col, d);
                let r2 = liquidity_to_collateral_from_scaled(x, tl, tc);
                check_conv(a, "l2c", x, tc, tl, r2, liq, col, d);
                // round trips never gain
                if let Some(c) = r2 {
                    if let Some(back) = collateral_to_liquidity_from_scaled(c, tl, tc) {
                        a.class("roundtrip:l2c_c2l");
                        if back > x {
                            a.fail("C20.roundtrip_no_gain", "deposit_withdraw", format!("depositing {x} mints {c} collateral which redeems {back} (supplies liq {tl} col {tc})"), json!({"fn": "roundtrip", "x": x, "liq": liq, "col": col, "dec": d}));
                        }
                    }
                }
                if let Some(l) = r {
                    if let Some(back) = liquidity_to_collateral_from_scaled(l, tl, tc) {
                        a.class("roundtrip:c2l_l2c");
                        if back > x {
                            a.fail("C20.roundtrip_no_gain", "withdraw_deposit", format!("redeeming {x} collateral gives {l} which re-mints {back}"), json!({"fn": "roundtrip2", "x": x, "liq": liq, "col": col, "dec": d}));
                        }
                    }
                }
            }
        }
    }
}

#[allow(clippy::too_many_arguments)]
fn check_conv(a: &mut Acc, name: &str, x: u64, num: I80F48, den: I80F48, r: Option<u64>, liq: u64, col: u64, d: u8) {
    let rep = json!({"fn": name, "x": x, "liq": liq, "col": col, "dec": d});
    let (n, dn) = (qi80(num), qi80(den));
    match r {
        None => {
            let c = if dn.is_zero() { format!("{name}:none:zero_divisor") } else { format!("{name}:none:overflow") };
            a.class(&c);
            if !dn.is_zero() {
                // must be justified by an overflow of the product, the quotient or the u64 result
                let prod = rf::qu(x) * n.clone();
                let quo = prod.clone() / dn.clone();
                let justified = prod >= two79() || quo >= two79() || rf::qfloor(&quo) > BigInt::from(u64::MAX);
                if !justified {
                    a.class(&format!("{name}:none:unjustified"));
                }
            }
        }
        Some(v) => {
            a.class(&format!("{name}:some"));
            if dn.is_zero() {
                a.fail("C20.fail_closed", name, format!("{name}({x}) returned {v} with a zero divisor"), rep);
                return;
            }
            let exact = rf::qu(x) * n / dn;
            let vq = rf::qu(v);
            // never more than the exact value, never a wrapped/garbage value
            if vq > exact {
                a.fail("C20.never_overstates", name, format!("{name}({x}) = {v} exceeds the exact {:.6}", rf::qf64(&exact)), rep);
            } else if exact - vq >= Q::from_integer(BigInt::from(2)) {
                a.fail("C20.not_wrapped", name, format!("{name}({x}) = {v} is not the floor of the exact value"), rep);
            }
        }
    }
}

fn sweep_adjust(tier: Tier, a: &mut Acc) {
    let ratios: Vec<I80F48> = {
        let mut v = vec![I80F48::ZERO, I80F48::from_bits(1), I80F48::from_num(0.5), I80F48::ONE, I80F48::from_num(1.07), I80F48::from_num(2), I80F48::from_num(4), I80F48::from_num(1u64 << 40), I80F48::MAX];
        if tier == Tier::Thorough {
            v.push(I80F48::ONE - I80F48::from_bits(1));
            v.push(I80F48::ONE + I80F48::from_bits(1));
            v.push(I80F48::from_num(1u64 << 16));
        }
        v.sort();
        v
    };
    let i64s: Vec<i64> = vec![i64::MIN, i64::MIN + 1, -1_000_000, -1, 0, 1, 2, 1_000_000, (1i64 << 32) + 1, 12_345_678_901, i64::MAX - 1, i64::MAX];
    let u64s: Vec<u64> = amounts();
    let i128s: Vec<i128> = vec![i128::MIN, -(1i128 << 79) - 1, -(1i128 << 79), -1, 0, 1, 1_000_000_000_000_000_000, 155_594_045_270_000_000_000, (1i128 << 79) - 1, 1i128 << 79, i128::MAX];
    // (value as Q, result as Option<Q>, lo, hi) closures per type
    for (ri, r) in ratios.iter().enumerate() {
        let rq = qi80(*r);
        let mut prev_i64: Option<i64> = None;
        for &p in &i64s {
            let got = adjust_i64(p, *r);
            judge_adjust(a, "adjust_i64", Q::from_integer(BigInt::from(p)), &rq, got.map(|g| Q::from_integer(BigInt::from(g))), Q::from_integer(BigInt::from(i64::MIN)), Q::from_integer(BigInt::from(i64::MAX)), json!({"fn": "adjust_i64", "raw": p, "ratio_bits": r.to_bits().to_string()}));
            if let (Some(g), Some(pg)) = (got, prev_i64) {
                if p >= 0 && g < pg {
                    a.fail("C20.monotone", "adjust_i64", format!("adjust_i64 not monotone in price at {p} ratio {r}"), json!({"fn": "adjust_i64", "raw": p, "ratio_bits": r.to_bits().to_string()}));
                }
            }
            if p >= 0 {
                prev_i64 = got.or(prev_i64);
            }
            // monotone in the rate
            if ri > 0 && p >= 0 {
                if let (Some(g), Some(g0)) = (got, adjust_i64(p, ratios[ri - 1])) {
                    if g < g0 {
                        a.fail("C20.monotone", "adjust_i64", format!("adjust_i64({p}) falls when the rate rises from {} to {}", ratios[ri - 1], r), json!({"fn": "adjust_i64", "raw": p, "ratio_bits": r.to_bits().to_string()}));
                    }
                }
            }
        }
        for &p in &u64s {
            let got = adjust_u64(p, *r);
            judge_adjust(a, "adjust_u64", rf::qu(p), &rq, got.map(rf::qu), rf::qzero(), rf::qu(u64::MAX), json!({"fn": "adjust_u64", "raw": p, "ratio_bits": r.to_bits().to_string()}));
        }
        for &p in &i128s {
            let got = adjust_i128(p, *r);
            judge_adjust(a, "adjust_i128", Q::from_integer(BigInt::from(p)), &rq, got.map(|g| Q::from_integer(BigInt::from(g))), Q::from_integer(BigInt::from(i128::MIN)), Q::from_integer(BigInt::from(i128::MAX)), json!({"fn": "adjust_i128", "raw": p.to_string(), "ratio_bits": r.to_bits().to_string()}));
        }
    }
    // convert_decimals
    for n in [I80F48::ZERO, I80F48::from_bits(1), I80F48::ONE, I80F48::from_num(123456789.123456), I80F48::MAX / 2, I80F48::MAX] {
        for from in [0u8, 6, 9, 18, 23, 40] {
            for to in [0u8, 6, 9, 19, 23, 64] {
                let got = convert_decimals(n, from, to);
                let diff = to as i32 - from as i32;
                match got {
                    None => a.class("convert_decimals:none"),
                    Some(g) => {
                        a.class("convert_decimals:some");
                        let exact = if diff >= 0 { qi80(n) * rf::pow10(diff as u32) } else { qi80(n) / rf::pow10((-diff) as u32) };
                        let gq = qi80(g);
                        if gq > exact || exact.clone() - gq >= rf::ulp() || diff.unsigned_abs() > 23 {
                            a.fail("C20.not_wrapped", "convert_decimals", format!("convert_decimals({n},{from},{to}) = {g} vs exact {:.6}", rf::qf64(&exact)), json!({"fn": "convert_decimals", "n_bits": n.to_bits().to_string(), "from": from, "to": to}));
                        }
                    }
                }
            }
        }
    }
}

#[allow(clippy::too_many_arguments)]
fn judge_adjust(a: &mut Acc, name: &str, p: Q, r: &Q, got: Option<Q>, lo: Q, hi: Q, rep: serde_json::Value) {
    let exact = p.clone() * r.clone();
    match got {
        None => {
            a.class(&format!("{name}:none"));
            // acceptable iff something on the way does not fit: the I80F48 input, the product, or the result type
            let fits_in = p.abs() < two79();
            let fits_prod = exact.abs() < two79();
            let fits_out = exact.floor() >= lo && exact.floor() <= hi;
            if fits_in && fits_prod && fits_out {
                a.class(&format!("{name}:none:unjustified"));
            }
        }
        Some(g) => {
            a.class(&format!("{name}:some"));
            if g > exact {
                a.fail("C20.never_overstates", name, format!("{name}: result {:.3} exceeds price x rate = {:.3}", rf::qf64(&g), rf::qf64(&exact)), rep);
            } else if exact - g.clone() >= Q::from_integer(BigInt::from(2)) {
                a.fail("C20.not_wrapped", name, format!("{name}: result {:.3} is not the floor of price x rate", rf::qf64(&g)), rep);
            }
        }
    }
}

/// Reserve composition: the liquidity a reserve is worth is available + borrowed - fees. Kamino keeps the last
/// four terms as U68F60 fractions, Solend as 10^18-scaled decimals; every combination of a small menu (incl.
/// fees larger than the borrowed amount, fractional parts, zero) is given to the real total-liquidity function
/// and, through it, to the real conversions.
fn sweep_reserve_composition(_tier: Tier, a: &mut Acc) {
    let sf = |whole: u64, frac_60: u64| -> u128 { ((whole as u128) << 60) | (frac_60 as u128 & ((1u128 << 60) - 1)) };
    let avail: [u64; 5] = [0, 1, 950_000_000, 1_000_000_000_000, 1u64 << 40];
    let borrowed: [(u64, u64); 5] = [(0, 0), (0, 1 << 59), (7, 12345), (50_000_000, 0), (3_000_000_000_000, 999)];
    let fees: [(u64, u64); 4] = [(0, 0), (0, 1 << 58), (60_000_000, 0), (1, 4095)];
    // collateral supplies of at least 900 whole tokens: there the 2^-48 truncation of the scaled supplies moves a
    // conversion by far less than one unit (tiny supplies are the subject of the scaled-conversion sweep above)
    let cols: [u64; 3] = [900_000_000, 1_000_000_000_000, 1u64 << 41];
    let ulp = rf::ulp();
    for &av in &avail {
        for &b in &borrowed {
            for &f1 in &fees {
                for &f2 in &fees {
                    for &f3 in &[fees[0], fees[1], fees[3]] {
                        // ---- Kamino
                        let mut r: MinimalReserve = bytemuck::Zeroable::zeroed();
                        r.available_amount = av;
                        r.borrowed_amount_sf = sf(b.0, b.1).to_le_bytes();
                        r.accumulated_protocol_fees_sf = sf(f1.0, f1.1).to_le_bytes();
                        r.accumulated_referrer_fees_sf = sf(f2.0, f2.1).to_le_bytes();
                        r.pending_referrer_fees_sf = sf(f3.0, f3.1).to_le_bytes();
                        r.mint_decimals = 6;
                        r.slot = 1000;
                        let two60 = Q::from_integer(BigInt::one() << 60);
                        let exact = rf::qu(av) + (qbig(sf(b.0, b.1)) - qbig(sf(f1.0, f1.1)) - qbig(sf(f2.0, f2.1)) - qbig(sf(f3.0, f3.1))) / two60;
                        let got = std::panic::catch_unwind(std::panic::AssertUnwindSafe(|| r.calculate_total_supply_i80f48()));
                        let rep = json!({"fn": "kamino_total_supply", "available": av, "borrowed": [b.0, b.1], "fees": [[f1.0, f1.1], [f2.0, f2.1], [f3.0, f3.1]]});
                        match got {
                            Err(_) => a.class("kamino:total_supply:panic"),
                            Ok(g) => {
                                a.class(if exact < rf::qzero() { "kamino:total_supply:negative" } else { "kamino:total_supply:some" });
                                let gq = qi80(g);
                                // each of the four fractions is truncated to 2^-48 separately: at most 3 ulps above, 1 below
                                if gq.clone() - exact.clone() >= ulp.clone() * rf::qi(3) + ulp.clone() || exact.clone() - gq.clone() >= ulp.clone() * rf::qi(2) {
                                    a.fail("C20.never_overstates", "kamino_total_supply", format!("kamino total liquidity {} for available {av}, borrowed {}.{}, fees {:?}: exact {:.9}", g, b.0, b.1, [f1, f2, f3], rf::qf64(&exact)), rep.clone());
                                } else if exact > rf::qzero() {
                                    for &col in &cols {
                                        r.mint_total_supply = col;
                                        for &x in &[1u64, 1_000, 900_000_000, 1u64 << 40] {
                                            if x > col {
                                                continue;
                                            }
                                            if let Some(l) = std::panic::catch_unwind(std::panic::AssertUnwindSafe(|| r.collateral_to_liquidity(x).ok())).unwrap_or(None) {
                                                a.class("kamino:composition:c2l");
                                                let ex = rf::qu(x) * exact.clone() / rf::qu(col);
                                                if rf::qu(l) > ex.clone() + rf::qone() {
                                                    a.fail("C20.never_overstates", "kamino_composition", format!("kamino: {x} of {col} collateral valued at {l}, exact {:.6} (total liquidity {:.6})", rf::qf64(&ex), rf::qf64(&exact)), json!({"fn": "kamino_composition", "x": x, "col": col, "reserve": rep.clone()}));
                                                }
                                            }
                                        }
                                    }
                                }
                            }
                        }
                    }
                    // ---- Solend: available + borrowed - protocol fees, 10^18-scaled
                    let wad = |whole: u64, frac_60: u64| -> u128 { (whole as u128) * 1_000_000_000_000_000_000u128 + (frac_60 as u128 % 1_000_000_000_000_000_000u128) };
                    let mut s: SolendMinimalReserve = bytemuck::Zeroable::zeroed();
                    s.liquidity_available_amount = av;
                    s.liquidity_borrowed_amount_wads = wad(b.0, b.1).to_le_bytes();
                    s.liquidity_accumulated_protocol_fees_wads = wad(f1.0 + f2.0, f1.1).to_le_bytes();
                    s.liquidity_mint_decimals = 6;
                    let w18 = Q::from_integer(BigInt::from(1_000_000_000_000_000_000u128));
                    let exact = rf::qu(av) + (qbig(wad(b.0, b.1)) - qbig(wad(f1.0 + f2.0, f1.1))) / w18;
                    let got = std::panic::catch_unwind(std::panic::AssertUnwindSafe(|| s.calculate_total_liquidity().ok())).unwrap_or(None);
                    let rep = json!({"fn": "solend_total_liquidity", "available": av, "borrowed": [b.0, b.1], "fees": [f1.0 + f2.0, f1.1]});
                    match got {
                        None => a.class("solend:total_liquidity:err"),
                        Some(g) => {
                            a.class(if exact < rf::qzero() { "solend:total_liquidity:negative" } else { "solend:total_liquidity:some" });
                            let gq = qi80(g);
                            if gq.clone() - exact.clone() >= ulp.clone() * rf::qi(2) || exact.clone() - gq.clone() >= ulp.clone() * rf::qi(2) {
                                a.fail("C20.never_overstates", "solend_total_liquidity", format!("solend total liquidity {} for available {av}, borrowed {}.{}, fees {}.{}: exact {:.9}", g, b.0, b.1, f1.0 + f2.0, f1.1, rf::qf64(&exact)), rep.clone());
                            } else if exact > rf::qzero() {
                                for &col in &cols {
                                    s.collateral_mint_total_supply = col;
                                    for &x in &[1u64, 1_000, 900_000_000, 1u64 << 40] {
                                        if x > col {
                                            continue;
                                        }
                                        if let Some(l) = std::panic::catch_unwind(std::panic::AssertUnwindSafe(|| s.collateral_to_liquidity(x).ok())).unwrap_or(None) {
                                            a.class("solend:composition:c2l");
                                            let ex = rf::qu(x) * exact.clone() / rf::qu(col);
                                            if rf::qu(l) > ex.clone() + rf::qone() {
                                                a.fail("C20.never_overstates", "solend_composition", format!("solend: {x} of {col} collateral valued at {l}, exact {:.6} (total liquidity {:.6})", rf::qf64(&ex), rf::qf64(&exact)), json!({"fn": "solend_composition", "x": x, "col": col, "reserve": rep.clone()}));
                                            }
                                        }
                                    }
                                }
                            }
                        }
                    }
                }
            }
        }
    }
}

fn sweep_kamino_solend(tier: Tier, a: &mut Acc) {
    let decs: Vec<u64> = vec![0, 6, 9, 19, 23, 24];
    for (liq, col) in supply_pairs(tier) {
        for &d in &decs {
            // Kamino
            let mut r: MinimalReserve = bytemuck::Zeroable::zeroed();
            r.available_amount = liq;
            r.mint_total_supply = col;
            r.mint_decimals = d;
            r.slot = 1000;
            let mut s: SolendMinimalReserve = bytemuck::Zeroable::zeroed();
            s.liquidity_available_amount = liq;
            s.collateral_mint_total_supply = col;
            s.liquidity_mint_decimals = d as u8;
            for &x in &amounts() {
                for venue in ["kamino", "solend"] {
                    let (l2c, c2l_of) = if venue == "kamino" {
                        (std::panic::catch_unwind(std::panic::AssertUnwindSafe(|| r.liquidity_to_collateral(x).ok())).unwrap_or(None), 0)
                    } else {
                        (std::panic::catch_unwind(std::panic::AssertUnwindSafe(|| s.liquidity_to_collateral(x).ok())).unwrap_or(None), 1)
                    };
                    let Some(c) = l2c else {
                        a.class(&format!("{venue}:deposit:err"));
                        continue;
                    };
                    let back = if c2l_of == 0 {
                        std::panic::catch_unwind(std::panic::AssertUnwindSafe(|| r.collateral_to_liquidity(c).ok())).unwrap_or(None)
                    } else {
                        std::panic::catch_unwind(std::panic::AssertUnwindSafe(|| s.collateral_to_liquidity(c).ok())).unwrap_or(None)
                    };
                    match back {
                        None => a.class(&format!("{venue}:withdraw:err")),
                        Some(b) => {
                            a.class(&format!("{venue}:roundtrip"));
                            if b > x {
                                a.fail("C20.roundtrip_no_gain", venue, format!("{venue}: deposit {x} -> {c} collateral -> withdraw {b} (liq {liq}, col {col}, dec {d})"), json!({"fn": venue, "x": x, "liq": liq, "col": col, "dec": d}));
                            }
                        }
                    }
                }
            }
            // staleness: refreshed strictly before the current slot => stale
            for (slot, now, want) in [(1000u64, 1000u64, false), (999, 1000, true), (1001, 1000, false), (0, 1, true)] {
                r.slot = slot;
                a.class("kamino:is_stale");
                if r.is_stale(now) != want {
                    a.fail("C20.stale", "kamino", format!("kamino reserve refreshed at slot {slot} reported stale={} at slot {now}", !want), json!({"fn": "kamino_stale", "slot": slot, "now": now}));
                }
                s.last_update_slot = slot;
                let clock = solana_program::clock::Clock { slot: now, ..Default::default() };
                let got = crate::svm::with_clock(clock, || s.is_stale().ok());
                a.class("solend:is_stale");
                if got != Some(want) {
                    a.fail("C20.stale", "solend", format!("solend reserve refreshed at slot {slot} reported {:?} at slot {now}", got), json!({"fn": "solend_stale", "slot": slot, "now": now}));
                }
            }
        }
    }
    // solend decimal conversion
    for raw in [0u128, 1, 999_999_999_999_999_999, 1_000_000_000_000_000_000, 1_000_000_000_000_000_001, u64::MAX as u128 * 1_000_000_000_000_000_000, u128::MAX / 2, u128::MAX] {
        let got = solend_mocks::state::decimal_to_i80f48(raw.to_le_bytes());
        match got {
            Err(_) => a.class("decimal_to_i80f48:err"),
            Ok(g) => {
                a.class("decimal_to_i80f48:ok");
                let exact = qbig(raw) / rf::pow10(18);
                let gq = qi80(g);
                if gq > exact || exact.clone() - gq.clone() >= rf::ulp() || gq.is_negative() {
                    a.fail("C20.not_wrapped", "decimal_to_i80f48", format!("decimal_to_i80f48({raw}) = {g}"), json!({"fn": "decimal_to_i80f48", "raw": raw.to_string()}));
                }
            }
        }
    }
}

fn sweep_drift(tier: Tier, a: &mut Acc) {
    let cis: Vec<u128> = {
        let mut v = vec![0u128, 1, 9_999_999_999, 10_000_000_000, 10_000_000_001, 10_700_000_000, 20_000_000_000, 1u128 << 64, u128::MAX];
        if tier == Tier::Thorough {
            v.extend([10_000_000_007u128, 12_345_678_901, 19_999_999_999, 1u128 << 100]);
        }
        v
    };
    for &ci in &cis {
        for dec in (0u32..=21).chain([255u32]) {
            let mut m = MinimalSpotMarket::default();
            m.cumulative_deposit_interest = ci.to_le_bytes();
            m.decimals = dec;
            let p: Option<u128> = if dec <= 19 { Some(10u128.pow(19 - dec)) } else { None };
            for &x in &amounts() {
                let inc = std::panic::catch_unwind(std::panic::AssertUnwindSafe(|| m.get_scaled_balance_increment(x).ok())).unwrap_or(None);
                let dcr = std::panic::catch_unwind(std::panic::AssertUnwindSafe(|| m.get_scaled_balance_decrement(x).ok())).unwrap_or(None);
                let rep = json!({"fn": "drift", "ci": ci.to_string(), "dec": dec, "x": x});
                match (inc, p) {
                    (Some(i), Some(p)) if ci != 0 => {
                        a.class("drift:increment:ok");
                        let exact = qbig(x as u128) * qbig(p) / qbig(ci);
                        if rf::qu(i) > exact || exact - rf::qu(i) >= rf::qone() {
                            a.fail("C20.not_wrapped", "drift_increment", format!("increment({x}) = {i} with ci {ci} dec {dec}"), rep.clone());
                        }
                        if let Some(dd) = dcr {
                            a.class("drift:decrement:ok");
                            if dd < i {
                                a.fail("C20.drift_decrement_ge_increment", "drift", format!("withdrawing {x} burns {dd} < the {i} a deposit mints"), rep.clone());
                            }
                        }
                        let back = std::panic::catch_unwind(std::panic::AssertUnwindSafe(|| m.get_withdraw_token_amount(i).ok())).unwrap_or(None);
                        if let Some(b) = back {
                            a.class("drift:roundtrip");
                            if b > x {
                                a.fail("C20.roundtrip_no_gain", "drift", format!("drift: deposit {x} -> {i} scaled -> {b} tokens"), rep.clone());
                            }
                        }
                    }
                    (Some(i), _) => {
                        a.class("drift:increment:unexpected_ok");
                        a.fail("C20.fail_closed", "drift_increment", format!("increment({x}) = {i} with ci {ci} dec {dec} (zero divisor or unsupported decimals)"), rep.clone());
                    }
                    (None, _) => a.class(if ci == 0 { "drift:increment:err:zero_divisor" } else if p.is_none() { "drift:increment:err:decimals" } else { "drift:increment:err:overflow" }),
                }
            }
            // oracle adjustment
            for raw in [i64::MIN, -1, 0, 1, 1_000_000, 155_594_045, i64::MAX] {
                let got = std::panic::catch_unwind(std::panic::AssertUnwindSafe(|| m.adjust_i64(raw).ok())).unwrap_or(None);
                match got {
                    None => a.class("drift:adjust_i64:err"),
                    Some(g) => {
                        a.class("drift:adjust_i64:ok");
                        let exact = Q::from_integer(BigInt::from(raw)) * qbig(ci) / qbig(10_000_000_000);
                        let gq = Q::from_integer(BigInt::from(g));
                        if raw < 0 || gq > exact || exact - gq >= rf::qone() {
                            a.fail("C20.never_overstates", "drift_adjust", format!("drift adjust_i64({raw}) = {g} with ci {ci}"), json!({"fn": "drift_adjust", "ci": ci.to_string(), "raw": raw}));
                        }
                    }
                }
            }
        }
        // staleness
        let mut m = MinimalSpotMarket::default();
        for (ts, now, want) in [(1000u64, 1000i64, false), (999, 1000, true), (1001, 1000, false)] {
            m.last_interest_ts = ts;
            a.class("drift:is_stale");
            if m.is_stale(now) != want {
                a.fail("C20.stale", "drift", format!("drift market with last interest {ts} reported stale={} at {now}", !want), json!({"fn": "drift_stale", "ts": ts, "now": now}));
            }
        }
    }
    // deposit limit scaling
    for lim in [0u64, 1, 1_000_000, u64::MAX] {
        for dec in [0u8, 6, 9, 12, 19, 32] {
            let got = std::panic::catch_unwind(|| drift_mocks::constants::scale_drift_deposit_limit(lim, dec).ok()).unwrap_or(None);
            match got {
                None => a.class("drift:scale_limit:err"),
                Some(g) => {
                    a.class("drift:scale_limit:ok");
                    let exact = if dec <= 9 { rf::qu(lim) * rf::pow10(9 - dec as u32) } else { rf::qu(lim) / rf::pow10(dec as u32 - 9) };
                    let gq = qi80(g);
                    if gq > exact || exact - gq >= rf::ulp() {
                        a.fail("C20.not_wrapped", "scale_drift_deposit_limit", format!("scale_drift_deposit_limit({lim},{dec}) = {g}"), json!({"fn": "scale_limit", "lim": lim, "dec": dec}));
                    }
                }
            }
        }
    }
}

/// The exchange-rate-adjusted oracle price as the program computes it, through the real
/// `OraclePriceFeedAdapter` on forged venue accounts, against price x exact exchange rate.
fn sweep_adjusted_price(tier: Tier, a: &mut Acc) {
    use crate::svm::{with_account_infos, Acct};
    use crate::world::{key, pyth_account};
    use marginfi::state::price::{OraclePriceFeedAdapter, OraclePriceType, PriceAdapter};
    use marginfi_type_crate::types::{Bank, OracleSetup};
    let now = 1_700_000_000i64;
    let clock = solana_program::clock::Clock { slot: 5000, unix_timestamp: now, ..Default::default() };
    let pyth_k = key("c20:pyth");
    let venue_k = key("c20:venue");
    let prices: Vec<i64> = vec![1, 999, 100_000_000, 15_559_404_527, 1_000_000_000_000, i64::MAX / 4];
    for (liq, col) in supply_pairs(tier) {
        if col == 0 {
            continue;
        }
        for dec in [0u64, 6, 9] {
            for &price in &prices {
                let pyth = pyth_account(price, 0, price, 0, -8, now, true);
                for venue in ["kamino", "solend"] {
                    let mut bank: Bank = bytemuck::Zeroable::zeroed();
                    bank.config.oracle_keys[0] = pyth_k;
                    bank.config.oracle_keys[1] = venue_k;
                    bank.config.oracle_max_age = 60;
                    let vacct = if venue == "kamino" {
                        bank.config.oracle_setup = OracleSetup::KaminoPythPush;
                        let mut r: MinimalReserve = bytemuck::Zeroable::zeroed();
                        r.available_amount = liq;
                        r.mint_total_supply = col;
                        r.mint_decimals = dec;
                        r.slot = clock.slot;
                        let mut d = kamino_mocks::state::RESERVE_DISCRIMINATOR.to_vec();
                        d.extend_from_slice(bytemuck::bytes_of(&r));
                        Acct::new(1, d, kamino_mocks::ID)
                    } else {
                        bank.config.oracle_setup = OracleSetup::SolendPythPull;
                        let mut r: SolendMinimalReserve = bytemuck::Zeroable::zeroed();
                        r.liquidity_available_amount = liq;
                        r.collateral_mint_total_supply = col;
                        r.liquidity_mint_decimals = dec as u8;
                        r.last_update_slot = clock.slot;
                        let mut d = solend_mocks::state::RESERVE_DISCRIMINATOR.to_vec();
                        d.extend_from_slice(bytemuck::bytes_of(&r));
                        Acct::new(1, d, solend_mocks::ID)
                    };
                    let got = with_account_infos(clock.clone(), &[(pyth_k, pyth.clone()), (venue_k, vacct)], |ais| {
                        std::panic::catch_unwind(std::panic::AssertUnwindSafe(|| {
                            OraclePriceFeedAdapter::try_from_bank_with_max_age(&bank, ais, &clock, 60).ok().and_then(|ad| ad.get_price_of_type(OraclePriceType::RealTime, None, 0).ok())
                        }))
                        .unwrap_or(None)
                    });
                    match got {
                        None => a.class(&format!("adjusted_price:{venue}:err")),
                        Some(p) => {
                            a.class(&format!("adjusted_price:{venue}:ok"));
                            let exact = rf::qi(price as i128) * rf::qu(liq) / rf::qu(col) / rf::pow10(8);
                            if qi80(p) > exact {
                                a.fail(
                                    "C20.adjusted_price_le_exact",
                                    &format!("{}:{}", venue, if (col as u128) < 10u128.pow(dec as u32) { "collateral_supply_below_one_token" } else { "collateral_supply_at_least_one_token" }),
                                    format!("{venue}: oracle price {price}e-8 with pool liquidity {liq} / collateral supply {col} (decimals {dec}) is adjusted to {p}, above price x exact rate = {:.12}", rf::qf64(&exact)),
                                    json!({"fn": "adjusted_price", "venue": venue, "liq": liq, "col": col, "dec": dec, "price": price}),
                                );
                            }
                        }
                    }
                }
            }
        }
    }
}

/// a venue reserve / market counts only when it was refreshed in the current slot (Kamino, Solend) or
/// second (Drift): every venue oracle setup x refresh lag, through the real adapter
fn sweep_staleness(a: &mut Acc) {
    use crate::svm::{with_account_infos, Acct};
    use crate::world::{key, pyth_account, swb_account};
    use marginfi::state::price::{OraclePriceFeedAdapter, OraclePriceType, PriceAdapter};
    use marginfi_type_crate::types::{Bank, OracleSetup};
    let now = 1_700_000_000i64;
    let clock = solana_program::clock::Clock { slot: 250_000_000, unix_timestamp: now, ..Default::default() };
    let (oracle_k, venue_k) = (key("c20s:oracle"), key("c20s:venue"));
    let setups = [OracleSetup::KaminoPythPush, OracleSetup::KaminoSwitchboardPull, OracleSetup::SolendPythPull, OracleSetup::SolendSwitchboardPull, OracleSetup::DriftPythPull, OracleSetup::DriftSwitchboardPull];
    for setup in setups {
        for lag in [0u64, 1, 2, 3600, 2_592_000] {
            let mut bank: Bank = bytemuck::Zeroable::zeroed();
            bank.config.oracle_setup = setup;
            bank.config.oracle_keys[0] = oracle_k;
            bank.config.oracle_keys[1] = venue_k;
            bank.config.oracle_max_age = 60;
            let pyth_side = matches!(setup, OracleSetup::KaminoPythPush | OracleSetup::SolendPythPull | OracleSetup::DriftPythPull);
            let oracle = if pyth_side { pyth_account(100_000_000, 0, 100_000_000, 0, -8, now, true) } else { swb_account(1_000_000_000_000_000_000, 0, now) };
            let vacct = match setup {
                OracleSetup::KaminoPythPush | OracleSetup::KaminoSwitchboardPull => {
                    let mut r: MinimalReserve = bytemuck::Zeroable::zeroed();
                    r.available_amount = 2_000_000_000;
                    r.mint_total_supply = 1_000_000_000;
                    r.mint_decimals = 6;
                    r.slot = clock.slot - lag;
                    let mut d = kamino_mocks::state::RESERVE_DISCRIMINATOR.to_vec();
                    d.extend_from_slice(bytemuck::bytes_of(&r));
                    Acct::new(1, d, kamino_mocks::ID)
                }
                OracleSetup::SolendPythPull | OracleSetup::SolendSwitchboardPull => {
                    let mut r: SolendMinimalReserve = bytemuck::Zeroable::zeroed();
                    r.liquidity_available_amount = 2_000_000_000;
                    r.collateral_mint_total_supply = 1_000_000_000;
                    r.liquidity_mint_decimals = 6;
                    r.last_update_slot = clock.slot - lag;
                    let mut d = solend_mocks::state::RESERVE_DISCRIMINATOR.to_vec();
                    d.extend_from_slice(bytemuck::bytes_of(&r));
                    Acct::new(1, d, solend_mocks::ID)
                }
                _ => {
                    let mut m = MinimalSpotMarket::default();
                    m.cumulative_deposit_interest = 11_000_000_000u128.to_le_bytes();
                    m.decimals = 6;
                    m.last_interest_ts = (now as u64) - lag;
                    let mut d = drift_mocks::state::SPOT_MARKET_DISCRIMINATOR.to_vec();
                    d.extend_from_slice(bytemuck::bytes_of(&m));
                    Acct::new(1, d, drift_mocks::ID)
                }
            };
            let got = with_account_infos(clock.clone(), &[(oracle_k, oracle), (venue_k, vacct)], |ais| {
                std::panic::catch_unwind(std::panic::AssertUnwindSafe(|| OraclePriceFeedAdapter::try_from_bank_with_max_age(&bank, ais, &clock, 60).ok().and_then(|ad| ad.get_price_of_type(OraclePriceType::RealTime, None, 0).ok()))).unwrap_or(None)
            });
            a.evals += 1;
            a.class(&format!("staleness:{:?}:lag{}:{}", setup, if lag == 0 { "0" } else { ">0" }, if got.is_some() { "priced" } else { "refused" }));
            let rep = json!({"fn": "staleness", "setup": format!("{:?}", setup), "lag": lag});
            if lag > 0 {
                if let Some(p) = got {
                    a.fail("C20.unrefreshed_venue_is_stale", &format!("{:?}", setup), format!("{:?}: a reserve / market last refreshed {lag} {} ago still prices the bank ({p})", setup, if matches!(setup, OracleSetup::DriftPythPull | OracleSetup::DriftSwitchboardPull) { "s" } else { "slots" }), rep);
                }
            } else if got.is_none() {
                a.fail("C20.fresh_venue_prices", &format!("{:?}", setup), format!("{:?}: the adapter refuses a reserve / market refreshed in the current slot / second (harness construction problem or over-strict staleness)", setup), rep);
            }
        }
    }
}

pub fn run(tier: Tier) -> Outcome {
    DEEP.store(if tier == Tier::Thorough { 1 } else { 0 }, std::sync::atomic::Ordering::Relaxed);
    let mut a = Acc { evals: 0, classes: BTreeMap::new(), found: vec![], samples: vec![] };
    sweep_scaled(tier, &mut a);
    sweep_staleness(&mut a);
    sweep_adjust(tier, &mut a);
    sweep_kamino_solend(tier, &mut a);
    sweep_reserve_composition(tier, &mut a);
    sweep_drift(tier, &mut a);
    sweep_adjusted_price(tier, &mut a);
    a.samples.push(json!({"fn": "collateral_to_liquidity_from_scaled", "x": 999, "liq": 1_070_000_000_000u64, "col": 1_000_000_000_000u64, "dec": 6}));
    a.samples.push(json!({"fn": "drift.get_scaled_balance_decrement", "x": 4294967297u64, "cumulative_deposit_interest": "10700000000", "decimals": 6}));
    a.samples.push(json!({"fn": "adjust_i64", "raw": i64::MAX, "ratio": "1.07"}));
    let mut o = Outcome { level: "exploration".into(), ..Default::default() };
    o.found = a.found;
    for req in ["c2l:some", "c2l:none:zero_divisor", "c2l:none:overflow", "l2c:some", "adjust_i64:some", "adjust_i64:none", "adjust_u64:none", "adjust_i128:none", "drift:increment:ok", "drift:increment:err:zero_divisor", "drift:increment:err:overflow", "kamino:roundtrip", "solend:roundtrip", "drift:roundtrip"] {
        if !a.classes.contains_key(req) {
            o.machinery.push(format!("vacuity guard: class {req} never exercised"));
        }
    }
    let distinct = a.classes.len();
    o.coverage = json!({
        "evaluations": a.evals,
        "distinct_nontrivial": distinct,
        "rule": "complete products of boundary-directed menus: supplies (0,1,2,1e6-1,1e6,1e12,2^48,2^63,2^64-1 (more in thorough) and pairs with ten exchange rates in [0.5,4] on seven collateral supplies, powers of two +-1 in thorough) x decimals {0,1,6,9,18,19,23,24,255} x amounts {0,1,2,3,999, every 2^k and 10^k with both neighbours, u64::MAX-1, u64::MAX; thorough: also 3*2^k, 5*10^k+-1, Fibonacci numbers}; prices over the i64/u64/i128 boundary sets x rate menu; Drift cumulative interest {0,1,1e10+-1,1.07e10,2e10,2^64,u128::MAX} x decimals 0..=21; every result is compared with exact rational arithmetic; a class is (function, outcome kind)",
        "exhaustive": true,
        "outcome_classes": a.classes,
        "samples": a.samples,
    });
    o.assumptions = vec!["pure public functions of type-crate and the kamino/solend/drift mock crates are called directly; venue CPIs are out of scope".into()];
    o
}
