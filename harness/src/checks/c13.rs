//! C13 — accepted configurations are coherent. Admin-history BFS through the real entrypoint over
//! every configuration write path (add bank, configure bank, e-mode configure / clone, group caps,
//! staked settings edit + propagate, lite configure), weights and entries drawn from a menu that
//! brackets every boundary by one ULP. Every accepted post-state is judged by an exact rational
//! invariant on the banks whose configuration bytes changed, by the killed-state rule, and by the
//! consequence "init-healthy => maintenance-healthy" evaluated with the program's own risk engine
//! (pulse_health) on boundary portfolios.

use super::Tier;
use crate::evidence::{Found, Outcome};
use crate::ix;
use crate::refmodel as rf;
use crate::svm::{process_tx, Store, Tx};
use crate::world::{self, *};
use fixed::types::I80F48;
use marginfi_type_crate::types::{Balance, Bank, BankConfigOpt, BankOperationalState, EmodeEntry, RiskTier};
use num_traits::{One, Zero};
use rayon::prelude::*;
use serde_json::json;
use solana_program::pubkey::Pubkey;
use std::collections::{BTreeMap, BTreeSet};

const ULP: i128 = 1;
fn fx(raw: i128) -> I80F48 {
    I80F48::from_bits(raw)
}
fn one() -> i128 {
    1i128 << 48
}
fn frac(n: i128, d: i128) -> i128 {
    one() * n / d
}

/// weights menu: every boundary of the statement bracketed by one ULP
fn w_menu() -> Vec<(String, i128)> {
    vec![("-ulp".into(), -ULP), ("0".into(), 0), ("ulp".into(), ULP), ("0.5".into(), frac(1, 2)), ("1-ulp".into(), one() - ULP), ("1".into(), one()), ("1+ulp".into(), one() + ULP), ("1.5".into(), frac(3, 2)), ("2".into(), 2 * one()), ("2+ulp".into(), 2 * one() + ULP)]
}
fn l_menu() -> Vec<(String, i128)> {
    vec![("1-ulp".into(), one() - ULP), ("1".into(), one()), ("1+ulp".into(), one() + ULP), ("1.05".into(), frac(105, 100)), ("1.25".into(), frac(5, 4)), ("2".into(), 2 * one())]
}
/// e-mode entry weights: additionally values around the leverage caps against lw = 1, 1.05, 1.25
fn e_menu() -> Vec<(String, i128)> {
    let mut v = w_menu();
    v.extend([("0.9".to_string(), frac(9, 10)), ("0.95".to_string(), frac(95, 100)), ("0.99".to_string(), frac(99, 100)), ("1.04".to_string(), frac(104, 100)), ("1.2".to_string(), frac(12, 10))]);
    v
}

#[derive(Clone)]
struct Adm {
    name: String,
    tx: Tx,
}

struct K {
    w: World,
    staked: usize,
    spare_mint: Pubkey,
}

fn entries_of(v: &[(u16, i128, i128)]) -> [EmodeEntry; 10] {
    let mut arr = [EmodeEntry { collateral_bank_emode_tag: 0, flags: 0, pad0: [0; 5], asset_weight_init: I80F48::ZERO.into(), asset_weight_maint: I80F48::ZERO.into() }; 10];
    for (i, (t, a, b)) in v.iter().enumerate() {
        arr[i] = EmodeEntry { collateral_bank_emode_tag: *t, flags: 0, pad0: [0; 5], asset_weight_init: fx(*a).into(), asset_weight_maint: fx(*b).into() };
    }
    arr
}

fn build() -> (K, Store) {
    let mk = |label: &str, mint: &str, dec: u8, price: i64| BankSpec { label: label.into(), mint: MintSpec::spl(mint, dec), oracle: OracleSpec::pyth_usd(price), config: BankCfg::default() };
    let (w, mut s) = build_world(&WorldSpec::new("K", vec![mk("KA", "ka", 6, 100_000_000), mk("KB", "kb", 9, 10_000_000_000), mk("KS", "ks", 9, 10_000_000_000)], &["u0", "u1", "seeder"]));
    world::make_staked_bank(&mut s, &w, 2, 3_000_000_000_000);
    let cfg = marginfi::instructions::StakedSettingsConfig { oracle: w.banks[2].oracle.unwrap(), asset_weight_init: I80F48::from_num(0.7).into(), asset_weight_maint: I80F48::from_num(0.8).into(), deposit_limit: 1_000_000_000_000, total_asset_value_init_limit: 0, oracle_max_age: 60, risk_tier: RiskTier::Collateral };
    assert!(process_tx(&mut s, &Tx::one(ix::init_staked_settings(w.group, w.roles.admin, w.payer, cfg), &[w.roles.admin, w.payer])).ok());
    // e-mode tags: each bank gets a tag so that entries can name it as collateral
    for (i, t) in [(0usize, 5u16), (1, 6), (2, 7)] {
        assert!(process_tx(&mut s, &Tx::one(ix::configure_bank_emode(w.group, w.roles.emode, w.banks[i].key, t, entries_of(&[])), &[w.roles.emode])).ok());
    }
    let spare_mint = create_mint(&mut s, &w.payer, &w.mint_auth, &MintSpec::spl("kspare", 6));
    (K { w, staked: 2, spare_mint }, s)
}

fn opt_none() -> BankConfigOpt {
    BankConfigOpt::default()
}

fn alphabet(k: &K, s: &Store, reduced: bool) -> Vec<Adm> {
    let w = &k.w;
    let (g, admin) = (w.group, w.roles.admin);
    let mut v: Vec<Adm> = vec![];
    let wm = w_menu();
    let lm = l_menu();
    let em = e_menu();
    let pick = |m: &Vec<(String, i128)>, keep: &[&str]| -> Vec<(String, i128)> { m.iter().filter(|(n, _)| !reduced || keep.contains(&n.as_str())).cloned().collect() };
    let wm_r = pick(&wm, &["0", "0.5", "1", "1+ulp", "2"]);
    let lm_r = pick(&lm, &["1-ulp", "1", "1.05", "2"]);
    let em_r = pick(&em, &["0", "0.5", "0.95", "0.99", "1", "1.04", "1.2"]);
    let mut bank_keys: Vec<(String, Pubkey)> = w.banks.iter().map(|b| (b.label.clone(), b.key)).collect();
    // banks added during the search
    for i in 0..8u64 {
        let kx = ix::bank_with_seed_key(&g, &k.spare_mint, i);
        if world::try_bank(s, &kx).is_some() {
            bank_keys.push((format!("NEW{i}"), kx));
        }
    }
    for (bl, bk) in bank_keys.iter().filter(|(l, _)| l != "KS") {
        for (n1, a) in &wm_r {
            for (n2, b) in &wm_r {
                let o = BankConfigOpt { asset_weight_init: Some(fx(*a).into()), asset_weight_maint: Some(fx(*b).into()), ..opt_none() };
                v.push(Adm { name: format!("configure_bank({bl},aw={n1}/{n2})"), tx: Tx::one(ix::configure_bank(g, admin, *bk, o), &[admin]) });
            }
        }
        for (n1, a) in &lm_r {
            for (n2, b) in &lm_r {
                let o = BankConfigOpt { liability_weight_init: Some(fx(*a).into()), liability_weight_maint: Some(fx(*b).into()), ..opt_none() };
                v.push(Adm { name: format!("configure_bank({bl},lw={n1}/{n2})"), tx: Tx::one(ix::configure_bank(g, admin, *bk, o), &[admin]) });
            }
        }
        // single-field requests (the other weight of the pair keeps its current value)
        for (n1, a) in &lm_r {
            v.push(Adm { name: format!("configure_bank({bl},lw_init={n1})"), tx: Tx::one(ix::configure_bank(g, admin, *bk, BankConfigOpt { liability_weight_init: Some(fx(*a).into()), ..opt_none() }), &[admin]) });
            v.push(Adm { name: format!("configure_bank({bl},lw_maint={n1})"), tx: Tx::one(ix::configure_bank(g, admin, *bk, BankConfigOpt { liability_weight_maint: Some(fx(*a).into()), ..opt_none() }), &[admin]) });
        }
        for (n1, a) in &wm_r {
            v.push(Adm { name: format!("configure_bank({bl},aw_init={n1})"), tx: Tx::one(ix::configure_bank(g, admin, *bk, BankConfigOpt { asset_weight_init: Some(fx(*a).into()), ..opt_none() }), &[admin]) });
            v.push(Adm { name: format!("configure_bank({bl},aw_maint={n1})"), tx: Tx::one(ix::configure_bank(g, admin, *bk, BankConfigOpt { asset_weight_maint: Some(fx(*a).into()), ..opt_none() }), &[admin]) });
        }
        for (n, tier, zero) in [("iso", RiskTier::Isolated, false), ("iso0", RiskTier::Isolated, true), ("coll", RiskTier::Collateral, false)] {
            let mut o = BankConfigOpt { risk_tier: Some(tier), ..opt_none() };
            if zero {
                o.asset_weight_init = Some(I80F48::ZERO.into());
                o.asset_weight_maint = Some(I80F48::ZERO.into());
            }
            v.push(Adm { name: format!("configure_bank({bl},tier={n})"), tx: Tx::one(ix::configure_bank(g, admin, *bk, o), &[admin]) });
        }
        for age in [0u16, 9, 10, 11] {
            v.push(Adm { name: format!("configure_bank({bl},age={age})"), tx: Tx::one(ix::configure_bank(g, admin, *bk, BankConfigOpt { oracle_max_age: Some(age), ..opt_none() }), &[admin]) });
        }
        for (n, st) in [("paused", BankOperationalState::Paused), ("operational", BankOperationalState::Operational), ("reduce", BankOperationalState::ReduceOnly), ("killed", BankOperationalState::KilledByBankruptcy)] {
            v.push(Adm { name: format!("configure_bank({bl},state={n})"), tx: Tx::one(ix::configure_bank(g, admin, *bk, BankConfigOpt { operational_state: Some(st), ..opt_none() }), &[admin]) });
        }
        // e-mode entries on this (liability) bank naming the other banks' tags
        for (n1, a) in &em_r {
            for (n2, b) in &em_r {
                v.push(Adm { name: format!("configure_emode({bl},[5:{n1}/{n2}])"), tx: Tx::one(ix::configure_bank_emode(g, w.roles.emode, *bk, if bl == "KA" { 5 } else { 6 }, entries_of(&[(if bl == "KA" { 6 } else { 5 }, *a, *b)])), &[w.roles.emode]) });
            }
        }
        let own = if bl == "KA" { 5 } else { 6 };
        // entries naming the bank's own tag (tags are shared by families of banks: the entry applies to the collateral of
        // every other bank carrying it, whatever this bank's own asset weights are)
        for (n, a, b) in [("0.5/0.5", frac(1, 2), frac(1, 2)), ("0.95/0.5", frac(95, 100), frac(1, 2)), ("0.5/0.95", frac(1, 2), frac(95, 100)), ("1/1", one(), one()), ("0.99/1", frac(99, 100), one()), ("1.04/1.2", frac(104, 100), frac(12, 10))] {
            v.push(Adm { name: format!("configure_emode({bl},own[{n}])"), tx: Tx::one(ix::configure_bank_emode(g, w.roles.emode, *bk, own, entries_of(&[(own, a, b)])), &[w.roles.emode]) });
        }
        v.push(Adm { name: format!("configure_emode({bl},dup)"), tx: Tx::one(ix::configure_bank_emode(g, w.roles.emode, *bk, own, entries_of(&[(7, frac(1, 2), frac(6, 10)), (7, frac(1, 2), frac(6, 10))])), &[w.roles.emode]) });
        v.push(Adm { name: format!("configure_emode({bl},two)"), tx: Tx::one(ix::configure_bank_emode(g, w.roles.emode, *bk, own, entries_of(&[(7, frac(8, 10), frac(85, 100)), (if bl == "KA" { 6 } else { 5 }, frac(9, 10), frac(92, 100))])), &[w.roles.emode]) });
        v.push(Adm { name: format!("configure_emode({bl},clear)"), tx: Tx::one(ix::configure_bank_emode(g, w.roles.emode, *bk, own, entries_of(&[])), &[w.roles.emode]) });
        // a bank that cannot be borrowed from (limit 0) is still a bank whose configuration must be coherent; and the
        // wind-down instructions of the risk admin are admin instructions too (the killed state is not theirs to leave)
        v.push(Adm { name: format!("limits_only({bl},borrow=0)"), tx: Tx::one(ix::configure_bank_limits_only(g, w.roles.limit, *bk, None, Some(0), None), &[w.roles.limit]) });
        v.push(Adm { name: format!("configure_bank({bl},tokenless=on)"), tx: Tx::one(ix::configure_bank(g, admin, *bk, BankConfigOpt { tokenless_repayments_allowed: Some(true), ..opt_none() }), &[admin]) });
        v.push(Adm { name: format!("force_tokenless_complete({bl})"), tx: Tx::one(ix::force_tokenless_repay_complete(g, w.roles.risk, *bk), &[w.roles.risk]) });
        v.push(Adm { name: format!("limits_only({bl})"), tx: Tx::one(ix::configure_bank_limits_only(g, w.roles.limit, *bk, Some(7), Some(8), Some(9)), &[w.roles.limit]) });
    }
    for (fl, fk) in &bank_keys {
        for (tl, tk) in &bank_keys {
            if fl != tl {
                for signer in [admin, w.roles.emode] {
                    v.push(Adm { name: format!("clone_emode({fl}->{tl},{})", world::label_of(&signer)), tx: Tx::one(ix::clone_emode(g, signer, *fk, *tk), &[signer]) });
                    if reduced {
                        break;
                    }
                }
            }
        }
    }
    // group leverage caps
    let caps: Vec<(&str, i128)> = vec![("0.99", frac(99, 100)), ("1", one()), ("2", 2 * one()), ("15", 15 * one()), ("20", 20 * one()), ("100", 100 * one()), ("101", 101 * one())];
    for (n1, a) in &caps {
        for (n2, b) in &caps {
            if reduced && !(["2", "15", "100"].contains(n1) && ["2", "20", "100"].contains(n2)) {
                continue;
            }
            v.push(Adm { name: format!("group_caps({n1},{n2})"), tx: Tx::one(ix::group_configure(g, admin, &w.roles, Some(fx(*a).into()), Some(fx(*b).into())), &[admin]) });
        }
    }
    // add bank (seeded PDA, next free seed)
    let next_seed = (0..8u64).find(|i| world::try_bank(s, &ix::bank_with_seed_key(&g, &k.spare_mint, *i)).is_none());
    if let Some(seed) = next_seed {
        let base = BankCfg::default();
        let mut cfgs: Vec<(String, BankCfg)> = vec![];
        for (n1, a) in &wm_r {
            for (n2, b) in &wm_r {
                let mut c = base.clone();
                c.asset_weight_init = fx(*a);
                c.asset_weight_maint = fx(*b);
                cfgs.push((format!("aw={n1}/{n2}"), c));
            }
        }
        for (n1, a) in &lm_r {
            for (n2, b) in &lm_r {
                let mut c = base.clone();
                c.liability_weight_init = fx(*a);
                c.liability_weight_maint = fx(*b);
                cfgs.push((format!("lw={n1}/{n2}"), c));
            }
        }
        for (n, st) in [("paused", BankOperationalState::Paused), ("reduce", BankOperationalState::ReduceOnly), ("killed", BankOperationalState::KilledByBankruptcy)] {
            let mut c = base.clone();
            c.operational_state = st;
            cfgs.push((format!("state={n}"), c));
        }
        for age in [0u16, 9, 10] {
            let mut c = base.clone();
            c.oracle_max_age = age;
            cfgs.push((format!("age={age}"), c));
        }
        {
            let mut c = base.clone();
            c.risk_tier = RiskTier::Isolated;
            cfgs.push(("tier=iso".into(), c.clone()));
            c.asset_weight_init = I80F48::ZERO;
            c.asset_weight_maint = I80F48::ZERO;
            cfgs.push(("tier=iso0".into(), c));
        }
        for (n, c) in cfgs {
            let (_bk, i) = ix::add_bank_with_seed(g, admin, w.payer, w.fee_wallet, k.spare_mint, spl_token::id(), c.compact(), seed);
            v.push(Adm { name: format!("add_bank_with_seed({seed},{n})"), tx: Tx::one(i, &[admin, w.payer]) });
        }
    }
    // staked settings
    for (n1, a) in &wm_r {
        for (n2, b) in &wm_r {
            let e = marginfi::instructions::StakedSettingsEditConfig { oracle: None, asset_weight_init: Some(fx(*a).into()), asset_weight_maint: Some(fx(*b).into()), deposit_limit: None, total_asset_value_init_limit: None, oracle_max_age: None, risk_tier: None };
            v.push(Adm { name: format!("edit_staked_settings(aw={n1}/{n2})"), tx: Tx::one(ix::edit_staked_settings(g, admin, e), &[admin]) });
        }
    }
    for (n, tier) in [("iso", RiskTier::Isolated), ("coll", RiskTier::Collateral)] {
        let e = marginfi::instructions::StakedSettingsEditConfig { oracle: None, asset_weight_init: None, asset_weight_maint: None, deposit_limit: None, total_asset_value_init_limit: None, oracle_max_age: None, risk_tier: Some(tier) };
        v.push(Adm { name: format!("edit_staked_settings(tier={n})"), tx: Tx::one(ix::edit_staked_settings(g, admin, e), &[admin]) });
    }
    for age in [0u16, 9, 10] {
        let e = marginfi::instructions::StakedSettingsEditConfig { oracle: None, asset_weight_init: None, asset_weight_maint: None, deposit_limit: None, total_asset_value_init_limit: None, oracle_max_age: Some(age), risk_tier: None };
        v.push(Adm { name: format!("edit_staked_settings(age={age})"), tx: Tx::one(ix::edit_staked_settings(g, admin, e), &[admin]) });
    }
    let stk = &w.banks[k.staked];
    v.push(Adm { name: "propagate_staked_settings".into(), tx: Tx::one(ix::propagate_staked_settings(g, stk.key, vec![]), &[crate::act::stranger()]) });
    v
}

// ---------------------------------------------------------------- the invariant

fn group_banks(s: &Store, g: &Pubkey) -> Vec<(Pubkey, Bank)> {
    let mut v = vec![];
    for (k, a) in s.accts.iter() {
        if a.owner == ix::PID && a.data.len() == 8 + std::mem::size_of::<Bank>() {
            if let Some(b) = world::try_bank(s, k) {
                if b.group == *g {
                    v.push((*k, b));
                }
            }
        }
    }
    v
}

fn cap_q(v: u32) -> rf::Q {
    rf::qfrac(v as i128 * 100, u32::MAX as i128)
}

fn inv_bank(b: &Bank, caps: (u32, u32), emode_inputs_written: bool) -> Vec<(String, String)> {
    let mut out = vec![];
    let c = &b.config;
    let (ai, am, li, lm) = (rf::q(c.asset_weight_init), rf::q(c.asset_weight_maint), rf::q(c.liability_weight_init), rf::q(c.liability_weight_maint));
    let one = rf::Q::one();
    let two = &one + &one;
    let zero = rf::Q::zero();
    if ai < zero || ai > one {
        out.push(("asset_init_in_0_1".into(), format!("asset_weight_init = {}", rf::qf64(&ai))));
    }
    if ai > am {
        out.push(("asset_init_le_maint".into(), format!("asset_weight_init {} > asset_weight_maint {}", rf::qf64(&ai), rf::qf64(&am))));
    }
    if am > two {
        out.push(("asset_maint_le_2".into(), format!("asset_weight_maint = {}", rf::qf64(&am))));
    }
    if lm < one {
        out.push(("liab_maint_ge_1".into(), format!("liability_weight_maint = 1 {:+e}", rf::qf64(&(&lm - &one)))));
    }
    if lm > li {
        out.push(("liab_maint_le_init".into(), format!("liability_weight_maint {} > liability_weight_init {}", rf::qf64(&lm), rf::qf64(&li))));
    }
    if c.risk_tier == RiskTier::Isolated && (!ai.is_zero() || !am.is_zero()) {
        out.push(("isolated_zero_weights".into(), format!("isolated bank with asset weights {} / {}", rf::qf64(&ai), rf::qf64(&am))));
    }
    if c.oracle_max_age < marginfi_type_crate::constants::ORACLE_MIN_AGE {
        out.push(("oracle_max_age_min".into(), format!("oracle_max_age = {}", c.oracle_max_age)));
    }
    if !emode_inputs_written {
        return out;
    }
    // relative tolerance for the program's two truncating divisions (leverage <= 100)
    let tol = rf::qfrac(1, 1i128 << 30);
    for e in b.emode.emode_config.entries.iter() {
        if e.collateral_bank_emode_tag == 0 {
            continue;
        }
        let (ei, emt) = (rf::q(e.asset_weight_init), rf::q(e.asset_weight_maint));
        if ei < zero || ei > emt {
            out.push(("emode_init_le_maint".into(), format!("e-mode entry tag {}: init {} maint {}", e.collateral_bank_emode_tag, rf::qf64(&ei), rf::qf64(&emt))));
        }
        for (nm, ew, lw, cap) in [("init", &ei, &li, cap_q(caps.0)), ("maint", &emt, &lm, cap_q(caps.1))] {
            if ew >= lw {
                out.push((format!("emode_leverage_{nm}"), format!("e-mode entry tag {}: {nm} weight {} >= liability weight {} (unbounded leverage)", e.collateral_bank_emode_tag, rf::qf64(ew), rf::qf64(lw))));
                continue;
            }
            let lev = &one / (&one - ew / lw);
            if lev > &cap * (&one + &tol) {
                out.push((format!("emode_leverage_{nm}"), format!("e-mode entry tag {}: implied {nm} leverage {:.6} exceeds the group's cap {:.6} against this bank's liability weight {}", e.collateral_bank_emode_tag, rf::qf64(&lev), rf::qf64(&cap), rf::qf64(lw))));
            }
        }
    }
    out
}

/// the inputs of the e-mode clause that belong to the bank: its entries and its liability weights
fn emode_input_bytes(s: &Store, k: &Pubkey) -> Vec<u8> {
    use std::mem::{offset_of, size_of};
    let d = &s.get(k).unwrap().data;
    let c = 8 + offset_of!(Bank, config);
    let mut v = d[8 + offset_of!(Bank, emode)..8 + offset_of!(Bank, emode) + size_of::<marginfi_type_crate::types::EmodeSettings>()].to_vec();
    v.extend_from_slice(&d[c + offset_of!(marginfi_type_crate::types::BankConfig, liability_weight_init)..c + offset_of!(marginfi_type_crate::types::BankConfig, liability_weight_init) + 32]);
    v
}

fn cfg_bytes(s: &Store, k: &Pubkey) -> Vec<u8> {
    use std::mem::{offset_of, size_of};
    let d = &s.get(k).unwrap().data;
    let mut v = d[8 + offset_of!(Bank, config)..8 + offset_of!(Bank, config) + size_of::<marginfi_type_crate::types::BankConfig>()].to_vec();
    v.extend_from_slice(&d[8 + offset_of!(Bank, emode)..8 + offset_of!(Bank, emode) + size_of::<marginfi_type_crate::types::EmodeSettings>()]);
    v
}

// ---------------------------------------------------------------- consequence: init => maint

fn forge_portfolio(s: &mut Store, acct: &Pubkey, coll: &[(Pubkey, i128)], liab: (Pubkey, i128)) {
    world::edit_account(s, acct, |a| {
        let mut bals: Vec<Balance> = vec![];
        for (k, sh) in coll {
            let mut b = Balance::empty_deactivated();
            b.active = 1;
            b.bank_pk = *k;
            b.asset_shares = fx(*sh).into();
            bals.push(b);
        }
        let mut b = Balance::empty_deactivated();
        b.active = 1;
        b.bank_pk = liab.0;
        b.liability_shares = fx(liab.1).into();
        bals.push(b);
        bals.sort_by(|x, y| y.bank_pk.cmp(&x.bank_pk));
        for (i, slot) in a.lending_account.balances.iter_mut().enumerate() {
            *slot = if i < bals.len() { bals[i] } else { Balance::empty_deactivated() };
        }
    });
}

struct Conseq {
    evaluated: u64,
    skipped: u64,
    viol: Vec<(String, String)>,
}

fn consequence(k: &K, s: &Store) -> Conseq {
    let w = &k.w;
    let acct = w.users[0].account;
    let mut out = Conseq { evaluated: 0, skipped: 0, viol: vec![] };
    let banks = group_banks(s, &w.group);
    let known: Vec<&BankH> = w.banks.iter().collect();
    for lb in known.iter().filter(|b| b.label != "KS") {
        let lbank = banks.iter().find(|(k, _)| *k == lb.key).map(|(_, b)| *b).unwrap();
        if lbank.config.risk_tier == RiskTier::Isolated && false {
            continue;
        }
        let mut sets: Vec<Vec<&BankH>> = vec![];
        for cb in known.iter().filter(|b| b.key != lb.key) {
            sets.push(vec![*cb]);
        }
        sets.push(known.iter().filter(|b| b.key != lb.key).cloned().collect());
        for set in sets {
            // 1000 whole tokens of each collateral, a dust liability to read the init asset value
            let coll: Vec<(Pubkey, i128)> = set.iter().map(|b| (b.key, (1000i128 * 10i128.pow(b.decimals as u32)) << 48)).collect();
            let mut t = s.clone();
            forge_portfolio(&mut t, &acct, &coll, (lb.key, 1i128 << 48));
            let pulse = |t: &mut Store| -> Option<marginfi_type_crate::types::HealthCache> {
                let rem = w.risk_metas(t, &acct, None, None);
                let r = process_tx(t, &Tx::one(ix::pulse_health(acct, rem), &[crate::act::stranger()]));
                if !r.ok() {
                    return None;
                }
                let hc = world::account(t, &acct).health_cache;
                if hc.flags & 2 == 0 {
                    // engine did not complete
                    return None;
                }
                Some(hc)
            };
            let Some(hc0) = pulse(&mut t) else {
                out.skipped += 1;
                continue;
            };
            let a_init = rf::q(hc0.asset_value);
            if a_init <= rf::Q::zero() {
                out.skipped += 1;
                continue;
            }
            // largest liability (native units) that keeps init health >= 0, by the program's own numbers
            let per_unit = rf::q(hc0.liability_value); // init liability value of one native unit
            if per_unit <= rf::Q::zero() {
                out.skipped += 1;
                continue;
            }
            let mut y: i128 = {
                use num_traits::ToPrimitive;
                rf::qfloor(&(&a_init / &per_unit)).to_i128().unwrap_or(0)
            };
            let mut found = None;
            for _ in 0..6 {
                if y <= 0 {
                    break;
                }
                let mut u = s.clone();
                forge_portfolio(&mut u, &acct, &coll, (lb.key, y << 48));
                if let Some(hc) = pulse(&mut u) {
                    if rf::q(hc.asset_value) >= rf::q(hc.liability_value) {
                        found = Some(hc);
                        break;
                    }
                }
                y -= (y / 1_000_000_000).max(1);
            }
            let Some(hc) = found else {
                out.skipped += 1;
                continue;
            };
            out.evaluated += 1;
            let (am, lm) = (rf::q(hc.asset_value_maint), rf::q(hc.liability_value_maint));
            if am < lm {
                let names: Vec<&str> = set.iter().map(|b| b.label.as_str()).collect();
                out.viol.push((format!("{}->{}", names.join("+"), lb.label), format!("portfolio collateral {:?} x 1000 tokens, debt {} native units of {}: the program's init check passes (assets {:.9} >= liabilities {:.9}) but its maintenance values are assets {:.9} < liabilities {:.9}", names, y, lb.label, rf::qf64(&rf::q(hc.asset_value)), rf::qf64(&rf::q(hc.liability_value)), rf::qf64(&am), rf::qf64(&lm))));
            }
        }
    }
    out
}

// ---------------------------------------------------------------- search

#[derive(Clone)]
struct Node {
    s: Store,
    path: Vec<String>,
}

struct StepOut {
    next: Option<Node>,
    accepted: bool,
    class: String,
    found: Vec<Found>,
    conseq_eval: u64,
    conseq_skip: u64,
}

fn step(k: &K, n: &Node, a: &Adm, do_conseq: bool) -> StepOut {
    let mut t = n.s.clone();
    let r = process_tx(&mut t, &a.tx);
    let kind = a.name.split('(').next().unwrap().to_string();
    let mut path = n.path.clone();
    path.push(a.name.clone());
    if !r.ok() {
        return StepOut { next: None, accepted: false, class: format!("{kind}:refused"), found: vec![], conseq_eval: 0, conseq_skip: 0 };
    }
    let rep = json!({"model": "C13", "path": path});
    let mut found = vec![];
    let g = world::group(&t, &k.w.group);
    let caps = (g.emode_max_init_leverage, g.emode_max_maint_leverage);
    let pre: BTreeMap<Pubkey, Bank> = group_banks(&n.s, &k.w.group).into_iter().collect();
    let mut touched = 0;
    for (bk, b) in group_banks(&t, &k.w.group) {
        let was = pre.get(&bk);
        let changed = match was {
            None => true,
            Some(_) => cfg_bytes(&n.s, &bk) != cfg_bytes(&t, &bk),
        };
        // the killed state is neither entered nor left by an admin instruction
        let killed_now = b.config.operational_state == BankOperationalState::KilledByBankruptcy;
        let killed_before = was.map(|x| x.config.operational_state == BankOperationalState::KilledByBankruptcy).unwrap_or(false);
        if killed_now != killed_before {
            found.push(Found { clause: "C13.killed_state_not_admin_reachable".into(), sig: format!("{kind}:{}", if killed_now { "entered" } else { "left" }), detail: format!("{} {} the killed-by-bankruptcy state on bank {}", a.name, if killed_now { "put a bank into" } else { "took a bank out of" }, world::label_of(&bk)), replay: rep.clone() });
        }
        if !changed {
            continue;
        }
        touched += 1;
        let emode_written = was.is_none() || emode_input_bytes(&n.s, &bk) != emode_input_bytes(&t, &bk);
        for (cl, d) in inv_bank(&b, caps, emode_written) {
            found.push(Found { clause: format!("C13.{cl}"), sig: kind.clone(), detail: format!("{} accepted; bank {}: {}", a.name, world::label_of(&bk), d), replay: rep.clone() });
        }
    }
    let (mut ce, mut cs) = (0, 0);
    if do_conseq && touched > 0 {
        let c = consequence(k, &t);
        ce = c.evaluated;
        cs = c.skipped;
        for (sig, d) in c.viol {
            found.push(Found { clause: "C13.init_implies_maint".into(), sig: format!("{kind}:{sig}"), detail: format!("after {:?}: {}", path, d), replay: rep.clone() });
        }
    }
    StepOut { next: Some(Node { s: t, path }), accepted: true, class: format!("{kind}:accepted:{}", if touched > 0 { "config_changed" } else { "no_config_change" }), found, conseq_eval: ce, conseq_skip: cs }
}

fn roots(k: &K, s0: &Store) -> Vec<Node> {
    let w = &k.w;
    let mut v = vec![Node { s: s0.clone(), path: vec!["root:K0".into()] }];
    // K1: KA carries an e-mode entry that is valid against its own liability weights (1.25 / 1.2), KB has 1.0 / 1.0
    {
        let mut s = s0.clone();
        let must = |s: &mut Store, tx: Tx| assert!(process_tx(s, &tx).ok());
        must(&mut s, Tx::one(ix::configure_bank(w.group, w.roles.admin, w.banks[0].key, BankConfigOpt { liability_weight_init: Some(fx(frac(5, 4)).into()), liability_weight_maint: Some(fx(frac(12, 10)).into()), ..opt_none() }), &[w.roles.admin]));
        must(&mut s, Tx::one(ix::configure_bank(w.group, w.roles.admin, w.banks[1].key, BankConfigOpt { liability_weight_init: Some(fx(one()).into()), liability_weight_maint: Some(fx(one()).into()), ..opt_none() }), &[w.roles.admin]));
        must(&mut s, Tx::one(ix::configure_bank_emode(w.group, w.roles.emode, w.banks[0].key, 5, entries_of(&[(6, frac(104, 100), frac(11, 10))])), &[w.roles.emode]));
        v.push(Node { s, path: vec!["root:K1".into()] });
    }
    // K2: KB was killed by bankruptcy (forged, as handle_bankruptcy does when debt wipes out deposits)
    {
        let mut s = s0.clone();
        world::edit_bank(&mut s, &w.banks[1].key, |b| b.config.operational_state = BankOperationalState::KilledByBankruptcy);
        v.push(Node { s: s.clone(), path: vec!["root:K2".into()] });
        // K4: ... and both banks' settings were frozen before that (the frozen configure path is a second
        // implementation of the same rules)
        for b in 0..2 {
            world::edit_bank(&mut s, &w.banks[b].key, |bk| bk.flags |= marginfi_type_crate::constants::FREEZE_SETTINGS);
        }
        v.push(Node { s, path: vec!["root:K4".into()] });
    }
    // K3: both banks' settings are frozen by the admin
    {
        let mut s = s0.clone();
        let mut ok = true;
        for b in 0..2 {
            ok &= process_tx(&mut s, &Tx::one(ix::configure_bank(w.group, w.roles.admin, w.banks[b].key, BankConfigOpt { freeze_settings: Some(true), ..opt_none() }), &[w.roles.admin])).ok();
        }
        if ok {
            v.push(Node { s, path: vec!["root:K3".into()] });
        }
    }
    v
}

pub fn run(tier: Tier) -> Outcome {
    let (k, s0) = build();
    let depth = if tier == Tier::Quick { 2 } else { 3 };
    let mut classes: BTreeMap<String, u64> = BTreeMap::new();
    let mut found: Vec<Found> = vec![];
    let mut seen: BTreeSet<[u8; 32]> = BTreeSet::new();
    let mut frontier = roots(&k, &s0);
    for n in &frontier {
        seen.insert(crate::canon::state_key(&n.s, &[]));
    }
    let (mut transitions, mut ce, mut cs) = (0u64, 0u64, 0u64);
    let mut per_depth = vec![];
    let mut capped = false;
    for d in 0..depth {
        // full alphabet at the first level; deeper levels use the reduced menus in the quick tier
        let reduced = d > 1;
        let results: Vec<(StepOut, [u8; 32])> = frontier
            .par_iter()
            .flat_map_iter(|n| {
                let acts = alphabet(&k, &n.s, reduced);
                acts.into_iter().map(|a| {
                    let o = step(&k, n, &a, d == 0 || tier == Tier::Thorough && d == 1);
                    let key = o.next.as_ref().map(|x| crate::canon::state_key(&x.s, &[])).unwrap_or([0; 32]);
                    (o, key)
                }).collect::<Vec<_>>()
            })
            .collect();
        let mut next = vec![];
        for (o, key) in results {
            transitions += 1;
            *classes.entry(o.class.clone()).or_insert(0) += 1;
            ce += o.conseq_eval;
            cs += o.conseq_skip;
            let bad = !o.found.is_empty();
            found.extend(o.found);
            if let Some(n) = o.next {
                // do not explore below a violating state (its descendants inherit the bad configuration)
                if o.accepted && !bad && seen.insert(key) {
                    next.push(n);
                }
            }
        }
        per_depth.push(json!({"depth": d + 1, "frontier_in": frontier.len(), "new_states": next.len()}));
        let cap = if tier == Tier::Quick { usize::MAX } else { 8000 };
        if next.len() > cap && d + 1 < depth {
            capped = true;
            // keep a deterministic, kind-diverse subset: first of each (kind) then fill
            let mut by_kind: BTreeMap<String, Vec<Node>> = BTreeMap::new();
            for n in next {
                let kind = n.path.last().unwrap().split(|c| c == ',' || c == ')').next().unwrap().to_string();
                by_kind.entry(kind).or_default().push(n);
            }
            let mut sel = vec![];
            let mut i = 0;
            while sel.len() < cap {
                let mut any = false;
                for v in by_kind.values() {
                    if i < v.len() && sel.len() < cap {
                        sel.push(v[i].clone());
                        any = true;
                    }
                }
                if !any {
                    break;
                }
                i += 1;
            }
            next = sel;
        }
        frontier = next;
    }
    let mut o = Outcome { level: "model_checking".into(), ..Default::default() };
    // dedupe findings by (clause, sig)
    let mut uniq: BTreeMap<(String, String), Found> = BTreeMap::new();
    for f in found {
        uniq.entry((f.clause.clone(), f.sig.clone())).or_insert(f);
    }
    o.found = uniq.into_values().collect();
    for kind in ["configure_bank", "configure_emode", "clone_emode", "group_caps", "add_bank_with_seed", "edit_staked_settings", "propagate_staked_settings"] {
        let acc: u64 = classes.iter().filter(|(c, _)| c.starts_with(&format!("{kind}:accepted"))).map(|(_, v)| *v).sum();
        let rej: u64 = classes.iter().filter(|(c, _)| c.starts_with(&format!("{kind}:refused"))).map(|(_, v)| *v).sum();
        if acc == 0 || rej == 0 {
            o.machinery.push(format!("vacuity guard: {kind} accepted {acc} refused {rej}"));
        }
    }
    if ce == 0 {
        o.machinery.push("vacuity guard: no boundary portfolio evaluated".into());
    }
    o.coverage = json!({
        "states": seen.len(),
        "transitions": transitions,
        "traces_validated_against_impl": transitions,
        "evaluations": transitions,
        "distinct_nontrivial": seen.len(),
        "samples": frontier.iter().take(3).map(|n| json!({"accepted_history": n.path})).collect::<Vec<_>>(),
        "depth": depth,
        "exhaustive": !capped,
        "frontier_capped": capped,
        "per_depth": per_depth,
        "boundary_portfolios_evaluated": ce,
        "boundary_portfolios_skipped": cs,
        "outcome_classes": classes,
        "alphabet": "configure_bank {asset weight pairs, liability weight pairs, tier, oracle_max_age, operational state incl. killed} / configure_bank_emode {entry weight pairs, duplicate tags, two entries, clear} / clone_emode (all ordered pairs, both signers) / group leverage caps / add_bank_with_seed {weights, states incl. killed, age, tier} / edit_staked_settings + propagate / limits-only; weights from {-ULP, 0, ULP, 0.5, 1-ULP, 1, 1+ULP, 1.5, 2, 2+ULP} (+ e-mode values around the caps)",
        "roots": ["K0 fresh group (3 banks, one forged staked)", "K1 bank KA with a valid e-mode entry against lw 1.25/1.2 while KB has lw 1/1", "K2 bank KB killed by bankruptcy"],
    });
    o.assumptions = vec!["environment model E1 (svm-lite)".into(), "the staked bank and the killed root are forged states".into(), "a later change of the group's caps does not re-trigger validation of existing banks (not an acceptance of a bank configuration)".into(), "consequence evaluated at spot = EMA and zero confidence, with the program's own pulse_health values".into()];
    o
}

pub fn replay(v: &serde_json::Value) -> Vec<crate::mc::Violation> {
    let (k, s0) = build();
    let path: Vec<String> = v["path"].as_array().map(|a| a.iter().filter_map(|x| x.as_str().map(|s| s.to_string())).collect()).unwrap_or_default();
    let mut out = vec![];
    if path.is_empty() {
        return out;
    }
    let Some(mut node) = roots(&k, &s0).into_iter().find(|n| n.path[0] == path[0]) else { return out };
    for name in &path[1..] {
        let acts = alphabet(&k, &node.s, false);
        let Some(a) = acts.into_iter().find(|a| &a.name == name) else { break };
        let o = step(&k, &node, &a, true);
        for f in o.found {
            out.push(crate::mc::Violation { clause: f.clause, detail: f.detail });
        }
        match o.next {
            Some(n) => node = n,
            None => break,
        }
    }
    out
}
