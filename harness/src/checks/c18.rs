//! C18 — every accepted interest curve is usable, bounded and non-decreasing.
//! Bounded-exhaustive enumeration of configurations (complete products over small menus, pruned
//! shape-directed enumeration over larger ones) against the real validator and rate calculator.

use super::Tier;
use crate::evidence::{Found, Outcome};
use fixed::types::I80F48;
use marginfi::state::interest_rate::InterestRateConfigImpl;
use marginfi_type_crate::types::{InterestRateConfig, MarginfiGroup, RatePoint, INTEREST_CURVE_LEGACY, INTEREST_CURVE_SEVEN_POINT};
use rayon::prelude::*;
use serde_json::json;
use std::collections::BTreeMap;
use std::sync::Mutex;

const M: u32 = u32::MAX;

/// independent integer re-implementation of the u32 -> I80F48 conversions (raw 2^-48 units)
fn util_raw(u: u32) -> i128 {
    ((u as i128) << 48) / (M as i128)
}
fn rate_raw(r: u32) -> i128 {
    // (r / M) truncated to 2^-48, then times 10 (exact)
    (((r as i128) << 48) / (M as i128)) * 10
}
fn raw_of(x: I80F48) -> i128 {
    x.to_bits()
}
fn from_raw(r: i128) -> I80F48 {
    I80F48::from_bits(r)
}

#[derive(Clone, Debug)]
struct Cfg {
    zero: u32,
    hundred: u32,
    points: [RatePoint; 5],
}

fn mk_config(c: &Cfg, fees: &(f64, f64)) -> InterestRateConfig {
    let mut ir = InterestRateConfig::default();
    ir.zero_util_rate = c.zero;
    ir.hundred_util_rate = c.hundred;
    ir.points = c.points;
    ir.curve_type = INTEREST_CURVE_SEVEN_POINT;
    ir.insurance_fee_fixed_apr = I80F48::from_num(fees.0).into();
    ir.insurance_ir_fee = I80F48::from_num(fees.1).into();
    ir.protocol_fixed_fee_apr = I80F48::from_num(fees.0).into();
    ir.protocol_ir_fee = I80F48::from_num(fees.1).into();
    ir
}

fn group(program_fees: bool) -> MarginfiGroup {
    let mut g = MarginfiGroup::default();
    g.group_flags = if program_fees { 1 } else { 0 };
    g.fee_state_cache.program_fee_fixed = I80F48::from_num(0.01).into();
    g.fee_state_cache.program_fee_rate = I80F48::from_num(0.03).into();
    g
}

#[derive(Default)]
struct Stats {
    configs: u64,
    accepted: u64,
    evaluations: u64,
    classes: BTreeMap<String, u64>,
    found: Vec<Found>,
    samples: Vec<serde_json::Value>,
}

fn ur_list(c: &Cfg) -> Vec<i128> {
    let one: i128 = 1 << 48;
    let mut bps: Vec<i128> = vec![0, one];
    for p in c.points.iter().filter(|p| p.util != 0) {
        bps.push(util_raw(p.util));
    }
    bps.sort();
    bps.dedup();
    let mut v: Vec<i128> = vec![];
    for (i, b) in bps.iter().enumerate() {
        for d in [-2i128, -1, 0, 1, 2] {
            v.push(b + d);
        }
        if i + 1 < bps.len() {
            let n = bps[i + 1];
            v.push(b + (n - b) / 2);
            v.push(b + (n - b) / 3);
        }
    }
    v.push(one + one / 2);
    v.push(one << 20);
    v.retain(|x| *x >= 0);
    v.sort();
    v.dedup();
    v
}

fn check_cfg(c: &Cfg, st: &Mutex<Stats>) {
    check_cfg_as(c, st, None)
}

/// `stored_by`: the curve was read back from a bank after the named instruction accepted it
fn check_cfg_as(c: &Cfg, st: &Mutex<Stats>, stored_by: Option<&str>) {
    let fee_menu: [(f64, f64); 3] = [(0.0, 0.0), (0.01, 0.1), (2.0, 3.0)];
    let shape = match stored_by {
        Some(path) => format!("stored_by:{path}"),
        None => format!("{}pts", c.points.iter().filter(|p| p.util != 0).count()),
    };
    let ir0 = mk_config(c, &fee_menu[0]);
    let verdict = std::panic::catch_unwind(|| ir0.validate());
    let accepted = stored_by.is_some() || matches!(verdict, Ok(Ok(())));
    let mut local_found: Vec<Found> = vec![];
    let mut evals = 0u64;
    let mut classes: Vec<String> = vec![];
    if !accepted {
        classes.push(format!("rejected:{}", shape));
    } else {
        classes.push(format!("accepted:{}", shape));
        let zero = rate_raw(c.zero);
        let hundred = rate_raw(c.hundred);
        let urs = ur_list(c);
        for (fi, fees) in fee_menu.iter().enumerate() {
            for pf in [false, true] {
                let ir = mk_config(c, fees);
                let calc = ir.create_interest_rate_calculator(&group(pf));
                let mut prev: Option<(i128, i128)> = None;
                for &ur in &urs {
                    evals += 1;
                    let r = std::panic::catch_unwind(std::panic::AssertUnwindSafe(|| calc.calc_interest_rate(from_raw(ur))));
                    let fail = |clause: &str, detail: String, lf: &mut Vec<Found>| {
                        lf.push(Found {
                            clause: clause.into(),
                            sig: shape.clone(),
                            detail,
                            replay: json!({"model": "C18", "zero": c.zero, "hundred": c.hundred, "points": c.points.iter().map(|p| [p.util, p.rate]).collect::<Vec<_>>(), "ur_raw": ur.to_string(), "fees": fi, "program_fees": pf}),
                        })
                    };
                    let rates = match r {
                        Ok(Some(x)) => x,
                        Ok(None) => {
                            fail("C18.defined", format!("accepted curve {:?} has no rate at utilization {}", c, from_raw(ur)), &mut local_found);
                            continue;
                        }
                        Err(_) => {
                            fail("C18.defined", format!("accepted curve {:?} panics at utilization {}", c, from_raw(ur)), &mut local_found);
                            continue;
                        }
                    };
                    let base = raw_of(rates.base_rate_apr);
                    if base < zero || base > hundred {
                        fail("C18.bounded", format!("base rate {} outside [{}, {}] at ur {}", rates.base_rate_apr, from_raw(zero), from_raw(hundred), from_raw(ur)), &mut local_found);
                    }
                    if let Some((pu, pb)) = prev {
                        if base < pb {
                            fail("C18.monotone", format!("base rate falls from {} (ur {}) to {} (ur {})", from_raw(pb), from_raw(pu), rates.base_rate_apr, from_raw(ur)), &mut local_found);
                        }
                    }
                    prev = Some((ur, base));
                    for p in c.points.iter().filter(|p| p.util != 0) {
                        if util_raw(p.util) == ur && base != rate_raw(p.rate) {
                            fail("C18.exact_at_point", format!("at configured utilization {} the base rate is {} but the point says {}", from_raw(ur), rates.base_rate_apr, from_raw(rate_raw(p.rate))), &mut local_found);
                        }
                    }
                    if ur == 0 && base != zero {
                        fail("C18.exact_at_point", format!("at zero utilization the base rate is {} not {}", rates.base_rate_apr, from_raw(zero)), &mut local_found);
                    }
                    if raw_of(rates.borrowing_rate_apr) < base {
                        fail("C18.borrow_ge_base", format!("borrow rate {} below base {} at ur {}", rates.borrowing_rate_apr, rates.base_rate_apr, from_raw(ur)), &mut local_found);
                    }
                    if ur <= (1 << 48) && raw_of(rates.lending_rate_apr) > base {
                        fail("C18.lending_le_base", format!("lending rate {} above base {} at ur {}", rates.lending_rate_apr, rates.base_rate_apr, from_raw(ur)), &mut local_found);
                    }
                    if !pf && raw_of(rates.protocol_fee_apr) != 0 {
                        fail("C18.program_fee_off", format!("program fee apr {} although program fees are disabled", rates.protocol_fee_apr), &mut local_found);
                    }
                }
            }
        }
    }
    let mut g = st.lock().unwrap();
    g.configs += 1;
    g.accepted += accepted as u64;
    g.evaluations += evals.max(1);
    for cl in classes {
        *g.classes.entry(cl).or_insert(0) += 1;
    }
    if g.samples.len() < 6 && (g.configs % 9973 == 1) {
        g.samples.push(json!({"zero": c.zero, "hundred": c.hundred, "points": c.points.iter().map(|p| [p.util, p.rate]).collect::<Vec<_>>(), "accepted": accepted}));
    }
    if g.found.len() < 64 {
        g.found.extend(local_found);
    }
}

fn product_configs(us: &[u32], rs: &[u32]) -> Vec<Cfg> {
    // complete product: every 5-tuple of (util, rate) incl. arbitrary padding placement
    let opts: Vec<RatePoint> = us.iter().flat_map(|u| rs.iter().map(move |r| RatePoint::new(*u, *r))).collect();
    let n = opts.len();
    let mut v = Vec::with_capacity(n.pow(5) * rs.len() * rs.len());
    let mut idx = [0usize; 5];
    loop {
        let points = [opts[idx[0]], opts[idx[1]], opts[idx[2]], opts[idx[3]], opts[idx[4]]];
        for &z in rs {
            for &h in rs {
                v.push(Cfg { zero: z, hundred: h, points });
            }
        }
        let mut k = 0;
        loop {
            idx[k] += 1;
            if idx[k] < n {
                break;
            }
            idx[k] = 0;
            k += 1;
            if k == 5 {
                return v;
            }
        }
    }
}

fn shaped_configs(us: &[u32], rs: &[u32]) -> Vec<Cfg> {
    // all strictly increasing util choices x all rate sequences (not only monotone: the validator
    // must refuse the others) x zero/hundred, trailing padding only
    let mut v = vec![];
    let us: Vec<u32> = us.iter().cloned().filter(|u| *u != 0).collect();
    fn rec(us: &[u32], rs: &[u32], start: usize, cur: &mut Vec<RatePoint>, out: &mut Vec<Vec<RatePoint>>) {
        out.push(cur.clone());
        if cur.len() == 5 {
            return;
        }
        for i in start..us.len() {
            for r in rs {
                cur.push(RatePoint::new(us[i], *r));
                rec(us, rs, i + 1, cur, out);
                cur.pop();
            }
        }
    }
    let mut seqs = vec![];
    rec(&us, rs, 0, &mut vec![], &mut seqs);
    for s in seqs {
        let mut points = [RatePoint::default(); 5];
        for (i, p) in s.iter().enumerate() {
            points[i] = *p;
        }
        for &z in rs {
            for &h in rs {
                v.push(Cfg { zero: z, hundred: h, points });
            }
        }
    }
    v
}

fn legacy_sweep(st: &Mutex<Stats>) {
    let menu: [f64; 7] = [-0.1, 0.0, 0.000001, 0.5, 0.999999, 1.0, 4.0];
    for &opt in &menu {
        for &plat in &menu {
            for &max in &menu {
                let mut ir = InterestRateConfig::default();
                ir.curve_type = INTEREST_CURVE_LEGACY;
                ir.optimal_utilization_rate = I80F48::from_num(opt).into();
                ir.plateau_interest_rate = I80F48::from_num(plat).into();
                ir.max_interest_rate = I80F48::from_num(max).into();
                let ok = matches!(std::panic::catch_unwind(|| ir.validate()), Ok(Ok(())));
                let mut g = st.lock().unwrap();
                g.configs += 1;
                *g.classes.entry(format!("legacy:{}", if ok { "accepted" } else { "rejected" })).or_insert(0) += 1;
                if !ok {
                    g.evaluations += 1;
                    continue;
                }
                g.accepted += 1;
                drop(g);
                let calc = ir.create_interest_rate_calculator(&group(true));
                let one: i128 = 1 << 48;
                let o = raw_of(I80F48::from_num(opt));
                let mut urs = vec![0, 1, o - 1, o, o + 1, o / 2, o + (one - o) / 2, one - 1, one, one + 1, one + one / 2, one << 20];
                urs.retain(|x| *x >= 0);
                urs.sort();
                urs.dedup();
                let mut prev: Option<i128> = None;
                let mut lf = vec![];
                for ur in urs {
                    let r = std::panic::catch_unwind(std::panic::AssertUnwindSafe(|| calc.calc_interest_rate(from_raw(ur))));
                    let mut fail = |clause: &str, detail: String| {
                        lf.push(Found { clause: clause.into(), sig: "legacy".into(), detail, replay: json!({"model": "C18", "legacy": [opt, plat, max], "ur_raw": ur.to_string()}) })
                    };
                    match r {
                        Ok(Some(x)) => {
                            let base = raw_of(x.base_rate_apr);
                            if base < 0 || base > raw_of(I80F48::from_num(max)) {
                                fail("C18.bounded", format!("legacy curve ({opt},{plat},{max}): base {} outside [0,max] at ur {}", x.base_rate_apr, from_raw(ur)));
                            }
                            if let Some(p) = prev {
                                if base < p {
                                    fail("C18.monotone", format!("legacy curve ({opt},{plat},{max}) decreases at ur {}", from_raw(ur)));
                                }
                            }
                            if ur == o && base != raw_of(I80F48::from_num(plat)) {
                                fail("C18.exact_at_point", format!("legacy curve ({opt},{plat},{max}): base at optimal is {}", x.base_rate_apr));
                            }
                            prev = Some(base);
                        }
                        _ => fail("C18.defined", format!("legacy curve ({opt},{plat},{max}) undefined at ur {}", from_raw(ur))),
                    }
                }
                let mut g = st.lock().unwrap();
                g.evaluations += 12;
                g.found.extend(lf);
            }
        }
    }
}

/// (3) every instruction that can write a curve, with valid and invalid curves: whatever it stores
/// must be a curve with all the properties above, and accrual must run on it at every utilisation
fn write_paths(st: &Mutex<Stats>) {
    use crate::act::{self, Action};
    use crate::ix;
    use crate::svm::{process_tx, Tx};
    use crate::world::{self, *};
    use marginfi_type_crate::types::{BankConfigOpt, InterestRateConfigOpt};
    let spec = |label: &str, mint: &str| BankSpec { label: label.into(), mint: MintSpec::spl(mint, 6), oracle: OracleSpec::pyth_usd(100_000_000), config: BankCfg::default() };
    let (w, mut s0) = build_world(&WorldSpec::new("C18w", vec![spec("W0", "c18w0"), spec("W1", "c18w1")], &["u0", "u1", "seeder"]));
    for a in [Action::Deposit { u: 2, b: 0, amt: 1_000_000_000, up_to_limit: None }, Action::Deposit { u: 2, b: 1, amt: 1_000_000_000, up_to_limit: None }, Action::Deposit { u: 0, b: 1, amt: 900_000_000, up_to_limit: None }, Action::Borrow { u: 0, b: 0, amt: 100_000_000 }] {
        assert!(act::apply(&w, &mut s0, &a).committed, "{:?}", a);
    }
    let spare_mint = create_mint(&mut s0, &w.payer, &w.mint_auth, &MintSpec::spl("c18spare", 6));
    let p = |u: f64, r: f64| RatePoint::new(util_u32(u), rate_u32(r));
    let z = RatePoint::default();
    // (zero rate, hundred rate, points)
    let curves: Vec<(&str, f64, f64, [RatePoint; 5])> = vec![
        ("default_like", 0.01, 3.0, [p(0.5, 0.1), p(0.9, 0.5), z, z, z]),
        ("plateau", 0.01, 1.5, [p(0.45, 0.06), p(0.8, 0.06), p(0.9, 0.2), z, z]),
        ("flat_everywhere", 0.2, 0.2, [p(0.5, 0.2), z, z, z, z]),
        ("five_points", 0.0, 9.0, [p(0.1, 0.1), p(0.2, 0.2), p(0.5, 0.5), p(0.8, 2.0), p(0.95, 5.0)]),
        ("decreasing_segment", 0.01, 1.5, [p(0.4, 0.2), p(0.6, 0.05), p(0.8, 0.5), z, z]),
        ("point_above_hundred", 0.01, 0.4, [p(0.5, 0.1), p(0.85, 0.6), z, z, z]),
        ("point_below_zero_rate", 0.3, 1.0, [p(0.5, 0.1), z, z, z, z]),
        ("utilisation_not_increasing", 0.0, 1.0, [p(0.6, 0.1), p(0.4, 0.2), z, z, z]),
        ("duplicate_utilisation", 0.0, 1.0, [p(0.5, 0.1), p(0.5, 0.2), z, z, z]),
        ("gap_in_points", 0.0, 1.0, [p(0.3, 0.1), z, p(0.6, 0.2), z, z]),
        ("hundred_below_zero_rate", 0.5, 0.1, [z, z, z, z, z]),
    ];
    let g = w.group;
    for (cname, zero, hundred, points) in &curves {
        let opt = InterestRateConfigOpt { zero_util_rate: Some(rate_u32(*zero)), hundred_util_rate: Some(rate_u32(*hundred)), points: Some(*points), ..Default::default() };
        // partial requests too: the points alone, the end rates alone (against the stored rest)
        let only_points = InterestRateConfigOpt { points: Some(*points), ..Default::default() };
        let only_ends = InterestRateConfigOpt { zero_util_rate: Some(rate_u32(*zero)), hundred_util_rate: Some(rate_u32(*hundred)), ..Default::default() };
        let mut new_cfg = BankCfg::default();
        new_cfg.ir.zero_util_rate = rate_u32(*zero);
        new_cfg.ir.hundred_util_rate = rate_u32(*hundred);
        new_cfg.ir.points = *points;
        let (new_bank, add_ix) = ix::add_bank_with_seed(g, w.roles.admin, w.payer, w.fee_wallet, spare_mint, spl_token::id(), new_cfg.compact(), 5);
        let paths: Vec<(&str, Tx, solana_program::pubkey::Pubkey)> = vec![
            ("configure_bank_interest_only", Tx::one(ix::configure_bank_interest_only(g, w.roles.curve, w.banks[0].key, opt.clone()), &[w.roles.curve]), w.banks[0].key),
            ("configure_bank_interest_only(points)", Tx::one(ix::configure_bank_interest_only(g, w.roles.curve, w.banks[0].key, only_points.clone()), &[w.roles.curve]), w.banks[0].key),
            ("configure_bank_interest_only(end rates)", Tx::one(ix::configure_bank_interest_only(g, w.roles.curve, w.banks[0].key, only_ends.clone()), &[w.roles.curve]), w.banks[0].key),
            ("configure_bank", Tx::one(ix::configure_bank(g, w.roles.admin, w.banks[0].key, BankConfigOpt { interest_rate_config: Some(opt.clone()), ..Default::default() }), &[w.roles.admin]), w.banks[0].key),
            ("configure_bank(points)", Tx::one(ix::configure_bank(g, w.roles.admin, w.banks[0].key, BankConfigOpt { interest_rate_config: Some(only_points.clone()), ..Default::default() }), &[w.roles.admin]), w.banks[0].key),
            ("add_bank_with_seed", Tx::one(add_ix, &[w.roles.admin, w.payer]), new_bank),
        ];
        for (pname, tx, bank_key) in paths {
            let mut s = s0.clone();
            let r = process_tx(&mut s, &tx);
            {
                let mut gst = st.lock().unwrap();
                gst.configs += 1;
                gst.evaluations += 1;
                *gst.classes.entry(format!("write_path:{}:{}", pname.split('(').next().unwrap(), if r.ok() { "accepted" } else { "refused" })).or_insert(0) += 1;
            }
            if !r.ok() {
                continue;
            }
            let stored = world::bank(&s, &bank_key).config.interest_rate_config;
            let c = Cfg { zero: stored.zero_util_rate, hundred: stored.hundred_util_rate, points: stored.points };
            check_cfg_as(&c, st, Some(&format!("{pname}:{cname}")));
            // accrual on the stored curve at utilisations on every segment
            if bank_key == w.banks[0].key {
                for util_pct in [0u64, 10, 30, 50, 70, 85, 95, 100] {
                    let mut t = s.clone();
                    world::edit_bank(&mut t, &bank_key, |b| {
                        let assets = I80F48::from(b.total_asset_shares) * I80F48::from(b.asset_share_value);
                        let want = assets * I80F48::from_num(util_pct) / I80F48::from_num(100);
                        b.total_liability_shares = (want / I80F48::from(b.liability_share_value)).into();
                    });
                    t.advance(86_400);
                    let ra = act::apply(&w, &mut t, &Action::Accrue { b: 0 });
                    let mut gst = st.lock().unwrap();
                    gst.evaluations += 1;
                    if !ra.committed {
                        gst.found.push(Found { clause: "C18.accrual_never_fails".into(), sig: format!("stored_by:{pname}"), detail: format!("after {pname} accepted curve `{cname}`, interest accrual at {util_pct} % utilisation fails with {}", crate::svm::err_name(ra.code)), replay: json!({"model": "C18w", "path": pname, "curve": cname, "util_pct": util_pct}) });
                    }
                }
            }
        }
    }
}

/// (4) the migration instruction: every legacy curve of a menu (valid by the legacy rules, incl. values at the
/// resolution of the new representation and beyond its range) is forged into a bank and converted by the real
/// `migrate_curve`; whatever the instruction stores is an accepted configuration like any other — it must be a
/// seven-point curve with all the properties above, and accrual must run on it at every utilisation.
fn migration_sweep(st: &Mutex<Stats>) {
    use crate::act::{self, Action};
    use crate::ix;
    use crate::svm::{process_tx, Tx};
    use crate::world::{self, *};
    let spec = |label: &str, mint: &str| BankSpec { label: label.into(), mint: MintSpec::spl(mint, 6), oracle: OracleSpec::pyth_usd(100_000_000), config: BankCfg::default() };
    let (w, mut s0) = build_world(&WorldSpec::new("C18m", vec![spec("M0", "c18m0"), spec("M1", "c18m1")], &["u0", "u1", "seeder"]));
    for a in [Action::Deposit { u: 2, b: 0, amt: 1_000_000_000, up_to_limit: None }, Action::Deposit { u: 2, b: 1, amt: 1_000_000_000, up_to_limit: None }, Action::Deposit { u: 0, b: 1, amt: 900_000_000, up_to_limit: None }, Action::Borrow { u: 0, b: 0, amt: 100_000_000 }] {
        assert!(act::apply(&w, &mut s0, &a).committed, "{:?}", a);
    }
    let ulp = I80F48::from_bits(1);
    let one = I80F48::ONE;
    let opts: Vec<I80F48> = vec![ulp, I80F48::from_num(1e-10), I80F48::from_num(3e-10), I80F48::from_num(0.000001), I80F48::from_num(0.5), I80F48::from_num(0.8), I80F48::from_num(0.999999), one - I80F48::from_num(1e-10), one - ulp];
    let plats: Vec<I80F48> = vec![ulp, I80F48::from_num(1e-9), I80F48::from_num(0.000001), I80F48::from_num(0.1), I80F48::from_num(0.5), I80F48::from_num(9.999999), I80F48::from_num(10), I80F48::from_num(50)];
    let maxs: Vec<I80F48> = vec![I80F48::from_num(0.0000011), I80F48::from_num(0.5000001), I80F48::from_num(1), I80F48::from_num(3), I80F48::from_num(10), I80F48::from_num(10.000001), I80F48::from_num(51), I80F48::from_num(4000)];
    let bk = w.banks[0].key;
    for &opt in &opts {
        for &plat in &plats {
            for &max in &maxs {
                let mut s = s0.clone();
                world::edit_bank(&mut s, &bk, |b| {
                    let ir = &mut b.config.interest_rate_config;
                    ir.curve_type = INTEREST_CURVE_LEGACY;
                    ir.optimal_utilization_rate = opt.into();
                    ir.plateau_interest_rate = plat.into();
                    ir.max_interest_rate = max.into();
                    ir.zero_util_rate = 0;
                    ir.hundred_util_rate = 0;
                    ir.points = [RatePoint::default(); 5];
                });
                let legacy_ok = matches!(std::panic::catch_unwind(|| world::bank(&s, &bk).config.interest_rate_config.validate()), Ok(Ok(())));
                let r = process_tx(&mut s, &Tx::one(ix::migrate_curve(bk), &[w.payer]));
                let stored = world::bank(&s, &bk).config.interest_rate_config;
                {
                    let mut g = st.lock().unwrap();
                    g.configs += 1;
                    g.evaluations += 1;
                    *g.classes.entry(format!("migration:{}:{}", if legacy_ok { "valid_legacy" } else { "invalid_legacy" }, if !r.ok() { "refused" } else if stored.curve_type == INTEREST_CURVE_SEVEN_POINT { "migrated" } else { "left_as_is" })).or_insert(0) += 1;
                }
                if !r.ok() {
                    continue;
                }
                let name = format!("migrate_curve:legacy({opt},{plat},{max})");
                if stored.curve_type != INTEREST_CURVE_SEVEN_POINT {
                    // left as a legacy curve: the legacy sweep's subject; must at least be a valid legacy curve
                    if !legacy_ok {
                        st.lock().unwrap().found.push(Found { clause: "C18.defined".into(), sig: "stored_by:migrate_curve".into(), detail: format!("{name} succeeded and left an invalid legacy curve in place"), replay: json!({"model": "C18", "migration": [opt.to_string(), plat.to_string(), max.to_string()]}) });
                    }
                    continue;
                }
                let c = Cfg { zero: stored.zero_util_rate, hundred: stored.hundred_util_rate, points: stored.points };
                check_cfg_as(&c, st, Some("migrate_curve"));
                for util_pct in [0u64, 30, 79, 80, 81, 100] {
                    let mut t = s.clone();
                    world::edit_bank(&mut t, &bk, |b| {
                        let assets = I80F48::from(b.total_asset_shares) * I80F48::from(b.asset_share_value);
                        let want = assets * I80F48::from_num(util_pct) / I80F48::from_num(100);
                        b.total_liability_shares = (want / I80F48::from(b.liability_share_value)).into();
                    });
                    t.advance(3_600);
                    let ra = act::apply(&w, &mut t, &Action::Accrue { b: 0 });
                    let mut gst = st.lock().unwrap();
                    gst.evaluations += 1;
                    if !ra.committed {
                        gst.found.push(Found { clause: "C18.accrual_never_fails".into(), sig: "stored_by:migrate_curve".into(), detail: format!("after {name}, interest accrual at {util_pct} % utilisation fails ({:?})", ra.code), replay: json!({"model": "C18", "migration": [opt.to_string(), plat.to_string(), max.to_string()], "util_pct": util_pct}) });
                    }
                }
            }
        }
    }
}

pub fn run(tier: Tier) -> Outcome {
    let st = Mutex::new(Stats::default());
    let pool = rayon::ThreadPoolBuilder::new().num_threads(16).stack_size(32 << 20).build().unwrap();
    // (1) complete product over a small menu (padding anywhere, any order)
    let small_u = [0u32, 1, M / 2, M];
    let small_r: &[u32] = if tier == Tier::Quick { &[0, 1, M] } else { &[0, 1, M / 2, M] };
    let prod = product_configs(&small_u, small_r);
    let n_prod = prod.len();
    pool.install(|| prod.par_iter().for_each(|c| check_cfg(c, &st)));
    // (2) shape-directed enumeration over larger menus
    let big_u: &[u32] = if tier == Tier::Quick { &[1, 2, M / 3, M / 2, M - 1, M] } else { &[1, 2, M / 3, M / 2, M / 2 + 1, M - 2, M - 1, M] };
    let big_r: &[u32] = if tier == Tier::Quick { &[0, 1, M / 2, M] } else { &[0, 1, M / 10, M - 1, M] };
    let shaped = shaped_configs(big_u, big_r);
    let n_shaped = shaped.len();
    pool.install(|| shaped.par_iter().for_each(|c| check_cfg(c, &st)));
    legacy_sweep(&st);
    write_paths(&st);
    migration_sweep(&st);
    let s = st.into_inner().unwrap();
    let mut o = Outcome { level: "exploration".into(), ..Default::default() };
    o.found = s.found;
    if s.accepted == 0 {
        o.machinery.push("vacuity guard: no configuration was accepted".into());
    }
    o.coverage = json!({
        "evaluations": s.evaluations,
        "distinct_nontrivial": s.accepted,
        "rule": "configurations = complete 5-point product over a small (util, rate) menu with padding in any position, plus every strictly-increasing-util / arbitrary-rate shape over a larger menu with trailing padding, each x zero/hundred rates, plus a 7^3 legacy menu (evaluated at 0, both sides of the optimal point, segment mid points, 1, 1+ulp, 1.5 and 2^20); for every accepted configuration the real calculator is evaluated at every breakpoint, +-1 and +-2 ulp around it, segment mid and third points, 0, 1, 1.5 and 2^20, under 3 fee vectors x program fees on/off; distinct_nontrivial = number of accepted configurations (each evaluated at all those utilizations)",
        "configs": s.configs,
        "accepted_configs": s.accepted,
        "complete_product_configs": n_prod,
        "shaped_configs": n_shaped,
        "exhaustive": true,
        "outcome_classes": s.classes,
        "samples": s.samples,
    });
    o.assumptions = vec!["pure functions of the program crate are called directly (InterestRateConfig::validate, InterestRateCalc::calc_interest_rate)".into(), "negative utilizations are not evaluated: total liabilities / total deposits is never negative".into()];
    o
}
