//! C15 — emergency pause is bounded. Explicit-state search (to fixpoint) of the pause machine driven
//! through the real panic_pause / panic_unpause / panic_unpause_permissionless / propagate_fee_state
//! instructions, with time passage on the 600-second region grid plus a bounded number of one-second
//! off-grid deviations; states are keyed time-abstractly (clock differences, clipped).

use super::histcommon::*;
use super::Tier;
use crate::act::{self, Action};
use crate::evidence::{Found, Outcome};
use crate::ix;
use crate::mc::{self, Key, Limits, Model, Step, Violation};
use crate::svm::{process_tx, Store, Tx};
use crate::world::{self, World};
use serde_json::json;

const PAUSE: i64 = 1800;
const DAY: i64 = 86_400;
const ERR_PROTOCOL_PAUSED: u64 = 6080;

#[derive(Clone, Debug, serde::Serialize, serde::Deserialize, PartialEq, Eq)]
pub enum PAct {
    Pause,
    Unpause,
    UnpausePermissionless,
    Propagate,
    Tick(i64),
    /// the global fee admin passes its role to a second key it controls (and that key passes it back)
    HandOver,
    /// the global fee admin edits the other global fee settings, keeping the role
    EditSettings,
}

fn second_admin() -> solana_program::pubkey::Pubkey {
    world::key("P:second_global_fee_admin")
}

/// the key that currently holds the global fee admin role
fn admin_now(s: &Store) -> solana_program::pubkey::Pubkey {
    world::fee_state(s).global_fee_admin
}

fn edit_tx(s: &Store, new_admin: solana_program::pubkey::Pubkey, bump_fee: bool) -> Tx {
    let fs = world::fee_state(s);
    let cur = fs.global_fee_admin;
    Tx::one(
        ix::edit_global_fee_state(cur, new_admin, fs.global_fee_wallet, fs.bank_init_flat_sol_fee + bump_fee as u32, fs.liquidation_flat_sol_fee, fs.program_fee_fixed, fs.program_fee_rate, fs.liquidation_max_fee),
        &[cur],
    )
}

#[derive(Clone)]
pub struct PState {
    pub s: Store,
    /// successful pauses observed since the last observed daily reset
    pub pauses_in_window: u8,
    pub devs: u8,
    /// clock time at which the model last saw the daily counter being reset (0 = never): resets are events in
    /// time, whatever timestamp the program stores for them
    pub reset_at: i64,
}

pub struct PModel {
    pub w: World,
    pub root: Store,
    pub max_devs: u8,
    pub protocol_paused_code: u64,
}

fn clip(x: i64, lo: i64, hi: i64) -> i64 {
    x.max(lo).min(hi)
}

struct View {
    flag: bool,
    daily: u8,
    consecutive: u8,
    x: i64,
    y: i64,
    start: i64,
    last_reset: i64,
    cflag: bool,
    cx: i64,
}

fn view(s: &Store, w: &World) -> View {
    let fs = world::fee_state(s);
    let g = world::group(s, &w.group);
    let ps = fs.panic_state;
    View {
        flag: ps.pause_flags & 1 != 0,
        daily: ps.daily_pause_count,
        consecutive: ps.consecutive_pause_count,
        x: s.now - ps.pause_start_timestamp,
        y: s.now - ps.last_daily_reset_timestamp,
        start: ps.pause_start_timestamp,
        last_reset: ps.last_daily_reset_timestamp,
        cflag: g.panic_state_cache.pause_flags & 1 != 0,
        cx: s.now - g.panic_state_cache.pause_start_timestamp,
    }
}

impl PModel {
    /// a battery of user instructions (deposit, withdraw, close-balance of an empty position), each on its own
    /// copy of the state: Some(true) if any of them is refused as protocol-paused, Some(false) if all go through
    fn probe_blocked(&self, s: &Store) -> Option<bool> {
        let probes = [Action::Deposit { u: 0, b: 0, amt: 5, up_to_limit: None }, Action::Withdraw { u: 0, b: 0, amt: 1, all: false }, Action::CloseBalance { u: 1, b: 0 }];
        let (mut paused, mut other) = (0, 0);
        for a in &probes {
            let mut t = s.clone();
            let r = act::apply(&self.w, &mut t, a);
            if r.committed {
                continue;
            } else if r.code == self.protocol_paused_code {
                paused += 1;
            } else {
                other += 1;
            }
        }
        if other > 0 {
            None
        } else {
            Some(paused > 0)
        }
    }
}

impl Model for PModel {
    type State = PState;
    type Action = PAct;

    fn roots(&self) -> Vec<(String, PState)> {
        vec![("fresh".into(), PState { s: self.root.clone(), pauses_in_window: 0, devs: 0, reset_at: 0 })]
    }

    fn key(&self, st: &PState) -> Key {
        let v = view(&st.s, &self.w);
        let mut h = blake3::Hasher::new();
        h.update(&[v.flag as u8, v.daily, v.consecutive, v.cflag as u8, st.pauses_in_window, st.devs, (admin_now(&st.s) == self.w.fee_admin) as u8]);
        // clipping is exact: guards compare x only with 0 and 1800 (and the extension arithmetic moves
        // it by 1800), y only with 86400
        let x = if v.flag { clip(v.x, -2 * PAUSE - 2, PAUSE + 2) } else { 0 };
        let y = clip(v.y, 0, DAY + 2);
        let cx = if v.cflag { clip(v.cx, -2 * PAUSE - 2, PAUSE + 2) } else { 0 };
        h.update(&x.to_le_bytes());
        h.update(&y.to_le_bytes());
        h.update(&cx.to_le_bytes());
        let since = if st.reset_at == 0 { -1 } else { clip(st.s.now - st.reset_at, 0, DAY + 2) };
        h.update(&since.to_le_bytes());
        *h.finalize().as_bytes()
    }

    fn actions(&self, st: &PState) -> Vec<PAct> {
        let mut v = vec![PAct::Pause, PAct::Unpause, PAct::UnpausePermissionless, PAct::Propagate, PAct::Tick(600), PAct::HandOver, PAct::EditSettings];
        if st.devs < self.max_devs {
            v.push(PAct::Tick(1));
            v.push(PAct::Tick(599));
            v.push(PAct::Tick(601));
        }
        v
    }

    fn step(&self, st: &PState, a: &PAct) -> Step<PState> {
        let w = &self.w;
        let pre = view(&st.s, w);
        let mut s = st.s.clone();
        let mut next_devs = st.devs;
        let mut violations = vec![];
        let mut pauses = st.pauses_in_window;
        let mut reset_at = st.reset_at;
        let (code, committed) = match a {
            PAct::Tick(d) => {
                s.advance(*d);
                if *d % 600 != 0 {
                    next_devs += 1;
                }
                (0u64, true)
            }
            PAct::Pause => {
                let adm = admin_now(&s);
                let r = process_tx(&mut s, &Tx::one(ix::panic_pause(adm), &[adm]));
                (r.code(), r.ok())
            }
            PAct::Unpause => {
                let adm = admin_now(&s);
                let r = process_tx(&mut s, &Tx::one(ix::panic_unpause(adm), &[adm]));
                (r.code(), r.ok())
            }
            PAct::UnpausePermissionless => {
                let st_key = act::stranger();
                let r = process_tx(&mut s, &Tx::one(ix::panic_unpause_permissionless(), &[st_key]));
                (r.code(), r.ok())
            }
            PAct::Propagate => {
                let r = process_tx(&mut s, &Tx::one(ix::propagate_fee_state(w.group), &[act::stranger()]));
                (r.code(), r.ok())
            }
            PAct::HandOver => {
                let to = if admin_now(&s) == w.fee_admin { second_admin() } else { w.fee_admin };
                let tx = edit_tx(&s, to, false);
                let r = process_tx(&mut s, &tx);
                (r.code(), r.ok())
            }
            PAct::EditSettings => {
                let tx = edit_tx(&s, admin_now(&s), true);
                let r = process_tx(&mut s, &tx);
                (r.code(), r.ok())
            }
        };
        let post = view(&s, w);
        let now = s.now;
        let mut tags: Vec<&str> = vec![];
        match a {
            PAct::Pause if committed => {
                // end of the scheduled pause before and after
                let end_pre = if pre.flag { (pre.start + PAUSE).max(now) } else { now };
                let end_post = post.start + PAUSE;
                if end_post - end_pre > PAUSE {
                    violations.push(Violation { clause: "C15.pause_pushes_at_most_30min".into(), detail: format!("pause moved the end of the pause from now+{} to now+{}", end_pre - now, end_post - now) });
                }
                if pre.flag && pre.x < PAUSE {
                    tags.push("extension");
                }
                if post.last_reset != pre.last_reset {
                    tags.push("daily_reset");
                    if pre.last_reset != 0 && post.last_reset - pre.last_reset < DAY {
                        violations.push(Violation { clause: "C15.resets_24h_apart".into(), detail: format!("daily counter reset {} s after the previous one", post.last_reset - pre.last_reset) });
                    }
                    // ... and by the clock: the reset happens now, whatever timestamp is stored for it
                    if reset_at != 0 && now - reset_at < DAY {
                        violations.push(Violation { clause: "C15.resets_24h_apart".into(), detail: format!("daily counter reset {} s of clock time after the previous reset (stored window start moved from {} to {}, now {})", now - reset_at, pre.last_reset, post.last_reset, now) });
                    }
                    reset_at = now;
                    pauses = 1;
                } else if post.daily <= pre.daily {
                    // the stored counter went down (or stood still) on a successful pause without the window moving:
                    // a reset in disguise
                    violations.push(Violation { clause: "C15.max_three_pauses_per_window".into(), detail: format!("a successful pause took the daily counter from {} to {} without a daily reset", pre.daily, post.daily) });
                    pauses = (pauses + 1).min(5);
                } else {
                    pauses = (pauses + 1).min(5); // saturates: beyond the bound the count only repeats the violation
                }
                if pauses > 3 {
                    violations.push(Violation { clause: "C15.max_three_pauses_per_window".into(), detail: format!("{} pauses succeeded since the last daily reset", pauses) });
                }
                if pauses == 3 {
                    tags.push("third_pause");
                }
            }
            PAct::Pause => {
                tags.push("refused");
            }
            PAct::Unpause => {
                if pre.flag && !committed {
                    violations.push(Violation { clause: "C15.admin_unpause_never_fails".into(), detail: format!("admin unpause failed with {} while the pause flag was set", crate::svm::err_name(code)) });
                }
                if committed && post.flag {
                    violations.push(Violation { clause: "C15.admin_unpause_clears".into(), detail: "admin unpause succeeded but the flag is still set".into() });
                }
            }
            PAct::Propagate => {
                // users are judged against the group's copy of the pause state: a propagation must make it the global
                // one, or a pause that has run out (or was lifted) keeps blocking them
                if !committed {
                    violations.push(Violation { clause: "C15.propagation_copies_pause_state".into(), detail: format!("propagating the pause state to the group failed with {}", crate::svm::err_name(code)) });
                } else if post.cflag != post.flag || (post.flag && post.cx != post.x) {
                    violations.push(Violation { clause: "C15.propagation_copies_pause_state".into(), detail: format!("after propagation the group's copy says paused={} since {} s, the global state paused={} since {} s", post.cflag, post.cx, post.flag, post.x) });
                }
            }
            PAct::HandOver | PAct::EditSettings => {
                // the limits bind the role, not a key: whoever holds it next inherits what was spent
                if committed && (post.flag != pre.flag || post.daily != pre.daily || post.consecutive != pre.consecutive || post.start != pre.start || post.last_reset != pre.last_reset) {
                    violations.push(Violation { clause: "C15.limits_bind_the_role".into(), detail: format!("editing the global fee settings changed the pause machine: flag {}->{}, daily count {}->{}, consecutive {}->{}, start {}->{}, last reset {}->{}", pre.flag, post.flag, pre.daily, post.daily, pre.consecutive, post.consecutive, pre.start, post.start, pre.last_reset, post.last_reset) });
                }
                if !committed {
                    tags.push("refused");
                }
            }
            PAct::UnpausePermissionless => {
                if pre.flag && pre.x >= PAUSE {
                    tags.push("expired");
                    if !committed {
                        violations.push(Violation { clause: "C15.anyone_may_clear_expired".into(), detail: format!("permissionless unpause of a pause that expired {} s ago failed with {}", pre.x - PAUSE, crate::svm::err_name(code)) });
                    }
                }
                if committed && pre.flag && pre.x < PAUSE {
                    violations.push(Violation { clause: "C15.permissionless_only_when_expired".into(), detail: format!("permissionless unpause succeeded {} s before expiry", PAUSE - pre.x) });
                }
            }
            _ => {}
        }
        let class = format!(
            "{}:{}{}",
            match a {
                PAct::Pause => "pause",
                PAct::Unpause => "unpause",
                PAct::UnpausePermissionless => "unpause_permissionless",
                PAct::Propagate => "propagate",
                PAct::HandOver => "hand_over",
                PAct::EditSettings => "edit_settings",
                PAct::Tick(d) if d % 600 == 0 => "tick_grid",
                PAct::Tick(_) => "tick_offgrid",
            },
            crate::svm::err_name(code),
            if tags.is_empty() { String::new() } else { format!(":{}", tags.join("+")) }
        );
        let next = if committed { Some(PState { s, pauses_in_window: pauses, devs: next_devs, reset_at }) } else { None };
        Step { next, class, violations }
    }

    fn check_state(&self, st: &PState) -> Vec<Violation> {
        let mut out = vec![];
        let v = view(&st.s, &self.w);
        if v.flag {
            let remaining = v.start + PAUSE - st.s.now;
            if remaining > 2 * PAUSE {
                out.push(Violation { clause: "C15.never_more_than_60min_ahead".into(), detail: format!("protocol scheduled to stay paused for another {} s", remaining) });
            }
        }
        // users: blocked only while the cached pause is in force; unblocked without anyone acting
        match self.probe_blocked(&st.s) {
            Some(true) => {
                if !(v.cflag && v.cx < PAUSE) {
                    out.push(Violation { clause: "C15.expired_pause_does_not_block".into(), detail: format!("a user instruction (deposit, withdraw or close-balance) was refused as paused although cache flag={} and {} s since cached start", v.cflag, v.cx) });
                }
            }
            Some(false) => {}
            None => out.push(Violation { clause: "C15.probe_unexpected".into(), detail: "user probe failed for a reason other than the protocol pause".into() }),
        }
        // bounded liveness: one hour of pure time passage later the probe passes
        let mut t = st.s.clone();
        t.advance(2 * PAUSE);
        world::refresh_oracles(&mut t, &self.w);
        if self.probe_blocked(&t) != Some(false) {
            out.push(Violation { clause: "C15.access_regained_within_60min".into(), detail: "a user instruction (deposit, withdraw or close-balance) is still refused after 3600 s without any admin action".into() });
        }
        out
    }
}

pub fn model(tier: Tier) -> PModel {
    let (w, s0) = build_world_p();
    PModel { w, root: s0, max_devs: if tier == Tier::Quick { 1 } else { 4 }, protocol_paused_code: ERR_PROTOCOL_PAUSED }
}

fn build_world_p() -> (World, Store) {
    let (w, mut s) = world::build_world(&world::WorldSpec::new("P", vec![spec_b6()], &["u0", "u1"]));
    // u0 holds a deposit (so that a withdrawal is possible); u1 holds an empty but active position
    for a in [Action::Deposit { u: 0, b: 0, amt: 1_000_000, up_to_limit: None }, Action::Deposit { u: 1, b: 0, amt: 7, up_to_limit: None }, Action::Withdraw { u: 1, b: 0, amt: 7, all: false }] {
        let r = act::apply(&w, &mut s, &a);
        assert!(r.committed, "C15 world: {:?} failed with {}", a, crate::svm::err_name(r.code));
    }
    (w, s)
}

pub fn run(tier: Tier) -> Outcome {
    let m = model(tier);
    // sanity: the error code constant used by the probe is the program's ProtocolPaused
    assert_eq!(ERR_PROTOCOL_PAUSED as u32, 6000 + marginfi::errors::MarginfiError::ProtocolPaused as u32);
    let lim = Limits { max_depth: 100_000, max_wall_s: if tier == Tier::Quick { 300.0 } else { 3000.0 }, max_states: 60_000_000, ..Default::default() };
    let rep = mc::explore(&m, &lim);
    let mut o = Outcome { level: "model_checking".into(), ..Default::default() };
    for c in &rep.counterexamples {
        o.found.push(Found {
            clause: c.violation.clause.clone(),
            sig: c.trace.last().map(|t| t.split(|ch| ch == '"' || ch == '{').find(|x| !x.is_empty()).unwrap_or("").to_string()).unwrap_or_else(|| "state".into()),
            detail: format!("depth {}: {}", c.depth, c.violation.detail),
            replay: json!({"model": "C15", "actions": c.trace.iter().map(|t| serde_json::from_str::<serde_json::Value>(t).unwrap()).collect::<Vec<_>>()}),
        });
    }
    // hard guards: outcomes the harness itself must be able to produce; soft ones depend on the
    // program's pause policy and are only reported
    let hit = |req: &str| rep.classes.iter().any(|(k, v)| *v > 0 && class_matches(k, req));
    for req in ["pause:ok", "unpause:ok", "propagate:ok", "tick_offgrid:ok", "tick_grid:ok", "hand_over:ok", "edit_settings:ok"] {
        if !hit(req) {
            o.machinery.push(format!("vacuity guard: outcome class '{}' was never exercised", req));
        }
    }
    let unexercised: Vec<&str> = ["pause:ok:extension", "pause:ok:third_pause", "pause:6082", "pause:ok:daily_reset", "unpause_permissionless:ok:expired"].into_iter().filter(|r| !hit(r)).collect();
    if !rep.exhaustive {
        o.machinery.push(format!("exploration did not reach the fixpoint: {:?}", rep.cap_hit));
    }
    let samples: Vec<_> = rep.sample_traces.iter().map(|(r, t)| json!({"root": r, "actions": t.iter().map(|x| serde_json::from_str::<serde_json::Value>(x).unwrap()).collect::<Vec<_>>()})).collect();
    o.coverage = json!({
        "states": rep.states,
        "transitions": rep.transitions,
        "traces_validated_against_impl": rep.transitions,
        "evaluations": rep.transitions,
        "distinct_nontrivial": rep.classes.len(),
        "rule": "all reachable time-abstract states of the pause machine (flags, counters, now-start, now-last_reset, cached flag and start; clipped beyond the guards' constants) under pause/unpause/permissionless-unpause/propagate, the global fee admin handing its role to a second key and back (pause / unpause are signed by whoever holds the role), an edit of the other global fee settings, and time ticks of 600 s, plus at most k one-second off-grid ticks per path (k=1 quick, 4 thorough); searched to the fixpoint; each transition is the real instruction through marginfi::entry; a battery of user probes (deposit, withdraw, close-balance of an empty position) is evaluated in every state and 3600 s later",
        "exhaustive": rep.exhaustive,
        "layers": rep.states_per_layer.len(),
        "max_offgrid_deviations": m.max_devs,
        "outcome_classes": rep.classes,
        "expected_but_unexercised_classes": unexercised,
        "samples": samples,
    });
    o.assumptions = vec![
        "time-abstract state key: the program reads clocks only through differences with stored timestamps; sentinels 0 behave as 'long ago' at realistic clock values".into(),
        "environment model E1 provides the clock sysvar".into(),
    ];
    o
}

pub fn replay(v: &serde_json::Value) -> Vec<Violation> {
    let m = model(Tier::Thorough);
    let mut st = m.roots().remove(0).1;
    let mut out = m.check_state(&st);
    for a in v["actions"].as_array().unwrap() {
        let a: PAct = serde_json::from_value(a.clone()).unwrap();
        let step = m.step(&st, &a);
        out = step.violations;
        if let Some(n) = step.next {
            out.extend(m.check_state(&n));
            st = n;
        }
    }
    out
}
