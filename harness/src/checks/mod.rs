//! Per-property decision procedures.
use crate::evidence::Outcome;

pub mod histcommon;
pub mod c01;
pub mod c02;
pub mod c03;
pub mod c04;
pub mod c05;
pub mod c06;
pub mod c07;
pub mod c08;
pub mod c09;
pub mod c10;
pub mod c11;
pub mod c12;
pub mod c13;
pub mod c14;
pub mod c15;
pub mod c16;
pub mod c17;
pub mod c18;
pub mod c19;
pub mod c20;

#[derive(Clone, Copy, PartialEq, Eq, Debug)]
pub enum Tier {
    Quick,
    Thorough,
}

pub fn run(id: &str, tier: Tier) -> Option<Outcome> {
    Some(match id {
        "C01" => c01::run(tier),
        "C02" => c02::run(tier),
        "C03" => c03::run(tier),
        "C04" => c04::run(tier),
        "C05" => c05::run(tier),
        "C06" => c06::run(tier),
        "C07" => c07::run(tier),
        "C08" => c08::run(tier),
        "C09" => c09::run(tier),
        "C10" => c10::run(tier),
        "C11" => c11::run(tier),
        "C12" => c12::run(tier),
        "C13" => c13::run(tier),
        "C14" => c14::run(tier),
        "C15" => c15::run(tier),
        "C16" => c16::run(tier),
        "C17" => c17::run(tier),
        "C18" => c18::run(tier),
        "C19" => c19::run(tier),
        "C20" => c20::run(tier),
        _ => return None,
    })
}

pub fn replay(id: &str, replay: &serde_json::Value) -> Option<Vec<crate::mc::Violation>> {
    match id {
        "C01" => Some(histcommon::replay_hist(&c01::model(Tier::Quick, replay["world"].as_str().unwrap_or("")), replay)),
        "C02" => Some(histcommon::replay_hist(&c02::model(Tier::Quick, replay["world"].as_str().unwrap_or("")), replay)),
        "C06" if replay["model"] == "C06" => Some(histcommon::replay_hist(&c06::model(Tier::Quick, replay["world"].as_str().unwrap_or("")), replay)),
        "C03" => Some(histcommon::replay_hist(&c03::model_for(replay), replay)),
        "C04" => Some(c04::replay(replay)),
        "C05" => Some(c05::replay(replay)),
        "C07" => Some(c07::replay(replay)),
        "C08" => Some(c08::replay(replay)),
        "C09" => Some(c09::replay(replay)),
        "C10" => Some(c10::replay(replay)),
        "C11" => Some(c11::replay(replay)),
        "C12" => Some(c12::replay(replay)),
        "C19" => Some(c19::replay(replay)),
        "C13" => Some(c13::replay(replay)),
        "C14" => Some(c14::replay(replay)),
        "C15" => Some(c15::replay(replay)),
        "C16" => Some(c16::replay(replay)),
        "C17" => Some(histcommon::replay_hist(&c17::model(Tier::Thorough, replay["world"].as_str().unwrap_or("")), replay)),
        _ => None,
    }
}
