//! C10 — receivership liquidation. (a) Transaction-shape language: every instruction list up to the
//! length bound over an alphabet of start / end (two accounts, top level and via CPI), withdraw /
//! repay (both accounts, small and oversized, top level and via CPI), deposit, record-init,
//! compute-budget, whitelisted refresh, allowed and not-allowed foreign programs is executed as one
//! atomic transaction signed only by a third party; whenever it commits and an account's balances
//! changed, the list must be a well-formed bracket for that account and the bracket's semantic rules
//! must hold. (b) Bracket semantics: [start, withdraw(x), repay(y), end] over an amount grid x
//! portfolios x maximum-fee settings.

use super::Tier;
use crate::act::{self, Action};
use crate::evidence::{Found, Outcome};
use crate::health::{self, Req};
use crate::ix;
use crate::refmodel::{self as rf, Q};
use crate::svm::{process_tx, Ix, Store, Tx};
use crate::world::{self, *};
use fixed::types::I80F48;
use marginfi_type_crate::types::{ACCOUNT_IN_DELEVERAGE, ACCOUNT_IN_FLASHLOAN, ACCOUNT_IN_RECEIVERSHIP};
use num_traits::{Signed, Zero};
use rayon::prelude::*;
use serde_json::json;
use solana_program::instruction::AccountMeta;
use solana_program::pubkey::Pubkey;
use std::collections::BTreeMap;

pub struct Sc {
    pub w: World,
    pub s: Store,
    /// the two accounts that can be put into receivership (indices into w.users)
    pub subj: [usize; 2],
    pub liq: usize,
    pub max_fee: f64,
}

fn bank(label: &str, mint: &str, dec: u8, usd_e8: i64) -> BankSpec {
    let mut cfg = BankCfg::default();
    cfg.asset_weight_init = I80F48::from_num(0.5);
    cfg.asset_weight_maint = I80F48::from_num(0.9);
    cfg.liability_weight_init = I80F48::from_num(1.25);
    cfg.liability_weight_maint = I80F48::from_num(1.1);
    BankSpec { label: label.into(), mint: MintSpec::spl(mint, dec), oracle: OracleSpec::pyth_usd(usd_e8), config: cfg }
}

/// coll / debt in dollars for the two subject accounts
pub fn scene(tag: &str, max_fee: f64, coll: [f64; 2], debt: [f64; 2]) -> Sc {
    let mut spec = WorldSpec::new(&format!("C10{tag}"), vec![bank("RA", "c10a", 6, 100_000_000), bank("RL", "c10l", 9, 2_500_000_000)], &["x0", "x1", "liq", "seeder", "fresh"]);
    spec.liquidation_max_fee = I80F48::from_num(max_fee);
    let (w, mut s) = build_world(&spec);
    let go = |s: &mut Store, a: Action| {
        let r = act::apply(&w, s, &a);
        assert!(r.committed, "C10 scene {:?}: {}", a, crate::svm::err_name(r.code));
    };
    for b in 0..2 {
        go(&mut s, Action::Deposit { u: 3, b, amt: 1_000_000 * 10u64.pow(w.banks[b].decimals as u32), up_to_limit: None });
    }
    // healthy at a low debt price, then the debt asset appreciates to its scene price
    world::scale_pyth_price(&mut s, &w.banks[1].oracle.unwrap(), 1, 10);
    for (i, u) in [0usize, 1].iter().enumerate() {
        let c_native = (coll[i] * 1e6) as u64;
        let d_native = (debt[i] / 25.0 * 1e9) as u64;
        if c_native > 0 {
            go(&mut s, Action::Deposit { u: *u, b: 0, amt: c_native, up_to_limit: None });
        }
        if d_native > 0 {
            go(&mut s, Action::Borrow { u: *u, b: 1, amt: d_native });
        }
        let r = process_tx(&mut s, &Tx::one(ix::init_liq_record(w.users[*u].account, w.payer), &[w.payer]));
        assert!(r.ok());
    }
    world::scale_pyth_price(&mut s, &w.banks[1].oracle.unwrap(), 10, 1);
    Sc { w, s, subj: [0, 1], liq: 2, max_fee }
}

#[derive(Clone, Copy, Debug, PartialEq, Eq, serde::Serialize, serde::Deserialize)]
pub enum Sym {
    ComputeBudget,
    InitRecordFresh,
    KaminoRefresh,
    Start(u8),
    End(u8),
    WithdrawSmall(u8),
    RepayMid(u8),
    WithdrawBig(u8),
    Deposit(u8),
    Jupiter,
    NotAllowedProgram,
    ShortAllowed,
    StartViaCpi(u8),
    EndViaCpi(u8),
    WithdrawViaCpi(u8),
    RepayViaCpi(u8),
    /// withdraw invoked by an allow-listed foreign program (Jupiter) through CPI
    WithdrawViaAllowedCpi(u8),
    /// instructions of this program that succeed on their own and touch nobody else's positions: the third party
    /// deposits into its *own* marginfi account, the permissionless interest crank of bank 0, the permissionless
    /// health pulse of a subject account (used in the side enumeration only)
    OwnDeposit,
    Accrue,
    PulseHealth(u8),
    /// the permissionless reward settlement of a subject account's position in bank 0 (side enumeration only)
    SettleEmissions(u8),
}

pub fn alphabet(tier: Tier) -> Vec<Sym> {
    let mut v = vec![Sym::ComputeBudget, Sym::InitRecordFresh, Sym::KaminoRefresh, Sym::Start(0), Sym::Start(1), Sym::End(0), Sym::End(1), Sym::WithdrawSmall(0), Sym::RepayMid(0), Sym::WithdrawBig(0), Sym::Deposit(0), Sym::Jupiter, Sym::NotAllowedProgram, Sym::ShortAllowed, Sym::StartViaCpi(0), Sym::EndViaCpi(0), Sym::WithdrawViaCpi(0)];
    if tier == Tier::Thorough {
        // (the quick tier has the second subject's start and end - a bracket closed for the wrong account - but leaves
        // its withdraw and repay to the thorough tier)
        v.extend([Sym::WithdrawSmall(1), Sym::RepayMid(1), Sym::RepayViaCpi(0)]);
    }
    v
}

pub fn proxy() -> Pubkey {
    key("c10:proxy_program")
}

pub fn build_ix(sc: &Sc, s: &Store, sym: Sym) -> Ix {
    let w = &sc.w;
    let liq = w.users[sc.liq].authority;
    let acct = |i: u8| w.users[sc.subj[i as usize]].account;
    let rem = |i: u8| w.risk_metas(s, &acct(i), None, None);
    let ta = |b: usize| w.users[sc.liq].tokens[&w.banks[b].mint];
    let noop = |program: Pubkey, data: Vec<u8>| Ix { program_id: program, accounts: vec![], data, proxy: None };
    match sym {
        Sym::ComputeBudget => noop(marginfi::constants::COMPUTE_PROGRAM_KEY, vec![2, 0x40, 0x0d, 0x03, 0]),
        Sym::InitRecordFresh => ix::init_liq_record(w.users[4].account, liq),
        Sym::KaminoRefresh => {
            use anchor_lang::Discriminator;
            noop(kamino_mocks::kamino_lending::ID, kamino_mocks::kamino_lending::client::args::RefreshReserve::DISCRIMINATOR.to_vec())
        }
        Sym::Start(i) => ix::start_liquidation(acct(i), liq, rem(i)),
        Sym::End(i) => ix::end_liquidation(acct(i), liq, w.fee_wallet, rem(i)),
        // $10 of collateral; $10.20 of debt (premium under 5 %, health improves)
        Sym::WithdrawSmall(i) => ix::withdraw(w.group, acct(i), liq, w.banks[0].key, ta(0), w.banks[0].token_program, 10_000_000, None, rem(i)),
        Sym::WithdrawBig(i) => ix::withdraw(w.group, acct(i), liq, w.banks[0].key, ta(0), w.banks[0].token_program, 100_000_000, None, rem(i)),
        Sym::RepayMid(i) => ix::repay(w.group, acct(i), liq, w.banks[1].key, ta(1), w.banks[1].token_program, 408_000_000, None, vec![]),
        Sym::Deposit(i) => ix::deposit(w.group, acct(i), liq, w.banks[0].key, ta(0), w.banks[0].token_program, 5_000_000, None, vec![]),
        Sym::Jupiter => noop(marginfi::constants::JUP_KEY, vec![9; 16]),
        Sym::NotAllowedProgram => noop(key("c10:evil_program"), vec![9; 16]),
        Sym::ShortAllowed => noop(marginfi::constants::JUP_KEY, vec![1, 2, 3, 4]),
        Sym::StartViaCpi(i) => ix::start_liquidation(acct(i), liq, rem(i)).via(proxy()),
        Sym::EndViaCpi(i) => ix::end_liquidation(acct(i), liq, w.fee_wallet, rem(i)).via(proxy()),
        Sym::WithdrawViaCpi(i) => ix::withdraw(w.group, acct(i), liq, w.banks[0].key, ta(0), w.banks[0].token_program, 10_000_000, None, rem(i)).via(proxy()),
        Sym::WithdrawViaAllowedCpi(i) => ix::withdraw(w.group, acct(i), liq, w.banks[0].key, ta(0), w.banks[0].token_program, 10_000_000, None, rem(i)).via(marginfi::constants::JUP_KEY),
        Sym::RepayViaCpi(i) => ix::repay(w.group, acct(i), liq, w.banks[1].key, ta(1), w.banks[1].token_program, 408_000_000, None, vec![]).via(proxy()),
        Sym::OwnDeposit => ix::deposit(w.group, w.users[sc.liq].account, liq, w.banks[0].key, ta(0), w.banks[0].token_program, 5_000_000, None, vec![]),
        Sym::Accrue => ix::accrue(w.group, w.banks[0].key),
        Sym::PulseHealth(i) => ix::pulse_health(acct(i), rem(i)),
        Sym::SettleEmissions(i) => ix::settle_emissions(acct(i), w.banks[0].key),
    }
}

/// the statement's bracket language for subject account `x`
fn well_formed(list: &[Sym], x: u8) -> Result<(), String> {
    let is_start = |s: &Sym| matches!(s, Sym::Start(_) | Sym::StartViaCpi(_));
    let starts: Vec<usize> = list.iter().enumerate().filter(|(_, s)| is_start(s)).map(|(i, _)| i).collect();
    if starts.len() != 1 {
        return Err(format!("{} start instructions", starts.len()));
    }
    let i = starts[0];
    if list[i] != Sym::Start(x) {
        return Err(format!("the start is {:?}", list[i]));
    }
    for s in &list[..i] {
        if !matches!(s, Sym::ComputeBudget | Sym::InitRecordFresh | Sym::KaminoRefresh) {
            return Err(format!("{:?} precedes the start", s));
        }
    }
    if *list.last().unwrap() != Sym::End(x) {
        return Err(format!("the last instruction is {:?}", list.last().unwrap()));
    }
    for s in &list[i + 1..list.len() - 1] {
        match s {
            Sym::WithdrawSmall(_) | Sym::WithdrawBig(_) | Sym::RepayMid(_) | Sym::ComputeBudget | Sym::InitRecordFresh | Sym::KaminoRefresh | Sym::Jupiter => {}
            other => return Err(format!("{:?} inside the bracket", other)),
        }
    }
    Ok(())
}

fn positions(s: &Store, acct: &Pubkey) -> Vec<(Pubkey, i128, i128)> {
    world::account(s, acct).lending_account.balances.iter().filter(|b| b.active != 0).map(|b| (b.bank_pk, rf::raw(b.asset_shares), rf::raw(b.liability_shares))).collect()
}

/// rules every committed receivership must satisfy, from reference valuations of pre and post state
fn semantic_rules(sc: &Sc, pre: &Store, post: &Store, acct: &Pubkey, out: &mut Vec<(String, String)>) {
    // Both states are valued at share values brought up to date by the real accrue instruction on a copy: interest
    // that was due when the bracket started is part of what the account owned and owed at the start (a no-op for
    // banks that are up to date, which is every bank of every scene without a clock advance).
    let up_to_date = |s: &Store| -> Store {
        let mut t = s.clone();
        for b in 0..sc.w.banks.len() {
            let _ = act::apply(&sc.w, &mut t, &Action::Accrue { b });
        }
        t
    };
    // (eligibility is judged on the stored share values the start instruction can see)
    let m0_stored = health::health(pre, acct, Req::Maintenance).unwrap();
    let m1_stored = health::health(post, acct, Req::Maintenance).unwrap();
    let (pre, post) = (&up_to_date(pre), &up_to_date(post));
    let (m0, m1) = (health::health(pre, acct, Req::Maintenance).unwrap(), health::health(post, acct, Req::Maintenance).unwrap());
    let (e0, e1) = (health::health(pre, acct, Req::Equity).unwrap(), health::health(post, acct, Req::Equity).unwrap());
    let tol = m0.allow.clone() + m1.allow.clone() + e0.allow.clone() + e1.allow.clone() + rf::qfrac(1, 1_000_000_000);
    if m0_stored.health() > tol.clone() + m0_stored.allow.clone() {
        out.push(("only_unhealthy_accounts".into(), format!("control was taken of an account with maintenance health {:.9} > 0", rf::qf64(&m0_stored.health()))));
    }
    if m1.health() < m0.health() - tol.clone() {
        out.push(("health_not_worse".into(), format!("maintenance health went {:.9} -> {:.9}", rf::qf64(&m0.health()), rf::qf64(&m1.health()))));
    }
    let tiny = e0.assets < rf::qi(5);
    if !tiny {
        if m1_stored.health() > tol.clone() + m1_stored.allow.clone() {
            out.push(("health_not_positive".into(), format!("maintenance health ended at {:.9} > 0 (assets were worth {:.4})", rf::qf64(&m1_stored.health()), rf::qf64(&e0.assets))));
        }
        let seized = e0.assets.clone() - e1.assets.clone();
        let repaid = e0.liabs.clone() - e1.liabs.clone();
        let cap = rf::qone() + rf::qmax(rf::qfrac((sc.max_fee * 1_000_000.0).round() as i128, 1_000_000), rf::qfrac(5, 100));
        if seized > repaid.clone() * cap.clone() + tol.clone() + repaid.clone().abs() * rf::qfrac(1, 1i128 << 40) {
            out.push(("premium_capped".into(), format!("seized {:.6} for {:.6} repaid (allowed factor {:.4}); assets were worth {:.4}", rf::qf64(&seized), rf::qf64(&repaid), rf::qf64(&cap), rf::qf64(&e0.assets))));
        }
    }
}

/// a committed forced deleverage may not leave the account less healthy (maintenance health at up-to-date share values)
fn deleverage_rules(sc: &Sc, pre: &Store, post: &Store, acct: &Pubkey, out: &mut Vec<(String, String)>) {
    let up_to_date = |s: &Store| -> Store {
        let mut t = s.clone();
        for b in 0..sc.w.banks.len() {
            let _ = act::apply(&sc.w, &mut t, &Action::Accrue { b });
        }
        t
    };
    let (pre, post) = (&up_to_date(pre), &up_to_date(post));
    let (m0, m1) = (health::health(pre, acct, Req::Maintenance).unwrap(), health::health(post, acct, Req::Maintenance).unwrap());
    let tol = m0.allow.clone() + m1.allow.clone() + rf::qfrac(1, 1_000_000_000);
    if m1.health() < m0.health() - tol {
        out.push(("deleverage_not_less_healthy".into(), format!("maintenance health went {:.9} -> {:.9}", rf::qf64(&m0.health()), rf::qf64(&m1.health()))));
    }
}

/// a third party's repayment inside a bracket is an ordinary repayment: every bank's liquidity vault takes in at least
/// what the account's debt in that bank went down by (the token-less write-off is the risk admin's facility)
fn repaid_in_tokens(sc: &Sc, pre: &Store, post: &Store, acct: &Pubkey, out: &mut Vec<(String, String)>) {
    for b in &sc.w.banks {
        let debt = |s: &Store| -> rf::Q {
            let (a, bk) = (world::account(s, acct), world::bank(s, &b.key));
            a.lending_account.balances.iter().filter(|x| x.active != 0 && x.bank_pk == b.key).map(|x| rf::q(x.liability_shares) * rf::q(bk.liability_share_value)).fold(rf::qzero(), |x, y| x + y)
        };
        let relieved = debt(pre) - debt(post);
        let taken_in = rf::qi(world::token_amount(post, &b.lv) as i128 - world::token_amount(pre, &b.lv) as i128);
        // (the same bracket may also have paid collateral out of this bank's vault: only banks the account owed count)
        if relieved > rf::qone() && taken_in < relieved.clone() - rf::qone() && debt(pre) > rf::qzero() && !sc.w.banks.iter().any(|x| x.key == b.key && positions(pre, acct).iter().any(|(k, a_sh, _)| *k == b.key && *a_sh > 0)) {
            out.push(("repaid_in_tokens".into(), format!("the account's debt in {} fell by {:.6} native units while the bank's liquidity vault took in {}", b.label, rf::qf64(&relieved), rf::qf64(&taken_in))));
        }
    }
}

fn markers_clear(sc: &Sc, s: &Store, out: &mut Vec<(String, String)>) {
    for u in &sc.w.users {
        let a = world::account(s, &u.account);
        if a.account_flags & (ACCOUNT_IN_RECEIVERSHIP | ACCOUNT_IN_DELEVERAGE | ACCOUNT_IN_FLASHLOAN) != 0 {
            out.push(("marker_never_survives".into(), format!("account {} carries flags {:#b} after a committed transaction", u.label, a.account_flags)));
        }
        if let Some(r) = s.get(&ix::liq_record_key(&u.account)) {
            if r.data.len() > 8 {
                let rec = world::liq_record(s, &ix::liq_record_key(&u.account));
                if rec.liquidation_receiver != Pubkey::default() {
                    out.push(("marker_never_survives".into(), format!("liquidation record of {} still names receiver {}", u.label, world::label_of(&rec.liquidation_receiver))));
                }
            }
        }
    }
}

/// all lists of length 1..=max_len, delivered in chunks (one per first symbol pair) so that the whole
/// space never has to be held in memory
pub fn shape_chunks(alpha: &[Sym], max_len: usize) -> Vec<Vec<Vec<Sym>>> {
    let mut chunks: Vec<Vec<Vec<Sym>>> = vec![];
    // lengths 1 and 2
    chunks.push(shapes(alpha, max_len.min(2)));
    if max_len <= 2 {
        return chunks;
    }
    for a in alpha {
        for b in alpha {
            let mut out: Vec<Vec<Sym>> = vec![];
            let mut frontier: Vec<Vec<Sym>> = vec![vec![*a, *b]];
            for _ in 2..max_len {
                let mut next = Vec::with_capacity(frontier.len() * alpha.len());
                for p in &frontier {
                    for s in alpha {
                        let mut q = p.clone();
                        q.push(*s);
                        next.push(q);
                    }
                }
                out.extend(next.iter().cloned());
                frontier = next;
            }
            chunks.push(out);
        }
    }
    chunks
}

pub struct ShapeOut {
    pub committed: bool,
    pub class: String,
    pub found: Vec<Found>,
}

pub fn run_shape(sc: &Sc, list: &[Sym]) -> ShapeOut {
    let w = &sc.w;
    let liq = w.users[sc.liq].authority;
    let ixs: Vec<Ix> = list.iter().map(|s| build_ix(sc, &sc.s, *s)).collect();
    let mut post = sc.s.clone();
    let r = process_tx(&mut post, &Tx::new(ixs, &[liq]));
    if !r.ok() {
        return ShapeOut { committed: false, class: format!("refused:{}", crate::svm::err_name(r.code())), found: vec![] };
    }
    let rep = json!({"model": "C10a", "shape": list});
    let mut viol: Vec<(String, String)> = vec![];
    markers_clear(sc, &post, &mut viol);
    let mut controlled = 0;
    for x in 0..2u8 {
        let acct = w.users[sc.subj[x as usize]].account;
        if positions(&sc.s, &acct) == positions(&post, &acct) {
            continue;
        }
        controlled += 1;
        if let Err(why) = well_formed(list, x) {
            viol.push(("bracket_shape".into(), format!("balances of {} were changed by a third party in a transaction that is not a well-formed bracket for it: {why}", w.users[sc.subj[x as usize]].label)));
        }
        semantic_rules(sc, &sc.s, &post, &acct, &mut viol);
        repaid_in_tokens(sc, &sc.s, &post, &acct, &mut viol);
    }
    let found = viol.into_iter().map(|(c, d)| Found { clause: format!("C10.{c}"), sig: format!("{:?}", list), detail: format!("{:?}: {d}", list), replay: rep.clone() }).collect();
    ShapeOut { committed: true, class: format!("committed:{}", if controlled > 0 { "took_control" } else { "no_control" }), found }
}

pub fn shapes(alpha: &[Sym], max_len: usize) -> Vec<Vec<Sym>> {
    let mut all: Vec<Vec<Sym>> = vec![];
    let mut frontier: Vec<Vec<Sym>> = vec![vec![]];
    for _ in 0..max_len {
        let mut next = vec![];
        for p in &frontier {
            for s in alpha {
                let mut q = p.clone();
                q.push(*s);
                next.push(q);
            }
        }
        all.extend(next.iter().cloned());
        frontier = next;
    }
    all
}

// ---------------------------------------------------------------- (b) bracket semantics grid

/// the same grid for the risk admin's forced deleverage (C12): [start_deleverage, repay, withdraw, end_deleverage] on healthy
/// and unhealthy accounts, partial amounts and close-outs; a commit may not leave the account less healthy
pub fn deleverage_grid(tier: Tier, classes: &mut BTreeMap<String, u64>, found: &mut Vec<Found>) -> u64 {
    grid(tier, true, classes, found)
}

fn grid(tier: Tier, delev: bool, classes: &mut BTreeMap<String, u64>, found: &mut Vec<Found>) -> u64 {
    let mut cells = 0u64;
    // (collateral $, debt $): standard; assets >= $5 but net equity < $5; assets just under / over $5
    let portfolios: Vec<(&str, f64, f64)> = vec![("std", 1000.0, 860.0), ("thin_equity", 100.0, 96.0), ("assets_4.99", 4.99, 4.5), ("assets_5.01", 5.01, 4.5), ("deep", 1000.0, 2000.0), ("std_reduce_only", 1000.0, 860.0), ("std_stale_banks", 1000.0, 860.0), ("std_debt_bank_tokenless", 1000.0, 860.0), ("assets_4.99_debt_bank_tokenless", 4.99, 4.5)];
    let portfolios: Vec<(&str, f64, f64)> = if delev { vec![("healthy", 1000.0, 400.0), ("std", 1000.0, 860.0), ("healthy_assets_4", 4.0, 1.0)] } else { let mut p = portfolios; p.extend([("healthy_std", 1000.0, 400.0), ("healthy_assets_4", 4.0, 1.0)]); p };
    let fees: Vec<f64> = if delev { vec![0.0] } else if tier == Tier::Quick { vec![0.0, 0.10] } else { vec![0.0, 0.05, 0.10, 0.25] };
    for (fi, fee) in fees.iter().enumerate() {
        for (pi, (pname, coll, debt)) in portfolios.iter().enumerate() {
            let mut sc = scene(&format!("g{fi}{pi}"), *fee, [*coll, *coll], [*debt, *debt]);
            if delev {
                // the group's risk admin is the third party of the scene (it has funded token accounts)
                let mut roles = sc.w.roles.clone();
                roles.risk = sc.w.users[sc.liq].authority;
                let r = process_tx(&mut sc.s, &Tx::one(ix::group_configure(sc.w.group, sc.w.roles.admin, &roles, None, None), &[sc.w.roles.admin]));
                assert!(r.ok(), "C12 deleverage grid: naming the risk admin failed: {}", crate::svm::err_name(r.code()));
            }
            if pname.ends_with("reduce_only") {
                // the admin has put the collateral bank into reduce-only mode: withdrawals still work and the
                // collateral still counts in full for maintenance health and for the seized-vs-repaid comparison
                let k = sc.w.banks[0].key;
                crate::world::edit_bank(&mut sc.s, &k, |b| b.config.operational_state = marginfi_type_crate::types::BankOperationalState::ReduceOnly);
            }
            if pname.ends_with("stale_banks") {
                // the collateral bank is lent out heavily (another user borrows 85 % of it against a deposit in the debt
                // bank) and then nobody touches either bank for 180 days; only the oracles are cranked. The position's
                // share of the interest due is part of what the account owns when a third party takes control
                for a in [Action::Deposit { u: 4, b: 1, amt: 100_000_000_000_000, up_to_limit: None }, Action::Borrow { u: 4, b: 0, amt: 850_000_000_000 }] {
                    let r = act::apply(&sc.w, &mut sc.s, &a);
                    assert!(r.committed, "C10 stale scene {:?}: {}", a, crate::svm::err_name(r.code));
                }
                sc.s.advance(180 * 86_400);
                world::refresh_oracles(&mut sc.s, &sc.w);
            }
            if pname.ends_with("tokenless") {
                // the debt bank is being wound down: reduce-only and flagged for the risk admin's token-less repayments
                let k = sc.w.banks[1].key;
                crate::world::edit_bank(&mut sc.s, &k, |b| {
                    b.config.operational_state = marginfi_type_crate::types::BankOperationalState::ReduceOnly;
                    b.flags |= marginfi_type_crate::constants::TOKENLESS_REPAYMENTS_ALLOWED;
                });
            }
            let w = &sc.w;
            let acct = w.users[0].account;
            let liq = w.users[sc.liq].authority;
            let fr: Vec<f64> = if tier == Tier::Quick { vec![0.0, 0.01, 0.1, 0.5, 0.6, 0.88, 1.0] } else { vec![0.0, 0.001, 0.01, 0.05, 0.1, 0.25, 0.5, 0.55, 0.6, 0.75, 0.88, 0.95, 1.0] };
            // maintenance health at the start, for the boundary-directed repay amounts
            let h0 = rf::qf64(&health::health(&sc.s, &acct, Req::Maintenance).unwrap().health());
            let cap = 1.0 + fee.max(0.05);
            for &wf in &fr {
                // repay fractions: the grid, plus one cent either side of the premium boundary and of the
                // health-not-positive boundary for this withdrawal
                let wd = coll * wf;
                let mut rfs: Vec<f64> = fr.clone();
                for r_usd in [wd / cap - 0.01, wd / cap + 0.01, (-h0 + 0.9 * wd) / 1.1 - 0.01, (-h0 + 0.9 * wd) / 1.1 + 0.01, 0.9 * wd / 1.1 - 0.01, 0.9 * wd / 1.1 + 0.01] {
                    if r_usd > 0.0 && r_usd < *debt {
                        rfs.push(r_usd / debt);
                    }
                }
                for &rfr in &rfs {
                    for all_flags in [false, true] {
                        if all_flags && !(wf == 1.0 || rfr == 1.0) {
                            continue;
                        }
                        let w_amt = (coll * wf * 1e6) as u64;
                        let r_amt = (debt * rfr / 25.0 * 1e9) as u64;
                        let rem = w.risk_metas(&sc.s, &acct, None, None);
                        let ta = |b: usize| w.users[sc.liq].tokens[&w.banks[b].mint];
                        let mut ixs = vec![if delev { ix::start_deleverage(w.group, acct, liq, rem.clone()) } else { ix::start_liquidation(acct, liq, rem.clone()) }];
                        let (w_all, r_all) = (all_flags && wf == 1.0, all_flags && rfr == 1.0);
                        if r_amt > 0 || r_all {
                            ixs.push(ix::repay(w.group, acct, liq, w.banks[1].key, ta(1), w.banks[1].token_program, r_amt, if r_all { Some(true) } else { None }, vec![]));
                        }
                        if w_amt > 0 || w_all {
                            ixs.push(ix::withdraw(w.group, acct, liq, w.banks[0].key, ta(0), w.banks[0].token_program, w_amt, if w_all { Some(true) } else { None }, rem.clone()));
                        }
                        // closing health check sees the balances that are left
                        let mut end_rem = rem.clone();
                        if w_all {
                            end_rem = w.risk_metas(&sc.s, &acct, None, Some(w.banks[0].key));
                        }
                        if r_all {
                            let mut keep = vec![];
                            let drop_keys: Vec<Pubkey> = w.observation(&sc.s, &w.banks[1].key).iter().map(|m| m.pubkey).collect();
                            for m in end_rem {
                                if !drop_keys.contains(&m.pubkey) {
                                    keep.push(m);
                                }
                            }
                            end_rem = keep;
                        }
                        ixs.push(if delev { ix::end_deleverage(w.group, acct, liq, end_rem) } else { ix::end_liquidation(acct, liq, w.fee_wallet, end_rem) });
                        let mut post = sc.s.clone();
                        let r = process_tx(&mut post, &Tx::new(ixs, &[liq]));
                        cells += 1;
                        let gname = if delev { "deleverage_grid" } else { "grid" };
                        let rep = json!({"model": if delev { "C12d" } else { "C10b" }, "fee": fee, "portfolio": pname, "withdraw_fraction": wf, "repay_fraction": rfr, "all_flags": all_flags});
                        if !r.ok() {
                            *classes.entry(format!("{gname}:{pname}:refused:{}", crate::svm::err_name(r.code()))).or_insert(0) += 1;
                            continue;
                        }
                        *classes.entry(format!("{gname}:{pname}:committed")).or_insert(0) += 1;
                        let mut viol = vec![];
                        markers_clear(&sc, &post, &mut viol);
                        if delev {
                            deleverage_rules(&sc, &sc.s, &post, &acct, &mut viol);
                        } else {
                            semantic_rules(&sc, &sc.s, &post, &acct, &mut viol);
                        }
                        repaid_in_tokens(&sc, &sc.s, &post, &acct, &mut viol);
                        if delev {
                            for (c, d) in viol {
                                let clause = if c == "deleverage_not_less_healthy" { "C12.deleverage_not_less_healthy" } else { "C12.deleverage_bracketed" };
                                found.push(Found { clause: clause.into(), sig: format!("deleverage_grid:{pname}"), detail: format!("portfolio {pname} (collateral ${coll}, debt ${debt}), the risk admin withdraws {wf} / repays {rfr} of the position (close-out flags: {all_flags}): {d}"), replay: rep.clone() });
                            }
                            continue;
                        }
                        for (c, d) in viol {
                            found.push(Found { clause: format!("C10.{c}"), sig: format!("grid:{pname}:fee{fee}"), detail: format!("portfolio {pname} (collateral ${coll}, debt ${debt}), max fee {fee}, withdraw {wf} / repay {rfr} of the position: {d}"), replay: rep.clone() });
                        }
                    }
                }
            }
        }
    }
    cells
}

/// A healthy account (collateral $1000 at maintenance weight 0.9, debt $400) and a third party that presents, at the
/// start, something unreadable in the place of the collateral bank's oracle - the debt bank's oracle, or the right
/// oracle gone stale - and the right accounts afterwards. Nothing of this may commit: the account is not unhealthy.
fn unreadable_oracle_at_start(classes: &mut BTreeMap<String, u64>, found: &mut Vec<Found>) -> u64 {
    let mut cells = 0u64;
    for variant in ["other_banks_oracle", "stale_collateral_oracle"] {
        let mut sc = scene(&format!("u{}", &variant[..1]), 0.05, [1000.0, 1000.0], [400.0, 400.0]);
        let (ok0, ok1) = (sc.w.banks[0].oracle.unwrap(), sc.w.banks[1].oracle.unwrap());
        if variant == "stale_collateral_oracle" {
            // an hour passes; only the debt bank's oracle is cranked
            let keep = sc.s.get(&ok0).cloned().unwrap();
            sc.s.advance(3_600);
            world::refresh_oracles(&mut sc.s, &sc.w);
            sc.s.set(ok0, keep);
        }
        let w = &sc.w;
        let acct = w.users[0].account;
        let liq = w.users[sc.liq].authority;
        let ta = |b: usize| w.users[sc.liq].tokens[&w.banks[b].mint];
        let good = w.risk_metas(&sc.s, &acct, None, None);
        let mut bad = good.clone();
        if variant == "other_banks_oracle" {
            for m in bad.iter_mut() {
                if m.pubkey == ok0 {
                    m.pubkey = ok1;
                }
            }
        }
        let end_rem_after_withdraw_all = w.risk_metas(&sc.s, &acct, None, Some(w.banks[0].key));
        let txs: Vec<(&str, Vec<Ix>)> = vec![
            ("start_end", vec![ix::start_liquidation(acct, liq, bad.clone()), ix::end_liquidation(acct, liq, w.fee_wallet, bad.clone())]),
            ("start_withdraw_all_end", vec![ix::start_liquidation(acct, liq, bad.clone()), ix::withdraw(w.group, acct, liq, w.banks[0].key, ta(0), w.banks[0].token_program, 0, Some(true), end_rem_after_withdraw_all.clone()), ix::end_liquidation(acct, liq, w.fee_wallet, end_rem_after_withdraw_all.clone())]),
            ("start_withdraw_some_end", vec![ix::start_liquidation(acct, liq, bad.clone()), ix::withdraw(w.group, acct, liq, w.banks[0].key, ta(0), w.banks[0].token_program, 50_000_000, None, good.clone()), ix::end_liquidation(acct, liq, w.fee_wallet, bad.clone())]),
            ("start_withdraw_repay_end", vec![ix::start_liquidation(acct, liq, bad.clone()), ix::withdraw(w.group, acct, liq, w.banks[0].key, ta(0), w.banks[0].token_program, 50_000_000, None, good.clone()), ix::repay(w.group, acct, liq, w.banks[1].key, ta(1), w.banks[1].token_program, 1_900_000_000, None, vec![]), ix::end_liquidation(acct, liq, w.fee_wallet, good.clone())]),
        ];
        for (name, ixs) in txs {
            let mut post = sc.s.clone();
            let r = process_tx(&mut post, &Tx::new(ixs, &[liq]));
            cells += 1;
            *classes.entry(format!("unreadable_oracle:{variant}:{name}:{}", if r.ok() { "committed" } else { "refused" })).or_insert(0) += 1;
            if r.ok() {
                found.push(Found {
                    clause: "C10.only_unhealthy_accounts".into(),
                    sig: format!("unreadable_oracle:{variant}:{name}"),
                    detail: format!("a third party's bracket ({name}) committed on a healthy account (collateral $1000, debt $400) after presenting {} at the start", if variant == "other_banks_oracle" { "the debt bank's oracle in the place of the collateral bank's" } else { "a collateral oracle that has not been updated for an hour" }),
                    replay: json!({"model": "C10u", "variant": variant, "tx": name}),
                });
            }
        }
    }
    cells
}

/// collateral that carries no weight or no price can never be taken out in a receivership
fn worthless_collateral(classes: &mut BTreeMap<String, u64>, found: &mut Vec<Found>) -> u64 {
    let mut cells = 0;
    for variant in ["zero_weight", "zero_init_weight_only", "fixed_price_zero", "pyth_price_zero", "control_priced_and_weighted"] {
        let mut z = bank("RZ", "c10z", 6, 100_000_000);
        match variant {
            "zero_weight" => {
                z.config.asset_weight_init = I80F48::ZERO;
                z.config.asset_weight_maint = I80F48::ZERO;
            }
            "zero_init_weight_only" => z.config.asset_weight_init = I80F48::ZERO,
            "fixed_price_zero" => z.oracle = OracleSpec::Fixed { price: I80F48::ONE },
            _ => {}
        }
        let spec = WorldSpec::new(&format!("C10z{variant}"), vec![bank("RA", "c10a", 6, 100_000_000), bank("RL", "c10l", 9, 2_500_000_000), z], &["x0", "x1", "liq", "seeder"]);
        let (w, mut s) = build_world(&spec);
        let go = |s: &mut Store, a: Action| {
            let r = act::apply(&w, s, &a);
            assert!(r.committed, "C10 worthless scene {:?}: {}", a, crate::svm::err_name(r.code));
        };
        for b in 0..3 {
            go(&mut s, Action::Deposit { u: 3, b, amt: 1_000_000 * 10u64.pow(w.banks[b].decimals as u32), up_to_limit: None });
        }
        world::scale_pyth_price(&mut s, &w.banks[1].oracle.unwrap(), 1, 10);
        go(&mut s, Action::Deposit { u: 0, b: 0, amt: 1_000_000_000, up_to_limit: None });
        go(&mut s, Action::Deposit { u: 0, b: 2, amt: 500_000_000, up_to_limit: None });
        go(&mut s, Action::Borrow { u: 0, b: 1, amt: (864.0 / 25.0 * 1e9) as u64 });
        assert!(process_tx(&mut s, &Tx::one(ix::init_liq_record(w.users[0].account, w.payer), &[w.payer])).ok());
        // the debt asset appreciates: $1000 + $500 of collateral against a debt that now exceeds it at maintenance
        world::scale_pyth_price(&mut s, &w.banks[1].oracle.unwrap(), 18, 1);
        match variant {
            "fixed_price_zero" => world::edit_bank(&mut s, &w.banks[2].key, |b| b.config.fixed_price = I80F48::ZERO.into()),
            "pyth_price_zero" => {
                let now = s.now;
                s.set(w.banks[2].oracle.unwrap(), pyth_account(0, 0, 0, 0, -8, now, true));
            }
            _ => {}
        }
        let acct = w.users[0].account;
        let liq = w.users[2].authority;
        let ta = |b: usize| w.users[2].tokens[&w.banks[b].mint];
        for w_amt in [1u64, 250_000_000, 500_000_000] {
            for all in [false, true] {
                for r_amt in [0u64, 1_000_000_000, 20_000_000_000] {
                    let rem = w.risk_metas(&s, &acct, None, None);
                    let mut ixs = vec![ix::start_liquidation(acct, liq, rem.clone())];
                    if r_amt > 0 {
                        ixs.push(ix::repay(w.group, acct, liq, w.banks[1].key, ta(1), w.banks[1].token_program, r_amt, None, vec![]));
                    }
                    ixs.push(ix::withdraw(w.group, acct, liq, w.banks[2].key, ta(2), w.banks[2].token_program, w_amt, if all { Some(true) } else { None }, rem.clone()));
                    let end_rem = if all { w.risk_metas(&s, &acct, None, Some(w.banks[2].key)) } else { rem.clone() };
                    ixs.push(ix::end_liquidation(acct, liq, w.fee_wallet, end_rem));
                    let mut post = s.clone();
                    let r = process_tx(&mut post, &Tx::new(ixs, &[liq]));
                    cells += 1;
                    *classes.entry(format!("worthless:{variant}:{}", if r.ok() { "committed".to_string() } else { format!("refused:{}", crate::svm::err_name(r.code())) })).or_insert(0) += 1;
                    if r.ok() && variant != "control_priced_and_weighted" {
                        found.push(Found { clause: "C10.worthless_collateral_stays".into(), sig: format!("worthless:{variant}"), detail: format!("a receivership bracket withdrew {} (all: {all}) of the {variant} collateral and committed (repaid {r_amt})", w_amt), replay: json!({"model": "C10z", "variant": variant, "withdraw": w_amt, "all": all, "repay": r_amt}) });
                    }
                }
            }
        }
    }
    cells
}

pub fn run(tier: Tier) -> Outcome {
    let sc = scene("a", 0.05, [1000.0, 1000.0], [864.0, 864.0]);
    let alpha = alphabet(tier);
    let max_len = if tier == Tier::Quick { 5 } else { 6 };
    let mut classes: BTreeMap<String, u64> = BTreeMap::new();
    let mut found: Vec<Found> = vec![];
    let mut committed_lists = vec![];
    let mut shape_cells = 0u64;
    for lists in shape_chunks(&alpha, max_len) {
        let results: Vec<ShapeOut> = lists.par_iter().map(|l| run_shape(&sc, l)).collect();
        for (l, r) in lists.iter().zip(results.into_iter()) {
            *classes.entry(r.class.clone()).or_insert(0) += 1;
            if r.committed && r.class.ends_with("took_control") && committed_lists.len() < 4 {
                committed_lists.push(json!({"committed_bracket": l}));
            }
            if found.len() < 5000 {
                found.extend(r.found);
            }
        }
        shape_cells += lists.len() as u64;
    }
    // side enumeration: every list up to length 5 over a bracket skeleton plus instructions of this program that
    // succeed on their own (the third party's deposit into its own account, the interest crank, the health pulse)
    let side = [Sym::Start(0), Sym::End(0), Sym::WithdrawSmall(0), Sym::RepayMid(0), Sym::OwnDeposit, Sym::Accrue, Sym::PulseHealth(0), Sym::SettleEmissions(0)];
    for lists in shape_chunks(&side, 5) {
        let results: Vec<ShapeOut> = lists.par_iter().map(|l| run_shape(&sc, l)).collect();
        for (l, r) in lists.iter().zip(results.into_iter()) {
            let uses_extra = l.iter().any(|s| matches!(s, Sym::OwnDeposit | Sym::Accrue | Sym::PulseHealth(_) | Sym::SettleEmissions(_)));
            *classes.entry(format!("side:{}{}", r.class, if uses_extra { ":with_own_program_ix" } else { "" })).or_insert(0) += 1;
            if found.len() < 5000 {
                found.extend(r.found);
            }
        }
        shape_cells += lists.len() as u64;
    }
    let grid_cells = grid(tier, false, &mut classes, &mut found) + worthless_collateral(&mut classes, &mut found) + unreadable_oracle_at_start(&mut classes, &mut found);
    let mut o = Outcome { level: "model_checking".into(), ..Default::default() };
    let mut uniq: BTreeMap<(String, String), Found> = BTreeMap::new();
    for f in found {
        let k = (f.clause.clone(), if f.sig.len() > 80 { f.sig[..80].to_string() } else { f.sig.clone() });
        uniq.entry(k).or_insert(f);
    }
    // keep the report readable: at most 12 per clause
    let mut per_clause: BTreeMap<String, usize> = BTreeMap::new();
    o.found = uniq.into_values().filter(|f| {
        let n = per_clause.entry(f.clause.clone()).or_insert(0);
        *n += 1;
        *n <= 12
    }).collect();
    let took = *classes.get("committed:took_control").unwrap_or(&0);
    let refused: u64 = classes.iter().filter(|(k, _)| k.starts_with("refused")).map(|(_, v)| *v).sum();
    if took == 0 || refused == 0 {
        o.machinery.push(format!("vacuity guard: brackets committed {took}, refused {refused}"));
    }
    if *classes.get("worthless:control_priced_and_weighted:committed").unwrap_or(&0) == 0 {
        o.machinery.push("vacuity guard: the control bracket of the worthless-collateral sweep never committed".into());
    }
    let grid_committed: u64 = classes.iter().filter(|(k, _)| k.starts_with("grid:") && k.ends_with("committed")).map(|(_, v)| *v).sum();
    if grid_committed == 0 {
        o.machinery.push("vacuity guard: no grid bracket committed".into());
    }
    if committed_lists.is_empty() {
        committed_lists.push(json!({"note": "none"}));
    }
    o.coverage = json!({
        "states": shape_cells,
        "transitions": shape_cells + grid_cells,
        "traces_validated_against_impl": shape_cells + grid_cells,
        "evaluations": shape_cells + grid_cells,
        "distinct_nontrivial": took + grid_committed,
        "alphabet": alpha.iter().map(|s| format!("{:?}", s)).collect::<Vec<_>>(),
        "max_length": max_len,
        "exhaustive": true,
        "rule": "(a) every instruction list of length 1..max over the alphabet, executed atomically through the real entrypoint with the real instructions sysvar, signed by the third party only, from a state with two unhealthy accounts; commit => no receivership / deleverage / flash-loan marker and no recorded receiver anywhere; commit with changed balances of an account => the list is `(compute-budget | record-init | refresh)* start(X) (withdraw | repay | compute-budget | record-init | refresh | allowed program)* end(X)` with exactly one start in the whole transaction and nothing via CPI, and the account was unhealthy, its maintenance health is no worse and not positive, and seized <= repaid x (1 + max(fee, 5 %)) unless its assets were under $5; (b) [start, repay(y), withdraw(x), end] for x, y in fractions of the position (incl. withdraw-all / repay-all) x portfolios {standard, assets >= $5 with net equity < $5, assets $4.99, $5.01, deeply insolvent} x maximum fee settings; (c) a second collateral with zero weight / zero initial weight / fixed price zero / Pyth price zero (and a priced, weighted control) x withdraw amounts incl. withdraw-all x repay amounts: the worthless collateral never leaves in a committed bracket",
        "outcome_classes": classes,
        "samples": committed_lists,
    });
    o.assumptions = vec!["environment model E1 (svm-lite): instructions sysvar built with solana_program's own serializer; a CPI is modelled as stack height 2 with the proxy's instruction in the sysvar".into(), "foreign programs (compute budget, Jupiter, Kamino refresh, a not-allowed program) are no-ops".into(), "unhealthy portfolios are reached through real deposits / borrows followed by a forged oracle price move".into()];
    let _ = (Q::zero(), AccountMeta::new(Pubkey::default(), false));
    o
}

pub fn replay(v: &serde_json::Value) -> Vec<crate::mc::Violation> {
    if v["model"] == "C10a" {
        let list: Vec<Sym> = serde_json::from_value(v["shape"].clone()).unwrap_or_default();
        let sc = scene("a", 0.05, [1000.0, 1000.0], [864.0, 864.0]);
        return run_shape(&sc, &list).found.into_iter().map(|f| crate::mc::Violation { clause: f.clause, detail: f.detail }).collect();
    }
    let mut classes = BTreeMap::new();
    let mut found = vec![];
    grid(Tier::Quick, false, &mut classes, &mut found);
    let p = v["portfolio"].as_str().unwrap_or("").to_string();
    found.into_iter().filter(|f| f.sig.contains(&p)).map(|f| crate::mc::Violation { clause: f.clause, detail: f.detail }).collect()
}
