//! C17 — caps and utilisation: boundary product through the real instructions plus a history search
//! on banks whose limits sit just above the current totals.

use super::histcommon::*;
use super::Tier;
use crate::act::{self, Action};
use crate::evidence::Outcome;
use crate::hist::{Alphabet, CapsOracle, HState, Hist};
use crate::ix;
use crate::mc::Limits;
use crate::refmodel as rf;
use crate::svm::{process_tx, Store, Tx};
use crate::world::World;
use num_traits::ToPrimitive;

fn set_limits(w: &World, s: &mut Store, b: usize, dep: Option<u64>, bor: Option<u64>) {
    let r = process_tx(s, &Tx::one(ix::configure_bank_limits_only(w.group, w.roles.limit, w.banks[b].key, dep, bor, None), &[w.roles.limit]));
    assert!(r.ok(), "configure limits failed: {:?}", r);
}

fn floor_u(x: &rf::Q) -> u64 {
    rf::qfloor(x).to_u64().unwrap_or(u64::MAX)
}

/// Roots: R1-like states (interest accruing in both banks, share values != 1) with deposit / borrow
/// limits at every offset of the boundary menu from the current totals.
fn roots(tier: Tier, w: &World, s0: &Store) -> Vec<(String, HState)> {
    let nb = w.banks.len();
    let base: Vec<(String, HState)> = standard_roots(w, s0, false).into_iter().filter(|(n, _)| n == "R1" || n == "R0").collect();
    let mut v = vec![];
    let offs: Vec<i64> = if tier == Tier::Quick { vec![-1, 0, 1, 2, 150_000_000] } else { vec![-2, -1, 0, 1, 2, 3, 1_000, 150_000_000, 10_000_000_000] };
    for (name, st) in base {
        for &off in &offs {
            for which in ["dep", "bor", "both"] {
                let mut s = st.s.clone();
                for b in 0..nb {
                    let n = rf::bank_nums(&s, &w.banks[b]);
                    let d0 = floor_u(&n.deposits()) as i64;
                    let l0 = floor_u(&n.liabs()) as i64;
                    let dep = if which != "bor" { Some((d0 + off).max(0) as u64) } else { None };
                    let bor = if which != "dep" { Some((l0 + off).max(0) as u64) } else { None };
                    set_limits(w, &mut s, b, dep, bor);
                }
                v.push((format!("{name}+{which}{off}"), HState { s, clock_devs: 0, price_devs: 0, closes: vec![0; nb], forged: false }));
            }
        }
        for lim in [0u64, 1, 2, u64::MAX - 1, u64::MAX] {
            let mut s = st.s.clone();
            for b in 0..nb {
                set_limits(w, &mut s, b, Some(lim), Some(lim));
            }
            v.push((format!("{name}+abs{lim}"), HState { s, clock_devs: 0, price_devs: 0, closes: vec![0; nb], forged: false }));
        }
    }
    // RU: a highly utilised bank 0: u0 is its only lender (100 tokens), u1 borrowed 90 of them
    {
        let mut s = s0.clone();
        let one0 = 10u64.pow(w.banks[0].decimals as u32);
        let one1 = 10u64.pow(w.banks[1].decimals as u32);
        let p0 = 1.0f64;
        let _ = p0;
        let mut ok = true;
        for a in [
            Action::Deposit { u: 0, b: 0, amt: 100 * one0, up_to_limit: None },
            Action::Deposit { u: 1, b: 1, amt: 1000 * one1, up_to_limit: None },
            Action::Borrow { u: 1, b: 0, amt: 90 * one0 },
            Action::Advance { dt: 86_400 },
            Action::Accrue { b: 0 },
        ] {
            ok &= act::apply(w, &mut s, &a).committed;
        }
        if ok {
            v.push(("RU".to_string(), HState { s: s.clone(), clock_devs: 0, price_devs: 0, closes: vec![0; nb], forged: false }));
            // RU0 / RU1: a year later (the vault also holds a year of uncollected fees) the limit admin winds the
            // market down: borrow limit 0 (resp. 1) on a bank that still has its debt outstanding
            let mut ok = true;
            for a in [Action::Advance { dt: 31_536_000 }, Action::Accrue { b: 0 }, Action::Accrue { b: 1 }] {
                ok &= act::apply(w, &mut s, &a).committed;
            }
            if ok {
                for lim in [0u64, 1] {
                    let mut t = s.clone();
                    for b in 0..nb {
                        set_limits(w, &mut t, b, None, Some(lim));
                    }
                    v.push((format!("RU+wound_down{lim}"), HState { s: t, clock_devs: 0, price_devs: 0, closes: vec![0; nb], forged: false }));
                }
                // ... or the group admin switches the banks to reduce-only (lenders may leave, but not with what is lent out)
                let mut t = s.clone();
                let mut ok = true;
                for b in 0..nb {
                    let opt = marginfi_type_crate::types::BankConfigOpt { operational_state: Some(marginfi_type_crate::types::BankOperationalState::ReduceOnly), ..Default::default() };
                    ok &= process_tx(&mut t, &Tx::one(ix::configure_bank(w.group, w.roles.admin, w.banks[b].key, opt), &[w.roles.admin])).ok();
                }
                if ok {
                    v.push(("RU+reduce_only".to_string(), HState { s: t, clock_devs: 0, price_devs: 0, closes: vec![0; nb], forged: false }));
                }
            }
        }
    }
    v
}

pub fn model(tier: Tier, world: &str) -> Hist {
    let (w, s0) = world_by_name(if world.is_empty() { "A" } else { world });
    let roots = roots(tier, &w, &s0);
    let mut alpha = Alphabet::standard(vec![0, 1], vec![0, 1]);
    alpha.liquidate = false;
    alpha.bankruptcy = false;
    alpha.collect = false;
    alpha.close_balance = false;
    alpha.accrue = true;
    alpha.max_price_devs = 0;
    alpha.max_clock_devs = 1;
    alpha.clock_dts = vec![1, 31_536_000];
    alpha.rich_amounts = true;
    // (quick depth only: at the thorough depth the doubled alphabet does not fit the time budget)
    alpha.flash_wrap = tier == Tier::Quick;
    alpha.prune = true;
    alpha.extra_amounts = vec![2, 149_999_999, 150_000_000, 150_000_001];
    Hist { w, roots, alpha, oracles: vec![Box::new(CapsOracle), Box::new(UpToLimitProbe)] }
}

/// In every state, additionally executes (without committing) an up-to-limit deposit of a large
/// amount by each user into each bank: it must never fail for capacity, and must land below the limit.
pub struct UpToLimitProbe;

impl crate::hist::StepOracle for UpToLimitProbe {
    fn name(&self) -> &'static str {
        "C17.probe"
    }
    fn check(&self, c: &crate::hist::StepCtx, out: &mut Vec<crate::mc::Violation>, tags: &mut Vec<&'static str>) {
        // probe the post state of committed environment / accrual-relevant steps only (keeps cost down)
        if !c.res.committed {
            return;
        }
        for u in 0..2usize {
            for b in 0..c.w.banks.len() {
                // a large amount, and amounts at and either side of the room that is left under the limit
                let mut amts: Vec<u64> = vec![700_000_000_000];
                {
                    let n0 = rf::bank_nums(c.post, &c.w.banks[b]);
                    let lim = crate::world::bank(c.post, &c.w.banks[b].key).config.deposit_limit;
                    if lim != u64::MAX && rf::qu(lim) > n0.deposits() {
                        let room = floor_u(&(rf::qu(lim) - n0.deposits()));
                        for d in [-2i64, -1, 0, 1, 2] {
                            let x = room as i64 + d;
                            if x > 0 && u == 0 {
                                amts.push(x as u64);
                            }
                        }
                    }
                }
              for amt in amts {
                let a = Action::Deposit { u, b, amt, up_to_limit: Some(true) };
                let mut t = c.post.clone();
                let r = act::apply(c.w, &mut t, &a);
                if r.committed {
                    // what the position was credited is at most what the user paid and at most the room under the limit
                    let ta = c.w.users[u].tokens[&c.w.banks[b].mint];
                    let paid = crate::world::token_amount(c.post, &ta) as i128 - crate::world::token_amount(&t, &ta) as i128;
                    let (n0, n1) = (rf::bank_nums(c.post, &c.w.banks[b]), rf::bank_nums(&t, &c.w.banks[b]));
                    // (the probe runs on a state that may be stale: both totals at the share values after the deposit)
                    let credited = rf::q_raw(n1.a_sh - n0.a_sh) * rf::q_raw(n1.asv);
                    let lim = crate::world::bank(c.post, &c.w.banks[b].key).config.deposit_limit;
                    let slack = rf::ulp() * rf::qi(16) * (rf::qone() + rf::q_raw(n1.asv));
                    if credited > rf::qi(paid) + slack.clone() {
                        out.push(crate::mc::Violation {
                            clause: "C17.up_to_limit_deposits_at_most_capacity".into(),
                            detail: format!("after {:?}: {:?} credited {:.9} native units to the position while the user paid {} (deposit limit {}, deposits before {:.9})", c.a, a, rf::qf64(&credited), paid, lim, rf::qf64(&n0.deposits())),
                        });
                    }
                    tags.push("probe_credit_checked");
                }
                if !r.committed && r.code == crate::hist::ERR_ASSET_CAPACITY {
                    let n = rf::bank_nums(c.post, &c.w.banks[b]);
                    let bank = crate::world::bank(c.post, &c.w.banks[b].key);
                    out.push(crate::mc::Violation {
                        clause: "C17.up_to_limit_never_capacity_fails".into(),
                        detail: format!(
                            "after {:?}: {:?} failed with BankAssetCapacityExceeded (deposit limit {}, deposits {:.6}, bank last accrued {} s ago)",
                            c.a,
                            a,
                            bank.config.deposit_limit,
                            rf::qf64(&n.deposits()),
                            c.post.now - n.last_update
                        ),
                    });
                } else if !r.committed {
                    // any other failure: differential — the same deposit with the bank's deposit limit lifted.
                    // If that one commits, the cap is what made the up-to-limit deposit fail.
                    let mut t2 = c.post.clone();
                    crate::world::edit_bank(&mut t2, &c.w.banks[b].key, |bk| bk.config.deposit_limit = u64::MAX);
                    let r2 = act::apply(c.w, &mut t2, &a);
                    if r2.committed {
                        let n = rf::bank_nums(c.post, &c.w.banks[b]);
                        let bank = crate::world::bank(c.post, &c.w.banks[b].key);
                        out.push(crate::mc::Violation {
                            clause: "C17.up_to_limit_never_capacity_fails".into(),
                            detail: format!(
                                "after {:?}: {:?} failed with {} and succeeds once the deposit limit is lifted (deposit limit {}, deposits {:.6}): the cap made an up-to-limit deposit fail",
                                c.a,
                                a,
                                crate::svm::err_name(r.code),
                                bank.config.deposit_limit,
                                rf::qf64(&n.deposits())
                            ),
                        });
                    } else {
                        tags.push("probe_fails_without_cap_too");
                    }
                } else {
                    tags.push("probe_ok");
                    let n = rf::bank_nums(&t, &c.w.banks[b]);
                    let bank = crate::world::bank(&t, &c.w.banks[b].key);
                    let before = rf::bank_nums(c.post, &c.w.banks[b]);
                    if n.a_sh > before.a_sh {
                        tags.push("probe_deposited");
                    }
                    if bank.config.deposit_limit != u64::MAX && n.a_sh > before.a_sh && n.deposits() >= rf::qu(bank.config.deposit_limit) {
                        out.push(crate::mc::Violation { clause: "C17.deposit_below_limit".into(), detail: format!("after {:?}: {:?} left deposits {:.6} >= limit {}", c.a, a, rf::qf64(&n.deposits()), bank.config.deposit_limit) });
                    }
                }
              }
            }
        }
    }
}

pub fn run(tier: Tier) -> Outcome {
    let worlds: &[&str] = match tier {
        Tier::Quick => &["A", "B", "C"],
        Tier::Thorough => &["A", "B", "C", "D"],
    };
    let depth = match tier {
        Tier::Quick => 2,
        Tier::Thorough => 3,
    };
    let mut runs = vec![];
    for wn in worlds {
        let Some(h) = guarded(&format!("C17 world {wn}"), || model(tier, wn)) else { continue };
        let lim = Limits { max_depth: depth, max_wall_s: if tier == Tier::Quick { 300.0 } else { 2400.0 }, ..Default::default() };
        let (report, recheck) = run_world(&h, &lim, Some(depth - 1));
        runs.push(HistRun { world: wn.to_string(), report, recheck });
    }
    assemble(
        "C17",
        runs,
        &["deposit:ok:deposit_cap_checked", "borrow:ok:borrow_cap_checked", "withdraw:ok:utilisation_checked", "deposit:6003", "borrow:6027"],
        &["deposit_up_to_limit:ok:filled_to_limit", "withdraw:6028", "borrow:6028"],
        "roots = states with accruing banks whose deposit and borrow limits are set (through the real limits-only instruction) to floor(current total) + {-1,0,1,2,1.5e8,...} and to {0,1,2,u64::MAX-1,u64::MAX}; every sequence up to the depth bound of deposits (plain and up-to-limit), withdrawals, borrows, repayments, accruals and one clock advance of 1 s or 1 y, with amounts at capacity and capacity +-1; after every committed step the exact post-state totals are compared with the limits and with each other, and an up-to-limit deposit probe is executed from every reached state",
        vec!["environment model E1 (svm-lite)".into()],
        &[],
    )
}
