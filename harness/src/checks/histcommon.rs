//! Worlds, roots and the run/replay plumbing shared by the history checks.

use crate::ix;
use crate::act::{self, Action};
use crate::evidence::{Found, Outcome};
use crate::hist::{HState, Hist};
use crate::mc::{self, Limits, Model, Report, Violation};
use crate::svm::Store;
use crate::world::*;
use fixed::types::I80F48;
use serde_json::{json, Value};

pub fn spec_b6() -> BankSpec {
    BankSpec { label: "B6".into(), mint: MintSpec::spl("usdc", 6), oracle: OracleSpec::pyth_usd(100_000_000), config: BankCfg::default() }
}
pub fn spec_b9() -> BankSpec {
    let mut c = BankCfg::default();
    c.ir.protocol_origination_fee = I80F48::from_num(0.01);
    BankSpec { label: "B9".into(), mint: MintSpec::spl("sol", 9), oracle: OracleSpec::pyth_usd_conf(10_000_000_000, 50_000_000), config: c }
}
pub fn spec_bf(bps: u16, max: u64) -> BankSpec {
    BankSpec {
        label: format!("BF{}_{}", bps, max),
        mint: MintSpec::t22(&format!("fee{}_{}", bps, max), 6, Some((bps, max))),
        oracle: OracleSpec::pyth_usd(200_000_000),
        config: BankCfg::default(),
    }
}
pub fn spec_bt() -> BankSpec {
    BankSpec {
        label: "BT".into(),
        mint: MintSpec::t22("t22plain", 8, None),
        oracle: OracleSpec::Swb { value: 5_000_000_000_000_000_000, std_dev: 10_000_000_000_000_000 },
        config: BankCfg::default(),
    }
}

pub fn world_by_name(name: &str) -> (World, Store) {
    let banks = match name {
        "A" => vec![spec_b6(), spec_b9()],
        "B" => vec![spec_b6(), spec_bf(100, 5000)],
        "C" => vec![spec_bf(10000, 7), spec_bt()],
        "D" => vec![spec_b9(), spec_bf(1, 1)],
        // world A in a group for which the global fee admin switched the program fees off (the global fee state
        // still carries a non-zero program fee)
        "G" => vec![spec_b6(), spec_b9()],
        _ => panic!("unknown world {name}"),
    };
    let mut spec = WorldSpec::new(&format!("H{name}"), banks, &["u0", "u1", "seeder", "u3"]);
    if name == "G" {
        spec.program_fees_enabled = false;
    }
    build_world(&spec)
}

pub fn whole(w: &World, b: usize, n: u64) -> u64 {
    n * 10u64.pow(w.banks[b].decimals as u32)
}

/// Root constructions that did not go through on this tree. On the unchanged tree there are none; on a
/// changed tree a root may be unbuildable because the program now misbehaves on the way to it: the remaining
/// roots are still explored (a violation found there is the verdict), and the failures are reported as a
/// machinery failure otherwise.
pub static ROOT_FAILURES: std::sync::Mutex<Vec<String>> = std::sync::Mutex::new(Vec::new());

fn root_failure(msg: String) {
    let mut g = ROOT_FAILURES.lock().unwrap();
    if !g.contains(&msg) {
        g.push(msg);
    }
}

/// Builds a model under `catch_unwind`: a panic while constructing the worlds / roots (an assertion of the
/// harness about a step that always succeeds on the unchanged tree) is recorded like an unbuildable root.
pub fn guarded<T>(what: &str, f: impl FnOnce() -> T) -> Option<T> {
    match std::panic::catch_unwind(std::panic::AssertUnwindSafe(f)) {
        Ok(v) => Some(v),
        Err(e) => {
            let msg = e.downcast_ref::<String>().cloned().or_else(|| e.downcast_ref::<&str>().map(|s| s.to_string())).unwrap_or_default();
            root_failure(format!("model construction {what} panicked: {}", msg.chars().take(300).collect::<String>()));
            None
        }
    }
}

#[must_use]
fn do_all(w: &World, s: &mut Store, acts: &[Action], what: &str) -> bool {
    for a in acts {
        let r = act::apply(w, s, a);
        if !r.committed {
            root_failure(format!("root construction {what}: {:?} failed with {} {:?}", a, crate::svm::err_name(r.code), crate::svm::last_panic()));
            return false;
        }
    }
    true
}

/// price of one whole token of bank b in dollars (from the spec used above)
fn dollar_amount(w: &World, s: &Store, b: usize, dollars_x100: u64) -> u64 {
    // native amount worth dollars_x100/100 dollars at the oracle's current price
    let bk = bank(s, &w.banks[b].key);
    let one = 10u128.pow(w.banks[b].decimals as u32);
    let price_e8: u128 = match w.banks[b].oracle {
        Some(o) => {
            let a = s.get(&o).unwrap();
            if a.owner == pyth_solana_receiver_sdk::id() {
                let vl = if a.data[40] == 1 { 1 } else { 2 };
                let off = 8 + 32 + vl + 32;
                i64::from_le_bytes(a.data[off..off + 8].try_into().unwrap()) as u128
            } else {
                let feed: switchboard_on_demand::PullFeedAccountData = bytemuck::pod_read_unaligned(&a.data[8..8 + std::mem::size_of::<switchboard_on_demand::PullFeedAccountData>()]);
                (feed.result.value / 10_000_000_000) as u128
            }
        }
        None => (I80F48::from(bk.config.fixed_price) * I80F48::from_num(100_000_000)).to_num::<u128>(),
    };
    ((dollars_x100 as u128) * one * 1_000_000 / price_e8.max(1)) as u64
}

/// Roots R0..R4 of the solvency/ledger history model (see DESIGN.md §6 C01).
pub fn standard_roots(w: &World, s0: &Store, with_forged: bool) -> Vec<(String, HState)> {
    let nb = w.banks.len();
    let mk = |s: Store, forged: bool| HState { s, clock_devs: 0, price_devs: 0, closes: vec![0; nb], forged };
    let mut roots = vec![];
    let seeder = 2usize;

    // R0: seeded banks, users without positions; insurance vaults hold a little
    let mut r0 = s0.clone();
    let mut ok0 = true;
    for b in 0..nb {
        ok0 &= do_all(w, &mut r0, &[Action::Deposit { u: seeder, b, amt: whole(w, b, 1000) + 1, up_to_limit: None }], "R0 seed");
    }
    if !ok0 {
        return roots;
    }
    roots.push(("R0".to_string(), mk(r0.clone(), false)));

    // R1: share values != 1 and non-zero fee buckets: u0 lends bank0, borrows bank1; a year passes
    let mut r1 = r0.clone();
    let coll = dollar_amount(w, &r1, 0, 50_000); // $500
    let debt = dollar_amount(w, &r1, 1, 20_000); // $200
    let ok1 = do_all(
        w,
        &mut r1,
        &[
            Action::Deposit { u: 0, b: 0, amt: coll, up_to_limit: None },
            Action::Borrow { u: 0, b: 1, amt: debt },
            Action::Deposit { u: 1, b: 1, amt: dollar_amount(w, &r0, 1, 30_000), up_to_limit: None },
            Action::Borrow { u: 1, b: 0, amt: dollar_amount(w, &r0, 0, 7_777) },
            Action::Advance { dt: 31_536_000 },
            Action::Accrue { b: 0 },
            Action::Accrue { b: 1 },
        ],
        "R1",
    );
    if ok1 {
        roots.push(("R1".to_string(), mk(r1.clone(), false)));

        // R2: u0 is underwater after the debt asset tripled
        let mut r2 = r1.clone();
        if do_all(w, &mut r2, &[Action::SetPrice { b: 1, num: 3, den: 1 }], "R2") {
            roots.push(("R2".to_string(), mk(r2, false)));
        }
    }

    // R3: u0 has (almost) no assets left but still owes: bankruptcy is one step away.
    // small collateral, small debt, debt asset x30, u1 liquidates the whole collateral
    let mut r3 = r0.clone();
    let coll = dollar_amount(w, &r3, 0, 200); // $2
    let debt = dollar_amount(w, &r3, 1, 120); // $1.2
    let ok3 = do_all(
        w,
        &mut r3,
        &[
            Action::Deposit { u: 0, b: 0, amt: coll, up_to_limit: None },
            Action::Borrow { u: 0, b: 1, amt: debt },
            Action::Deposit { u: 1, b: 1, amt: dollar_amount(w, &r0, 1, 100_000), up_to_limit: None },
            Action::Advance { dt: 86_400 * 30 },
            Action::SetPrice { b: 1, num: 30, den: 1 },
        ],
        "R3 prep",
    );
    // liquidate as much collateral as the program allows (whole position, else successively less)
    let pos = if ok3 {
        let a = account(&r3, &w.users[0].account);
        let bk = bank(&r3, &w.banks[0].key);
        a.lending_account.balances.iter().find(|x| x.active != 0 && x.bank_pk == w.banks[0].key).map(|bal| (I80F48::from(bal.asset_shares) * I80F48::from(bk.asset_share_value)).to_num::<u64>()).unwrap_or(0)
    } else {
        0
    };
    let mut ok = false;
    for amt in [pos, pos.saturating_sub(1), pos * 99 / 100, pos * 9 / 10] {
        if amt == 0 {
            continue;
        }
        let mut t = r3.clone();
        if act::apply(w, &mut t, &Action::Liquidate { liquidator: 1, liquidatee: 0, asset: 0, liab: 1, amt }).committed {
            r3 = t;
            ok = true;
            break;
        }
    }
    if ok {
        roots.push(("R3".to_string(), mk(r3.clone(), false)));
        // R3i: same, with an insurance vault that covers only part of the bad debt
        let mut r3i = r3.clone();
        let bad = {
            let a = account(&r3i, &w.users[0].account);
            let bk = bank(&r3i, &w.banks[1].key);
            a.lending_account.balances.iter().find(|x| x.active != 0 && x.bank_pk == w.banks[1].key).map(|bal| (I80F48::from(bal.liability_shares) * I80F48::from(bk.liability_share_value)).to_num::<u64>()).unwrap_or(0)
        };
        mint_to(&mut r3i, &w.mint_auth, &w.banks[1].mint, &w.banks[1].iv, w.banks[1].t22, bad / 3 + 1);
        roots.push(("R3i".to_string(), mk(r3i, false)));
        if with_forged {
            // R3w: the same account owes one and a half times everything that was deposited in bank 1 (forged debt):
            // the bankruptcy that is one step away wipes the bank out (deposit share value 0, killed)
            let mut r3w = r3.clone();
            let bk = bank(&r3w, &w.banks[1].key);
            let deposits = I80F48::from(bk.total_asset_shares) * I80F48::from(bk.asset_share_value);
            let want_shares = deposits * I80F48::from_num(1.5) / I80F48::from(bk.liability_share_value);
            let mut added = I80F48::ZERO;
            edit_account(&mut r3w, &w.users[0].account, |a| {
                if let Some(bal) = a.lending_account.balances.iter_mut().find(|x| x.active != 0 && x.bank_pk == w.banks[1].key) {
                    added = want_shares - I80F48::from(bal.liability_shares);
                    bal.liability_shares = want_shares.into();
                }
            });
            if added > I80F48::ZERO {
                edit_bank(&mut r3w, &w.banks[1].key, |b| b.total_liability_shares = (I80F48::from(b.total_liability_shares) + added).into());
                roots.push(("R3w".to_string(), mk(r3w, true)));
            }
        }
    }

    // R6: bank 0 accrues (u3 borrows it against bank 1) while u1 holds an *empty but active* balance
    // in bank 0 (deposit 1, withdraw 1): close_balance is one step away
    let mut r6 = r0.clone();
    let ok6 = do_all(
        w,
        &mut r6,
        &[
            Action::Deposit { u: 3, b: 1, amt: dollar_amount(w, &r0, 1, 100_000), up_to_limit: None },
            Action::Borrow { u: 3, b: 0, amt: dollar_amount(w, &r0, 0, 20_000) },
            Action::Advance { dt: 86_400 * 100 },
        ],
        "R6",
    );
    // deposit a little and take out exactly what was credited (transfer-fee mints credit less)
    let mut built = false;
    for amt in [1u64, 20, 1000] {
        if !ok6 {
            break;
        }
        let mut t = r6.clone();
        if !act::apply(w, &mut t, &Action::Deposit { u: 1, b: 0, amt, up_to_limit: None }).committed {
            continue;
        }
        let credited = {
            let a = account(&t, &w.users[1].account);
            let bk = bank(&t, &w.banks[0].key);
            a.lending_account.balances.iter().find(|x| x.active != 0 && x.bank_pk == w.banks[0].key).map(|bal| (I80F48::from(bal.asset_shares) * I80F48::from(bk.asset_share_value)).to_num::<u64>()).unwrap_or(0)
        };
        if credited >= 1 && act::apply(w, &mut t, &Action::Withdraw { u: 1, b: 0, amt: credited, all: false }).committed {
            r6 = t;
            built = true;
            break;
        }
    }
    if built {
        roots.push(("R6".to_string(), mk(r6, false)));
    }

    // R7: like R1, but the group's risk admin is the borrower u1 itself (the risk admin is an ordinary
    // key and may hold positions): whatever privileges that role has must not leak into plain banks
    let mut r7 = r1.clone();
    if ok1 {
        let mut roles = ix::GroupRoles { admin: w.roles.admin, emode: w.roles.emode, curve: w.roles.curve, limit: w.roles.limit, emissions: w.roles.emissions, metadata: w.roles.metadata, risk: w.users[1].authority };
        roles.risk = w.users[1].authority;
        let r = crate::svm::process_tx(&mut r7, &crate::svm::Tx::one(ix::group_configure(w.group, w.roles.admin, &roles, None, None), &[w.roles.admin]));
        if r.ok() {
            roots.push(("R7".to_string(), mk(r7, false)));
        } else {
            root_failure(format!("root construction R7: group_configure failed with {}", crate::svm::err_name(r.code())));
        }
    }

    // RE: a Token-2022 bank whose transfer fee is scheduled to drop: the mint's fee authority lowers the
    // fee (effective two epochs later) and one epoch passes, so the current epoch still charges the old
    // fee while the next one will charge a fifth of it
    for (bi, bh) in w.banks.iter().enumerate() {
        let Some((bps, max)) = w.mints.get(&bh.mint).and_then(|m| m.fee) else { continue };
        if bps < 5 || bps >= 10_000 || !ok1 {
            continue;
        }
        // two schedules: the fee drops to a fifth (RE), and the fee is abolished (RZ)
        for (name, new_bps, new_max) in [("RE", bps / 5, max), ("RZ", 0u16, 0u64)] {
            let mut re = r1.clone();
            let ixf = spl_token_2022::extension::transfer_fee::instruction::set_transfer_fee(&spl_token_2022::id(), &bh.mint, &w.mint_auth, &[], new_bps, new_max).unwrap();
            let r = crate::svm::process_tx(&mut re, &crate::svm::Tx::one(crate::svm::Ix::from(ixf), &[w.mint_auth]));
            if !r.ok() {
                root_failure(format!("root construction {name}: set_transfer_fee failed with {}", crate::svm::err_name(r.code())));
                continue;
            }
            re.epoch += 1;
            roots.push((format!("{name}{bi}"), mk(re, false)));
        }
        break;
    }

    if with_forged && ok1 {
        // R4: forged fee buckets: fractional, >1, and larger than the vault
        let mut r4 = r1.clone();
        let v0 = token_amount(&r4, &w.banks[0].lv);
        edit_bank(&mut r4, &w.banks[0].key, |b| {
            b.collected_insurance_fees_outstanding = I80F48::from_num(0.5).into();
            b.collected_group_fees_outstanding = I80F48::from_num(7.25).into();
            b.collected_program_fees_outstanding = (I80F48::from_num(v0) + I80F48::from_num(3.5)).into();
        });
        edit_bank(&mut r4, &w.banks[1].key, |b| {
            b.collected_insurance_fees_outstanding = I80F48::from_num(12345.678).into();
            b.collected_group_fees_outstanding = I80F48::from_num(0.999999).into();
        });
        roots.push(("R4".to_string(), mk(r4, true)));
    }
    roots
}

/// RMS: u1 moved to a new account (real transfer instruction); the migrated-away shell - disabled, `migrated_to`
/// set - then picked up a deposit in bank 0 (forged, with the bank total raised to match), as it could by acting
/// as the liquidator in a classic liquidation, which does not look at the liquidator's flags. Closing the shell is
/// one step away and must not make the position vanish from under the bank total.
pub fn migrated_shell_root(w: &World, s0: &Store) -> Vec<(String, HState)> {
    let nb = w.banks.len();
    let std = standard_roots(w, s0, false);
    let Some((_, r1)) = std.iter().find(|(k, _)| k == "R1") else { return vec![] };
    let mut s = r1.s.clone();
    if !act::apply(w, &mut s, &Action::Transfer { u: 1 }).committed {
        return vec![];
    }
    let shell = w.users[1].account;
    let shares = I80F48::from_num(12_345_678);
    let bk = w.banks[0].key;
    edit_account(&mut s, &shell, |a| {
        let mut nb = marginfi_type_crate::types::Balance::empty_deactivated();
        nb.active = 1;
        nb.bank_pk = bk;
        nb.asset_shares = shares.into();
        nb.last_update = 1_700_000_000;
        a.lending_account.balances[0] = nb;
    });
    edit_bank(&mut s, &bk, |b| {
        b.total_asset_shares = (I80F48::from(b.total_asset_shares) + shares).into();
        b.lending_position_count += 1;
    });
    // the tokens behind the forged deposit, so that the vault still covers the books
    let amt = (shares * I80F48::from(bank(&s, &bk).asset_share_value)).ceil().to_num::<u64>() + 1;
    mint_to(&mut s, &w.mint_auth, &w.banks[0].mint, &w.banks[0].lv, w.banks[0].t22, amt);
    vec![("RMS".to_string(), HState { s, clock_devs: 0, price_devs: 0, closes: vec![0; nb], forged: true })]
}

/// REM: root R1 with liquidity-mining rewards switched on for both sides of both banks (real setup_emissions by the
/// emissions admin, funded reward vaults), ten days later: every position has unclaimed rewards of far more than
/// one reward unit pending. Balance changes, full withdrawals / repayments and closes then run through the reward
/// settlement paths.
pub fn emissions_root(w: &World, s0: &Store) -> Vec<(String, HState)> {
    let nb = w.banks.len();
    let std = standard_roots(w, s0, false);
    let Some((_, r1)) = std.iter().find(|(k, _)| k == "R1") else { return vec![] };
    let mut s = r1.s.clone();
    let em_mint = create_mint(&mut s, &w.payer, &w.mint_auth, &MintSpec::spl(&format!("{}:emis", label_of(&w.group)), 6));
    let funding = create_token_account(&mut s, &w.payer, &format!("{}:em_funding", label_of(&w.group)), &em_mint, &w.roles.emissions, false);
    mint_to(&mut s, &w.mint_auth, &em_mint, &funding, false, 4_000_000_000_000);
    let flags = marginfi_type_crate::constants::EMISSIONS_FLAG_LENDING_ACTIVE | marginfi_type_crate::constants::EMISSIONS_FLAG_BORROW_ACTIVE;
    for b in 0..nb.min(2) {
        let r = crate::svm::process_tx(&mut s, &crate::svm::Tx::one(ix::setup_emissions(w.group, w.roles.emissions, w.banks[b].key, em_mint, funding, spl_token::id(), flags, 1_000_000, 1_000_000_000_000), &[w.roles.emissions]));
        if !r.ok() {
            root_failure(format!("root construction REM: setup_emissions failed with {}", crate::svm::err_name(r.code())));
            return vec![];
        }
    }
    if !do_all(w, &mut s, &[Action::Advance { dt: 864_000 }, Action::Accrue { b: 0 }, Action::Accrue { b: 1 }], "REM") {
        return vec![];
    }
    vec![("REM".to_string(), HState { s, clock_devs: 0, price_devs: 0, closes: vec![0; nb], forged: false })]
}

/// RK: bank 0 as a bankruptcy wipe-out leaves it (forged on top of R1): deposit share value 0, killed. Its
/// lenders hold worthless shares, u1 still owes it.
pub fn killed_root(w: &World, s0: &Store) -> Vec<(String, HState)> {
    let nb = w.banks.len();
    let std = standard_roots(w, s0, false);
    let Some((_, r1)) = std.iter().find(|(k, _)| k == "R1") else { return vec![] };
    let mut s = r1.s.clone();
    edit_bank(&mut s, &w.banks[0].key, |b| {
        b.asset_share_value = I80F48::ZERO.into();
        b.config.operational_state = marginfi_type_crate::types::BankOperationalState::KilledByBankruptcy;
    });
    vec![("RK".to_string(), HState { s, clock_devs: 0, price_devs: 0, closes: vec![0; nb], forged: true })]
}

/// roots with a bank in token-less repayment mode (the risk admin's write-off machinery)
pub fn tokenless_roots(w: &World, s0: &Store) -> Vec<(String, HState)> {
    use marginfi_type_crate::types::BankConfigOpt;
    let nb = w.banks.len();
    let mk = |s: Store| HState { s, clock_devs: 0, price_devs: 0, closes: vec![0; nb], forged: false };
    let std = standard_roots(w, s0, false);
    let get = |n: &str| std.iter().find(|(k, _)| k == n).map(|(_, h)| h.s.clone());
    let allow = |s: &mut Store, b: usize| -> bool {
        let r = crate::svm::process_tx(s, &crate::svm::Tx::one(ix::configure_bank(w.group, w.roles.admin, w.banks[b].key, BankConfigOpt { tokenless_repayments_allowed: Some(true), ..Default::default() }), &[w.roles.admin]));
        if !r.ok() {
            root_failure(format!("tokenless root: configure_bank failed with {}", crate::svm::err_name(r.code())));
        }
        r.ok()
    };
    let mut roots = vec![];
    // RT: share values != 1 (R1); bank 0 allows token-less repayment; u1 owes it, u0 and the seeder lend it
    if let Some(mut rt) = get("R1") {
        if allow(&mut rt, 0) {
            roots.push(("RT".to_string(), mk(rt.clone())));
            // RTC: the debts were written off and the bank is complete: purging lenders is one step away
            let mut rtc = rt.clone();
            let mut okc = do_all(w, &mut rtc, &[Action::TokenlessRepay { u: 1, b: 0 }], "RTC");
            if okc && bank(&rtc, &w.banks[0].key).flags & marginfi_type_crate::constants::TOKENLESS_REPAYMENTS_COMPLETE == 0 {
                okc = do_all(w, &mut rtc, &[Action::ForceTokenlessComplete { b: 0 }], "RTC complete");
            }
            if okc {
                roots.push(("RTC".to_string(), mk(rtc)));
            }
        }
    }
    // RTD: only the seeder lends bank 0; u1 holds an empty but active balance there; bank complete
    let Some(mut rtd) = get("R0") else { return roots };
    let mut built = false;
    for amt in [5u64, 50, 5000] {
        let mut t = rtd.clone();
        if !act::apply(w, &mut t, &Action::Deposit { u: 1, b: 0, amt, up_to_limit: None }).committed {
            continue;
        }
        let credited = {
            let a = account(&t, &w.users[1].account);
            let bk = bank(&t, &w.banks[0].key);
            a.lending_account.balances.iter().find(|x| x.active != 0 && x.bank_pk == w.banks[0].key).map(|bal| (I80F48::from(bal.asset_shares) * I80F48::from(bk.asset_share_value)).to_num::<u64>()).unwrap_or(0)
        };
        if credited >= 1 && act::apply(w, &mut t, &Action::Withdraw { u: 1, b: 0, amt: credited, all: false }).committed {
            rtd = t;
            built = true;
            break;
        }
    }
    if built && allow(&mut rtd, 0) && do_all(w, &mut rtd, &[Action::ForceTokenlessComplete { b: 0 }], "RTD complete") {
        roots.push(("RTD".to_string(), mk(rtd)));
    }
    roots
}

pub fn rep_json(r: &Report) -> Value {
    json!({
        "roots": r.roots,
        "states": r.states,
        "transitions": r.transitions,
        "states_per_layer": r.states_per_layer,
        "depth_completed": r.depth_completed,
        "exhaustive": r.exhaustive,
        "cap_hit": r.cap_hit,
        "outcome_classes": r.classes,
        "wall_s": r.wall_s,
    })
}

/// Merge per-world reports into one evidence block and the violations into `Found`s.
pub struct HistRun {
    pub world: String,
    pub report: Report,
    pub recheck: Option<Report>,
}

pub fn run_world<M: Model>(m: &M, lim: &Limits, recheck_depth: Option<usize>) -> (Report, Option<Report>) {
    let r = mc::explore(m, lim);
    let rc = recheck_depth.map(|d| {
        let l2 = Limits { max_depth: d, threads: 1, max_states: lim.max_states, max_wall_s: lim.max_wall_s, max_counterexamples: lim.max_counterexamples };
        mc::explore(m, &l2)
    });
    (r, rc)
}

pub fn last_kind(trace: &[String]) -> String {
    trace
        .last()
        .and_then(|j| serde_json::from_str::<Action>(j).ok())
        .map(|a| crate::hist::action_kind(&a).to_string())
        .unwrap_or_else(|| "root".into())
}

pub fn assemble(id: &str, runs: Vec<HistRun>, required: &[&str], expected: &[&str], rule: &str, assumptions: Vec<String>, forged_roots: &[&str]) -> Outcome {
    let mut o = Outcome { level: "model_checking".into(), assumptions, ..Default::default() };
    for f in ROOT_FAILURES.lock().unwrap().iter() {
        o.machinery.push(f.clone());
    }
    let mut states = 0u64;
    let mut transitions = 0u64;
    let mut classes: std::collections::BTreeMap<String, u64> = Default::default();
    let mut per_world = vec![];
    let mut samples = vec![];
    let mut exhaustive = true;
    for hr in &runs {
        states += hr.report.states;
        transitions += hr.report.transitions;
        exhaustive &= hr.report.exhaustive;
        for (k, v) in &hr.report.classes {
            *classes.entry(k.clone()).or_insert(0) += v;
        }
        let mut pw = rep_json(&hr.report);
        if let Some(rc) = &hr.recheck {
            let n = rc.states_per_layer.len();
            let same = hr.report.states_per_layer.len() >= n && hr.report.states_per_layer[..n] == rc.states_per_layer[..];
            pw["determinism_recheck"] = json!({"threads": 1, "depth": rc.depth_completed, "states_per_layer": rc.states_per_layer, "agrees": same});
            if !same && rc.exhaustive {
                o.machinery.push(format!(
                    "world {}: nondeterministic exploration: layers {:?} (16 threads) vs {:?} (1 thread)",
                    hr.world, hr.report.states_per_layer, rc.states_per_layer
                ));
            }
        }
        pw["world"] = json!(hr.world);
        per_world.push(pw);
        for (root, tr) in hr.report.sample_traces.iter().take(2) {
            samples.push(json!({"world": hr.world, "root": root, "actions": tr.iter().map(|t| serde_json::from_str::<Value>(t).unwrap_or(Value::Null)).collect::<Vec<_>>()}));
        }
        for c in &hr.report.counterexamples {
            o.found.push(Found {
                clause: c.violation.clause.clone(),
                sig: last_kind(&c.trace),
                detail: format!("world {} root {} depth {}: {}", hr.world, c.root, c.depth, c.violation.detail),
                replay: json!({"model": id, "world": hr.world, "root": c.root, "actions": c.trace.iter().map(|t| serde_json::from_str::<Value>(t).unwrap()).collect::<Vec<_>>()}),
            });
        }
    }
    // vacuity guards: every required outcome class prefix must have been observed
    for req in required {
        let hit = classes.iter().any(|(k, v)| *v > 0 && class_matches(k, req));
        if !hit {
            o.machinery.push(format!("vacuity guard: outcome class '{}' was never exercised", req));
        }
    }
    let unexercised: Vec<&&str> = expected.iter().filter(|req| !classes.iter().any(|(k, v)| *v > 0 && class_matches(k, req))).collect();
    let distinct = classes.len() as u64;
    o.coverage = json!({
        "states": states,
        "transitions": transitions,
        "traces_validated_against_impl": transitions,
        "evaluations": transitions,
        "distinct_nontrivial": distinct,
        "rule": rule,
        "exhaustive": exhaustive,
        "samples": samples,
        "per_world": per_world,
        "outcome_classes": classes,
        "forged_roots": forged_roots,
        "expected_but_unexercised_classes": unexercised,
        "validation_note": "the successor relation is marginfi::entry itself (no separate model of the program): every transition is an execution of the implementation; the environment model (E1) is bound to the Agave runtime by the conformance replay (E4), reported separately when run",
    });
    o
}

/// "kind:code" or "kind:code:tag": all given parts must match (tags are '+'-joined in the class)
pub fn class_matches(class: &str, req: &str) -> bool {
    let cp: Vec<&str> = class.splitn(3, ':').collect();
    let rp: Vec<&str> = req.splitn(3, ':').collect();
    if rp.len() > cp.len() {
        return false;
    }
    if rp[0] != cp[0] {
        return false;
    }
    if rp.len() > 1 && rp[1] != "*" && rp[1] != cp[1] {
        return false;
    }
    if rp.len() > 2 {
        return cp[2].split('+').any(|t| t == rp[2]);
    }
    true
}

pub fn replay_hist(h: &Hist, replay: &Value) -> Vec<Violation> {
    let root = replay["root"].as_str().unwrap_or("");
    let mut st = h.roots().into_iter().find(|(n, _)| n == root).unwrap_or_else(|| panic!("replay: no root {root}")).1;
    let mut out = vec![];
    let acts: Vec<Action> = replay["actions"].as_array().unwrap().iter().map(|v| serde_json::from_value(v.clone()).unwrap()).collect();
    for (i, a) in acts.iter().enumerate() {
        let step = h.step(&st, a);
        if std::env::var("VERIF_TRACE").is_ok() {
            eprintln!("replay step {i}: {:?} -> {}", a, step.class);
        }
        if i + 1 == acts.len() {
            out = step.violations;
        }
        if let Some(n) = step.next {
            st = n;
        }
    }
    out
}
