//! C06 — interest accrual conserves value, is monotone, idempotent, and is always applied first.
//! (a) product sweep of the real accrue instruction on forged bank states;
//! (b) differential history search: every handler after a clock advance, with vs without an
//!     explicit accrual of the banks it transacts in.

use super::histcommon::*;
use super::Tier;
use crate::act::{self, Action};
use crate::evidence::{Found, Outcome};
use crate::hist::{Alphabet, FreshnessOracle, Hist};
use crate::mc::Limits;
use crate::refmodel::{self as rf, Q};
use crate::svm::Store;
use crate::world::{self, World};
use fixed::types::I80F48;
use marginfi_type_crate::constants::{CLOSE_ENABLED_FLAG, EMISSIONS_FLAG_BORROW_ACTIVE, EMISSIONS_FLAG_LENDING_ACTIVE, FREEZE_SETTINGS, PERMISSIONLESS_BAD_DEBT_SETTLEMENT_FLAG, TOKENLESS_REPAYMENTS_ALLOWED, TOKENLESS_REPAYMENTS_COMPLETE};
use marginfi_type_crate::types::RatePoint;
use serde_json::json;
use std::collections::BTreeMap;

pub fn model(tier: Tier, world: &str) -> Hist {
    let (w, s0) = world_by_name(if world.is_empty() { "A" } else { world });
    let roots = standard_roots(&w, &s0, false);
    let mut alpha = Alphabet::standard(vec![0, 1], vec![0, 1]);
    alpha.receivership = true;
    alpha.collect = true;
    alpha.pulse = true;
    alpha.flash_wrap = true;
    alpha.max_clock_devs = if tier == Tier::Quick { 1 } else { 2 };
    alpha.max_price_devs = 1;
    alpha.price_moves = vec![(3, 1)];
    Hist { w, roots, alpha, oracles: vec![Box::new(FreshnessOracle)] }
}

struct SweepStats {
    evals: u64,
    classes: BTreeMap<String, u64>,
    found: Vec<Found>,
    max_allow: f64,
    max_resid: f64,
    max_ratio: f64,
}

fn curves() -> Vec<(u32, u32, [RatePoint; 5], &'static str)> {
    let r = world::rate_u32;
    let u = world::util_u32;
    let p = |v: &[(f64, f64)]| {
        let mut a = [RatePoint::default(); 5];
        for (i, (x, y)) in v.iter().enumerate() {
            a[i] = RatePoint::new(u(*x), r(*y));
        }
        a
    };
    vec![
        (r(0.0), r(0.0), p(&[]), "flat0"),
        (r(0.02), r(3.0), p(&[(0.5, 0.1), (0.9, 0.4)]), "2pt"),
        (r(0.0), r(10.0), p(&[(0.1, 0.01), (0.3, 0.02), (0.5, 0.5), (0.7, 1.0), (0.99, 9.0)]), "5pt_steep"),
        (r(0.05), r(0.05), p(&[(0.5, 0.05)]), "flat5"),
    ]
}

/// conservation allowance, two-sided (see DESIGN.md §5.4 and the derivation in c06.rs)
fn accrual_allowance(d: &Q, l: &Q, a_sh: &Q, l_sh: &Q, dt: i64, rate_sum: &Q) -> Q {
    let yr = rf::qi(31_536_000);
    let t = rf::qi(dt as i128) / yr + rf::qi(2);
    rf::ulp() * rf::qi(4) * ((d.clone() + l.clone()) * t * (rf::qi(2) + rate_sum.clone()) + a_sh.clone() + l_sh.clone() + rf::qi(8))
}

fn sweep(tier: Tier, w: &World, s0: &Store, st: &mut SweepStats) {
    let b = &w.banks[0];
    let fee_vecs: Vec<(f64, f64, f64, f64)> = vec![(0.0, 0.0, 0.0, 0.0), (0.01, 0.05, 0.005, 0.1), (0.5, 0.3, 0.2, 0.4)];
    let totals: Vec<u64> = if tier == Tier::Quick { vec![1, 1_000_000, 1_000_000_000_000, 1u64 << 40] } else { vec![1, 3, 1_000_000, 999_999_999, 1_000_000_000_000, 1u64 << 40, 1u64 << 50] };
    let svs: Vec<(f64, f64)> = vec![(1.0, 1.0), (1.5, 1.25), (200.0, 3.0)];
    let dts: Vec<i64> = vec![0, 1, 3600, 86_400, 31_536_000, 5 * 31_536_000];
    let utils: Vec<(u64, u64)> = vec![(0, 1), (1, 2), (9, 10), (1, 1), (1, 3), (99, 100)];
    for (zero, hundred, points, cname) in curves() {
        for fv in &fee_vecs {
            for pf in [true, false] {
                for &d_tokens in &totals {
                    for &(un, ud) in &utils {
                        for &(asv, lsv) in &svs {
                            for &dt in &dts {
                              // bank flag words that open special paths elsewhere must not matter to accrual (on a
                              // sub-product: the middle fee vector and share values)
                              for &flags in &[0u64, TOKENLESS_REPAYMENTS_ALLOWED, TOKENLESS_REPAYMENTS_ALLOWED | TOKENLESS_REPAYMENTS_COMPLETE, FREEZE_SETTINGS | CLOSE_ENABLED_FLAG | PERMISSIONLESS_BAD_DEBT_SETTLEMENT_FLAG, EMISSIONS_FLAG_BORROW_ACTIVE | EMISSIONS_FLAG_LENDING_ACTIVE] {
                                if flags != 0 && !(fv.0 == 0.01 && asv == 1.5) {
                                    continue;
                                }
                                let mut s = s0.clone();
                                let now = s.now;
                                let asv_fx = I80F48::from_num(asv);
                                let lsv_fx = I80F48::from_num(lsv);
                                let a_sh = I80F48::from_num(d_tokens) / asv_fx;
                                let l_amt = I80F48::from_num(d_tokens) * I80F48::from_num(un) / I80F48::from_num(ud);
                                let l_sh = l_amt / lsv_fx;
                                world::edit_bank(&mut s, &b.key, |bk| {
                                    bk.asset_share_value = asv_fx.into();
                                    bk.liability_share_value = lsv_fx.into();
                                    bk.total_asset_shares = a_sh.into();
                                    bk.total_liability_shares = l_sh.into();
                                    bk.last_update = now - dt;
                                    bk.flags = flags;
                                    let ir = &mut bk.config.interest_rate_config;
                                    ir.zero_util_rate = zero;
                                    ir.hundred_util_rate = hundred;
                                    ir.points = points;
                                    ir.insurance_fee_fixed_apr = I80F48::from_num(fv.0).into();
                                    ir.insurance_ir_fee = I80F48::from_num(fv.1).into();
                                    ir.protocol_fixed_fee_apr = I80F48::from_num(fv.2).into();
                                    ir.protocol_ir_fee = I80F48::from_num(fv.3).into();
                                });
                                world::edit_group(&mut s, &w.group, |g| {
                                    g.group_flags = if pf { g.group_flags | 1 } else { g.group_flags & !1 };
                                });
                                let pre = rf::bank_nums(&s, b);
                                let forged = s.clone();
                                let r = act::apply(w, &mut s, &Action::Accrue { b: 0 });
                                st.evals += 1;
                                let rep = json!({"model": "C06a", "bank_flags": flags, "curve": cname, "fees": [fv.0, fv.1, fv.2, fv.3], "program_fees": pf, "deposits": d_tokens, "util": [un, ud], "asv": asv, "lsv": lsv, "dt": dt});
                                if !r.committed {
                                    *st.classes.entry(format!("accrue:{}:{}", crate::svm::err_name(r.code), cname)).or_insert(0) += 1;
                                    // an accepted curve can never by itself make accrual fail (C18) - overflow at
                                    // extreme magnitudes is reported as an observation class only
                                    continue;
                                }
                                let post = rf::bank_nums(&s, b);
                                let moved = post.asv != pre.asv || post.lsv != pre.lsv;
                                *st.classes.entry(format!("accrue:ok:{}:{}:{}", cname, if moved { "moved" } else { "still" }, if pf { "pf" } else { "nopf" })).or_insert(0) += 1;
                                let mut fail = |clause: &str, detail: String| {
                                    if st.found.len() < 64 {
                                        st.found.push(Found { clause: clause.into(), sig: "accrue".into(), detail, replay: rep.clone() });
                                    }
                                };
                                if post.asv < pre.asv || post.lsv < pre.lsv {
                                    fail("C06.share_values_monotone", format!("share values fell: asv {}->{} lsv {}->{}", rf::qf64(&rf::q_raw(pre.asv)), rf::qf64(&rf::q_raw(post.asv)), rf::qf64(&rf::q_raw(pre.lsv)), rf::qf64(&rf::q_raw(post.lsv))));
                                }
                                let (dfi, dfg, dfp) = (post.f_ins - pre.f_ins, post.f_grp - pre.f_grp, post.f_prog - pre.f_prog);
                                if dfi < 0 || dfg < 0 || dfp < 0 {
                                    fail("C06.fees_nonnegative", format!("fee bucket decreased: ins {} grp {} prog {}", dfi, dfg, dfp));
                                }
                                if !pf && dfp != 0 {
                                    fail("C06.program_fee_disabled", format!("program fees booked ({} raw) although disabled for the group", dfp));
                                }
                                if post.a_sh != pre.a_sh || post.l_sh != pre.l_sh || post.vault != pre.vault {
                                    fail("C06.accrue_touches_only_values", "accrual changed share totals or the vault".into());
                                }
                                // conservation
                                let d_l = post.liabs() - pre.liabs();
                                let d_d = post.deposits() - pre.deposits();
                                let d_f = rf::q_raw(dfi + dfg + dfp);
                                let resid = d_l.clone() - d_d.clone() - d_f.clone();
                                let rate_sum = rf::qi(10) + rf::q_raw(I80F48::from_num(fv.0 + fv.2 + 0.01).to_bits()) + rf::qi(10) * rf::q_raw(I80F48::from_num(fv.1 + fv.3 + 0.05).to_bits());
                                let allow = accrual_allowance(&pre.deposits(), &pre.liabs(), &rf::q_raw(pre.a_sh), &rf::q_raw(pre.l_sh), dt, &rate_sum);
                                let af = rf::qf64(&allow);
                                if af > st.max_allow {
                                    st.max_allow = af;
                                }
                                let rfl = rf::qf64(&rf::qabs(&resid));
                                if rfl > st.max_resid {
                                    st.max_resid = rfl;
                                }
                                if af > 0.0 && rfl / af > st.max_ratio {
                                    st.max_ratio = rfl / af;
                                }
                                if rf::qabs(&resid) > allow {
                                    fail(
                                        "C06.conservation",
                                        format!("delta liabilities {:.9} != delta deposits {:.9} + fees {:.9} (residual {:.3e}, allowance {:.3e})", rf::qf64(&d_l), rf::qf64(&d_d), rf::qf64(&d_f), rf::qf64(&resid), af),
                                    );
                                }
                                // interest is brought up to the current time: with debt outstanding, a positive borrowing rate
                                // (taken from the program's own rate function, which C18 judges) and an elapsed time whose
                                // interest is well above the resolution of the share value, the debt share value has grown
                                {
                                    use marginfi::state::interest_rate::InterestRateConfigImpl;
                                    let (bk0, g0) = (world::bank(&forged, &b.key), world::group(&forged, &w.group));
                                    if dt > 0 && pre.l_sh > 0 && pre.a_sh > 0 {
                                        let util = rf::qf64(&(pre.liabs() / pre.deposits()));
                                        let rates = std::panic::catch_unwind(std::panic::AssertUnwindSafe(|| bk0.config.interest_rate_config.create_interest_rate_calculator(&g0).calc_interest_rate(I80F48::from_num(util.min(1.0)))));
                                        if let Ok(Some(rates)) = rates {
                                            let growth = rates.borrowing_rate_apr.to_num::<f64>() * dt as f64 / 31_536_000.0 * lsv;
                                            if growth > 1e-9 && post.lsv <= pre.lsv {
                                                fail("C06.fresh_state", format!("accrual over {dt} s at a borrowing rate of {} left the debt share value at {} (expected growth about {growth:.3e})", rates.borrowing_rate_apr, rf::qf64(&rf::q_raw(post.lsv))));
                                            }
                                        }
                                    }
                                }
                                // the bank's position counters are bookkeeping (banks older than the counters carry
                                // totals without them): the same bank with its counters at zero accrues the same interest
                                for counters in [0i32, 1, 7] {
                                    let mut t = forged.clone();
                                    world::edit_bank(&mut t, &b.key, |bk| {
                                        bk.lending_position_count = counters;
                                        bk.borrowing_position_count = counters;
                                    });
                                    let rt = act::apply(w, &mut t, &Action::Accrue { b: 0 });
                                    st.evals += 1;
                                    let twin = rf::bank_nums(&t, b);
                                    if !rt.committed || twin.asv != post.asv || twin.lsv != post.lsv || twin.f_ins != post.f_ins || twin.f_grp != post.f_grp || twin.f_prog != post.f_prog || world::bank(&t, &b.key).last_update != world::bank(&s, &b.key).last_update {
                                        {
                                            fail("C06.fresh_state", format!("the same bank with its position counters at {counters} accrues differently over {dt} s: liability share value {} instead of {} (committed: {})", rf::qf64(&rf::q_raw(twin.lsv)), rf::qf64(&rf::q_raw(post.lsv)), rt.committed));
                                        }
                                    }
                                }
                                // idempotence: a second accrual at the same time changes nothing but the cache
                                let k1 = crate::canon::state_key(&s, &[]);
                                let r2 = act::apply(w, &mut s, &Action::Accrue { b: 0 });
                                let k2 = crate::canon::state_key(&s, &[]);
                                if !r2.committed || k1 != k2 {
                                    fail("C06.idempotent", "a second accrual at the same timestamp changed the bank".into());
                                }
                              }
                            }
                        }
                    }
                }
            }
        }
    }
}

pub fn run(tier: Tier) -> Outcome {
    // (a)
    let (w, s0) = world_by_name("A");
    let mut st = SweepStats { evals: 0, classes: BTreeMap::new(), found: vec![], max_allow: 0.0, max_resid: 0.0, max_ratio: 0.0 };
    sweep(tier, &w, &s0, &mut st);
    // (b)
    let worlds: &[&str] = match tier {
        Tier::Quick => &["A", "B", "C", "G"],
        Tier::Thorough => &["A", "B", "C", "D", "G"],
    };
    let depth = match tier {
        Tier::Quick => 3,
        Tier::Thorough => 4,
    };
    let mut runs = vec![];
    for wn in worlds {
        let Some(h) = guarded(&format!("C06 world {wn}"), || model(tier, wn)) else { continue };
        let lim = Limits { max_depth: depth, max_wall_s: if tier == Tier::Quick { 300.0 } else { 2400.0 }, ..Default::default() };
        let (report, recheck) = run_world(&h, &lim, Some(depth - 1));
        runs.push(HistRun { world: wn.to_string(), report, recheck });
    }
    let mut o = assemble(
        "C06",
        runs,
        &["deposit:ok:ab_compared", "withdraw:ok:ab_compared", "borrow:ok:ab_compared", "repay:ok:ab_compared"],
        &["liquidate:ok:ab_compared", "bankruptcy:ok:ab_compared", "close_balance:ok:ab_compared", "withdraw_all:ok:ab_compared", "repay_all:ok:ab_compared", "deposit:ok:accrual_mattered"],
        "(b) every action sequence up to the depth bound (clock advances of 1 s / 1 h / 1 y included) through the real entrypoint; on every handler step whose bank has pending interest the same step is re-executed after an explicit accrue of each involved bank and both end states must be identical up to write-only caches; (a) product of curves x fee vectors x program-fee flag x totals x utilisations x share values x elapsed times through the accrue instruction on forged banks with the exact conservation / monotonicity / idempotence oracle",
        vec!["environment model E1 (svm-lite)".into(), "(a) uses forged bank states (share values, totals, curve, last_update written directly); listed as forged".into()],
        &[],
    );
    o.found.extend(st.found);
    if st.evals == 0 {
        o.machinery.push("accrual sweep executed nothing".into());
    }
    o.coverage["accrual_sweep"] = json!({"instructions": st.evals, "outcome_classes": st.classes, "max_allowance_native_units": st.max_allow, "max_residual_native_units": st.max_resid, "max_residual_over_allowance": st.max_ratio, "forged": true});
    o
}
