//! C19 — fees and emissions. (A) complete product of the three fee buckets x vault liquidity x
//! {SPL, Token-2022 with transfer fee} through the real collect_bank_fees; (B) every way of drawing a
//! fee / insurance vault down x signer x destination; (C) bounded-exhaustive sequences of deposits,
//! withdrawals, settles, reward withdrawals and clock advances of two lenders on an emitting bank,
//! with an exact reference accrual and the remaining-budget cap; (D) reward withdrawal x signer x
//! account state x destination.

use super::Tier;
use crate::act::{self, Action};
use crate::evidence::{Found, Outcome};
use crate::golden::{self, Env};
use crate::ix;
use crate::refmodel::{self as rf, Q};
use crate::svm::{process_tx, Store, Tx};
use crate::world::{self, *};
use fixed::types::I80F48;
use marginfi_type_crate::types::{ACCOUNT_DISABLED, ACCOUNT_FROZEN, ACCOUNT_IN_RECEIVERSHIP};
use num_traits::{Signed, ToPrimitive, Zero};
use serde_json::json;
use solana_program::pubkey::Pubkey;
use std::collections::{BTreeMap, BTreeSet};

const FRONTIER_CAP: usize = 20_000;
static TRUNCATED: std::sync::atomic::AtomicU64 = std::sync::atomic::AtomicU64::new(0);

struct T {
    cells: u64,
    classes: BTreeMap<String, u64>,
    found: Vec<Found>,
    samples: Vec<serde_json::Value>,
}

impl T {
    fn class(&mut self, k: String) {
        *self.classes.entry(k).or_insert(0) += 1;
    }
}

fn raw_i80(x: f64) -> I80F48 {
    I80F48::from_num(x)
}

// ---------------------------------------------------------------- (A) fee collection

fn fee_collection(e: &Env, t: &mut T) {
    let w = &e.w;
    for bi in [0usize, 2] {
        let bh = &w.banks[bi];
        let fee_cfg: Option<(u16, u64)> = w.mints.get(&bh.mint).and_then(|m| m.fee);
        let fee_of = |amount: u64| -> u64 {
            match fee_cfg {
                None => 0,
                Some((bps, max)) => (((amount as u128) * bps as u128 + 9_999) / 10_000).min(max as u128) as u64,
            }
        };
        let buckets: Vec<f64> = vec![0.0, 0.25, 1.0, 1.75, 100.5, 250.5];
        let vaults: Vec<u64> = vec![0, 1, 5, 300, 352, 353, 1_000_000];
        for &vault in &vaults {
            for &ins in &buckets {
                for &grp in &buckets {
                    for &prog in &buckets {
                        let mut s = e.s.clone();
                        // forge: liquidity vault balance and the three buckets
                        let lv = bh.lv;
                        let cur = world::token_amount(&s, &lv);
                        let mut a = (*s.get(&lv).unwrap()).clone();
                        a.digest = Default::default();
                        a.data[64..72].copy_from_slice(&vault.to_le_bytes());
                        s.set(lv, a);
                        let _ = cur;
                        world::edit_bank(&mut s, &bh.key, |b| {
                            b.collected_insurance_fees_outstanding = raw_i80(ins).into();
                            b.collected_group_fees_outstanding = raw_i80(grp).into();
                            b.collected_program_fees_outstanding = raw_i80(prog).into();
                        });
                        let (n0, ata0) = (rf::bank_nums(&s, bh), world::token_amount(&s, &bh.fee_ata));
                        let mut post = s.clone();
                        let r = act::apply(w, &mut post, &Action::CollectFees { b: bi });
                        t.cells += 1;
                        let rep = json!({"model": "C19A", "bank": bi, "vault": vault, "buckets": [ins, grp, prog]});
                        if !r.committed {
                            t.class(format!("collect:{}:refused:{}", bh.label, crate::svm::err_name(r.code)));
                            // nothing about this property forbids a refusal, except when everything is payable
                            continue;
                        }
                        let (n1, ata1) = (rf::bank_nums(&post, bh), world::token_amount(&post, &bh.fee_ata));
                        let d_ins = rf::q_raw(n0.f_ins - n1.f_ins);
                        let d_grp = rf::q_raw(n0.f_grp - n1.f_grp);
                        let d_prog = rf::q_raw(n0.f_prog - n1.f_prog);
                        let out = n0.vault as i128 - n1.vault as i128;
                        let whole = |x: f64| x.floor() as i128;
                        let full = whole(ins) + whole(grp) + whole(prog);
                        let limited = (vault as i128) < full;
                        t.class(format!("collect:{}:ok:{}", bh.label, if full == 0 { "nothing_whole" } else if limited { "limited_by_liquidity" } else { "paid_in_full" }));
                        let mut fail = |clause: &str, detail: String| t.found.push(Found { clause: format!("C19.{clause}"), sig: format!("collect:{}", bh.label), detail: format!("bank {} vault {} buckets ({ins}, {grp}, {prog}): {detail}", bh.label, vault), replay: rep.clone() });
                        // each bucket falls by a whole number, never by more than its whole part
                        for (nm, d, b) in [("insurance", &d_ins, ins), ("group", &d_grp, grp), ("program", &d_prog, prog)] {
                            if !d.is_integer() || d.is_negative() || *d > rf::qi(whole(b)) {
                                fail("bucket_falls_by_whole_part", format!("the {nm} bucket fell by {}", rf::qf64(d)));
                            }
                        }
                        let (t_ins, t_grp, t_prog) = (d_ins.to_integer().to_i128().unwrap_or(-1), d_grp.to_integer().to_i128().unwrap_or(-1), d_prog.to_integer().to_i128().unwrap_or(-1));
                        // the liquidity vault pays exactly what the buckets lost
                        if out != t_ins + t_grp + t_prog {
                            fail("vault_pays_what_buckets_lose", format!("liquidity vault paid {out} but the buckets fell by {t_ins} + {t_grp} + {t_prog}"));
                        }
                        // each destination receives its own bucket's amount (net of the mint's transfer fee)
                        let got_ins = n1.ins_vault as i128 - n0.ins_vault as i128;
                        let got_grp = n1.fee_vault as i128 - n0.fee_vault as i128;
                        let got_prog = ata1 as i128 - ata0 as i128;
                        for (nm, got, sent) in [("insurance vault", got_ins, t_ins), ("fee vault", got_grp, t_grp), ("global fee wallet's token account", got_prog, t_prog)] {
                            let want = sent - fee_of(sent.max(0) as u64) as i128;
                            if got != want {
                                fail("destination_receives_its_bucket", format!("the {nm} received {got}, its bucket fell by {sent} (expected {want} after the mint's transfer fee)"));
                            }
                        }
                        // with enough liquidity every whole part is paid
                        if !limited && (t_ins, t_grp, t_prog) != (whole(ins), whole(grp), whole(prog)) {
                            fail("whole_parts_paid_when_liquid", format!("paid ({t_ins}, {t_grp}, {t_prog}) although the vault covers ({}, {}, {})", whole(ins), whole(grp), whole(prog)));
                        }
                        if limited && out < (vault as i128).min(full) - 3 {
                            fail("limited_only_by_liquidity", format!("paid {out} of an available {}", (vault as i128).min(full)));
                        }
                        if t.samples.len() < 3 && t.cells % 997 == 0 {
                            t.samples.push(json!({"case": rep, "paid": [t_ins, t_grp, t_prog]}));
                        }
                    }
                }
            }
        }
    }
}


// ---------------------------------------------------------------- (A2) the fee wallet was rotated

/// The global fee admin rotates the fee wallet; the group's cached copy is {still the old one, propagated}.
/// Collection is offered the canonical token account of the old wallet and of the new wallet: program fees
/// may only land in the token account of the *global* (current) wallet.
fn rotated_wallet(e: &Env, t: &mut T) {
    let w = &e.w;
    for bi in [0usize, 2] {
        let bh = &w.banks[bi];
        let t22 = w.mints.get(&bh.mint).map(|m| m.t22).unwrap_or(false);
        for propagated in [false, true] {
            let mut s = e.s.clone();
            let fs = world::fee_state(&s);
            let new_wallet = world::key(&format!("C19:new-fee-wallet:{bi}"));
            let r = process_tx(
                &mut s,
                &Tx::one(
                    ix::edit_global_fee_state(w.fee_admin, w.fee_admin, new_wallet, fs.bank_init_flat_sol_fee, fs.liquidation_flat_sol_fee, fs.program_fee_fixed, fs.program_fee_rate, fs.liquidation_max_fee),
                    &[w.fee_admin],
                ),
            );
            if !r.ok() {
                t.class(format!("rotated_wallet:{}:rotation_refused:{}", bh.label, crate::svm::err_name(r.code())));
                continue;
            }
            if propagated {
                let r = process_tx(&mut s, &Tx::one(ix::propagate_fee_state(w.group), &[w.payer]));
                if !r.ok() {
                    t.class(format!("rotated_wallet:{}:propagate_refused", bh.label));
                    continue;
                }
            }
            let new_ata = world::ata(&new_wallet, &bh.mint, &bh.token_program);
            world::create_token_account_at(&mut s, &w.payer, &new_ata, &bh.mint, &new_wallet, t22);
            world::edit_bank(&mut s, &bh.key, |b| {
                b.collected_program_fees_outstanding = raw_i80(7.75).into();
                b.collected_group_fees_outstanding = raw_i80(0.0).into();
                b.collected_insurance_fees_outstanding = raw_i80(0.0).into();
            });
            for (which, dest) in [("old_wallet", bh.fee_ata), ("new_wallet", new_ata)] {
                let mut post = s.clone();
                let r = process_tx(&mut post, &Tx::one(ix::collect_bank_fees(w.group, bh.key, dest, bh.token_program, w.mint_meta(bh)), &[w.payer]));
                t.cells += 1;
                let cache = if propagated { "propagated" } else { "cache_stale" };
                let rep = json!({"model": "C19A2", "bank": bi, "propagated": propagated, "dest": which});
                if !r.ok() {
                    t.class(format!("rotated_wallet:{}:{cache}:{which}:refused:{}", bh.label, crate::svm::err_name(r.code())));
                    continue;
                }
                let got = world::token_amount(&post, &dest) as i128 - world::token_amount(&s, &dest) as i128;
                t.class(format!("rotated_wallet:{}:{cache}:{which}:ok", bh.label));
                if which == "new_wallet" && got <= 0 {
                    t.found.push(Found {
                        clause: "C19.destination_receives_its_bucket".into(),
                        sig: format!("collect:rotated_wallet:{cache}:unpaid"),
                        detail: format!("bank {}: after the global fee wallet was rotated ({cache}), collection committed but the global fee wallet's token account received {got} of the 7 whole program-fee tokens", bh.label),
                        replay: rep.clone(),
                    });
                }
                if which == "old_wallet" && got > 0 {
                    t.found.push(Found {
                        clause: "C19.destination_receives_its_bucket".into(),
                        sig: format!("collect:rotated_wallet:{cache}"),
                        detail: format!(
                            "bank {}: after the global fee wallet was rotated ({cache}), collection paid {got} of program fees into the token account of the previous wallet, not the global fee wallet's",
                            bh.label
                        ),
                        replay: rep,
                    });
                }
            }
        }
    }
}

// ---------------------------------------------------------------- (A3) program fees switched off for the group

/// The foreign group of the environment runs with program fees switched off, yet its banks can still hold a program
/// bucket (booked before the switch, or the program's share of origination fees). Whoever cranks the collection
/// offers a token account for it: only the global fee wallet's canonical one may be paid.
fn program_fees_off(e: &Env, t: &mut T) {
    let f = &e.f;
    let w = &e.w;
    for off in [true, false] {
        let (ww, bh) = if off { (f, &f.banks[0]) } else { (w, &w.banks[0]) };
        let mut s = e.s.clone();
        world::edit_bank(&mut s, &bh.key, |b| {
            b.collected_program_fees_outstanding = raw_i80(7.75).into();
            b.collected_group_fees_outstanding = raw_i80(0.0).into();
            b.collected_insurance_fees_outstanding = raw_i80(0.0).into();
        });
        let enabled = world::group(&s, &ww.group).group_flags & 1 != 0;
        let outsider = w.users[1].tokens.get(&bh.mint).copied();
        for (which, dest) in [("canonical", Some(bh.fee_ata)), ("outsider", outsider)] {
            let Some(dest) = dest else { continue };
            let mut post = s.clone();
            let r = process_tx(&mut post, &Tx::one(ix::collect_bank_fees(ww.group, bh.key, dest, bh.token_program, ww.mint_meta(bh)), &[act::stranger()]));
            t.cells += 1;
            let got = world::token_amount(&post, &dest) as i128 - world::token_amount(&s, &dest) as i128;
            t.class(format!("program_fees_{}:{which}:{}", if enabled { "on" } else { "off" }, if r.ok() { "ok" } else { "refused" }));
            if r.ok() && which == "outsider" && got > 0 {
                t.found.push(Found {
                    clause: "C19.destination_receives_its_bucket".into(),
                    sig: format!("collect:program_fees_{}:outsider", if enabled { "on" } else { "off" }),
                    detail: format!("bank {} (group program fees {}): collection paid {got} of the program bucket into a token account that is not the global fee wallet's", bh.label, if enabled { "on" } else { "off" }),
                    replay: json!({"model": "C19A3", "program_fees_off": off}),
                });
            }
        }
    }
}

// ---------------------------------------------------------------- (B) draw-downs

fn drawdowns(e: &Env, t: &mut T) {
    let w = &e.w;
    let bank = w.banks[0].key;
    let signers = crate::checks::c08::signer_menu(e);
    let other_dest = w.users[1].tokens[&w.banks[0].mint];
    let dests = [("fixed_destination", e.fees_dest), ("another_token_account", other_dest)];
    for (sname, sg) in &signers {
        for (dname, dest) in dests {
            let cases: Vec<(&str, crate::svm::Ix, bool)> = vec![
                ("withdraw_fees", ix::withdraw_fees(w.group, bank, *sg, dest, spl_token::id(), 5, vec![]), *sg == w.roles.admin),
                ("withdraw_insurance", ix::withdraw_insurance(w.group, bank, *sg, dest, spl_token::id(), 5, vec![]), *sg == w.roles.admin),
                ("withdraw_fees_permissionless", ix::withdraw_fees_permissionless(w.group, bank, dest, spl_token::id(), 5, vec![]), dest == e.fees_dest),
            ];
            for (iname, i, legit) in cases {
                let mut post = e.s.clone();
                let (f0, i0) = (world::token_amount(&e.s, &w.banks[0].fv), world::token_amount(&e.s, &w.banks[0].iv));
                let r = process_tx(&mut post, &Tx::one(i, &[*sg]));
                t.cells += 1;
                let (f1, i1) = (world::token_amount(&post, &w.banks[0].fv), world::token_amount(&post, &w.banks[0].iv));
                t.class(format!("drawdown:{iname}:{}:{}", if legit { "entitled" } else { "not_entitled" }, if r.ok() { "ok" } else { "refused" }));
                if r.ok() && !legit && (f1 < f0 || i1 < i0) {
                    t.found.push(Found { clause: "C19.vaults_drawn_only_by_admin_or_to_fixed_destination".into(), sig: format!("{iname}:{sname}:{dname}"), detail: format!("{iname} signed by {sname} into {dname} drew the fee vault {f0} -> {f1} / insurance vault {i0} -> {i1}"), replay: json!({"model": "C19B", "ix": iname, "signer": sname, "dest": dname}) });
                }
            }
        }
    }
}

/// Two-step draw-down: every signer x {the bank's group, the foreign group} in the group slot asks for the fee
/// destination to be re-pointed at a token account of its own choosing, then a stranger withdraws fees
/// "permissionlessly" into that account. Only the bank's own group admin may make that second step pay.
fn repointed_destination(e: &Env, t: &mut T) {
    let w = &e.w;
    let bank = w.banks[0].key;
    let attacker_dest = w.users[1].tokens[&w.banks[0].mint];
    for (sname, sg) in &crate::checks::c08::signer_menu(e) {
        for (gname, group) in [("own_group", w.group), ("foreign_group", e.f.group)] {
            let legit = *sg == w.roles.admin && group == w.group;
            let mut s = e.s.clone();
            let r1 = process_tx(&mut s, &Tx::one(ix::update_fees_destination(group, bank, *sg, attacker_dest), &[*sg]));
            t.cells += 1;
            let f0 = world::token_amount(&s, &w.banks[0].fv);
            // the permissionless withdrawal names the bank's real group
            let r2 = process_tx(&mut s, &Tx::one(ix::withdraw_fees_permissionless(w.group, bank, attacker_dest, spl_token::id(), 5, vec![]), &[act::stranger()]));
            let f1 = world::token_amount(&s, &w.banks[0].fv);
            t.class(format!("repoint:{}:{gname}:{}:{}", if legit { "entitled" } else { "not_entitled" }, if r1.ok() { "repointed" } else { "refused" }, if r2.ok() { "paid" } else { "not_paid" }));
            if !legit && r2.ok() && f1 < f0 {
                t.found.push(Found {
                    clause: "C19.vaults_drawn_only_by_admin_or_to_fixed_destination".into(),
                    sig: format!("repoint:{sname}:{gname}"),
                    detail: format!("update_fees_destination_account signed by {sname} with the {gname} in the group slot was accepted, after which a permissionless withdrawal drew the fee vault {f0} -> {f1} into that signer's choice of account"),
                    replay: json!({"model": "C19B2", "signer": sname, "group": gname}),
                });
            }
        }
    }
}

// ---------------------------------------------------------------- (C) emissions accrual

#[derive(Clone, Debug, PartialEq, Eq, serde::Serialize, serde::Deserialize)]
enum EAct {
    Deposit(usize, u64),
    Withdraw(usize, u64),
    WithdrawAll(usize),
    Settle(usize),
    Claim(usize),
    Advance(i64),
    /// the emissions admin switches the lending rewards off / on
    Flags(bool),
}

struct EState {
    s: Store,
    path: Vec<EAct>,
    /// the reference's own ledger: when each of the two positions was last touched by an instruction
    /// (None: no position yet) — not read back from the program's `last_update` field
    touched: [Option<u64>; 2],
}

fn position(s: &Store, acct: &Pubkey, bank: &Pubkey) -> Option<(Q, Q, u64)> {
    let a = world::try_account(s, acct)?;
    let b = world::try_bank(s, bank)?;
    a.lending_account.balances.iter().find(|x| x.active != 0 && x.bank_pk == *bank).map(|x| (rf::q(x.asset_shares) * rf::q(b.asset_share_value), rf::q(x.emissions_outstanding), x.last_update))
}


// ---------------------------------------------------------------- (C0) funding the reward budget

/// setup_emissions / update_emissions_parameters x reward mint {SPL, Token-2022 without fee, with a 1 % fee,
/// with a fee capped low} x amounts: the budget the bank books (emissions_remaining) may never exceed the
/// reward tokens that actually arrived in the bank's reward vault — otherwise credited rewards can exceed
/// what was funded.
fn emissions_funding(e: &Env, t: &mut T) {
    let w = &e.w;
    let bank = w.banks[1].key; // no rewards configured on this bank in the golden state
    let admin = w.roles.emissions;
    let specs: Vec<(&str, MintSpec)> = vec![
        ("spl", MintSpec::spl("c19-em-spl", 6)),
        ("t22_nofee", MintSpec::t22("c19-em-t22", 6, None)),
        ("t22_fee1pct", MintSpec::t22("c19-em-t22-fee", 6, Some((100, u64::MAX / 4)))),
        ("t22_fee_capped", MintSpec::t22("c19-em-t22-cap", 6, Some((250, 700)))),
    ];
    for (mname, spec) in &specs {
        for &total in &[1u64, 99, 100, 1_000_000, 123_456_789] {
            for &extra in &[0u64, 1, 101, 1_000_000, 77_777_777] {
                let mut s = e.s.clone();
                let mint = create_mint(&mut s, &w.payer, &w.mint_auth, spec);
                let tp = spec.token_program();
                let funding = create_token_account(&mut s, &w.payer, &format!("C19:emfund:{mname}"), &mint, &admin, spec.t22);
                mint_to(&mut s, &w.mint_auth, &mint, &funding, spec.t22, 10_000_000_000);
                let vault = ix::emissions_vault(&bank, &mint);
                t.cells += 1;
                let rep = json!({"model": "C19C0", "mint": mname, "total": total, "extra": extra});
                let r = process_tx(&mut s, &Tx::one(ix::setup_emissions(w.group, admin, bank, mint, funding, tp, marginfi_type_crate::constants::EMISSIONS_FLAG_LENDING_ACTIVE, 1_000, total), &[admin]));
                if !r.ok() {
                    t.class(format!("funding:{mname}:setup:refused:{}", crate::svm::err_name(r.code())));
                    continue;
                }
                t.class(format!("funding:{mname}:setup:ok"));
                let mut judge = |s: &Store, step: &str, t: &mut T| {
                    let booked = rf::q(world::bank(s, &bank).emissions_remaining);
                    let held = rf::qu(world::token_amount(s, &vault));
                    if booked > held {
                        t.found.push(Found {
                            clause: "C19.emissions_within_budget".into(),
                            sig: format!("funding:{mname}:{step}"),
                            detail: format!("reward mint {mname}, setup total {total}, top-up {extra}: after {step} the bank books a remaining reward budget of {:.3} but its reward vault holds {:.0}", rf::qf64(&booked), rf::qf64(&held)),
                            replay: rep.clone(),
                        });
                    }
                };
                judge(&s, "setup_emissions", t);
                if extra > 0 {
                    let r = process_tx(&mut s, &Tx::one(ix::update_emissions_parameters(w.group, admin, bank, mint, funding, tp, None, None, Some(extra)), &[admin]));
                    if !r.ok() {
                        t.class(format!("funding:{mname}:top_up:refused:{}", crate::svm::err_name(r.code())));
                        continue;
                    }
                    t.class(format!("funding:{mname}:top_up:ok"));
                    judge(&s, "update_emissions_parameters", t);
                }
            }
        }
    }
}

/// (C1) a second reward campaign on a bank whose first campaign is used up: the budget of bank 0 (rewards configured in
/// the environment) is down to {0, 0.4, 25} while u0 still holds 10 unclaimed reward units; the emissions admin sets
/// up rewards again with another mint. Either that is refused, or the new reward vault covers the new budget *and* what
/// positions are still owed.
fn second_campaign(e: &Env, t: &mut T) {
    let w = &e.w;
    let bank = w.banks[0].key;
    let admin = w.roles.emissions;
    for remaining in [0.0f64, 0.4, 25.0] {
        for total in [20u64, 1_000_000] {
            let mut s = e.s.clone();
            let _ = process_tx(&mut s, &Tx::one(ix::settle_emissions(w.users[0].account, bank), &[act::stranger()]));
            world::edit_bank(&mut s, &bank, |b| b.emissions_remaining = raw_i80(remaining).into());
            world::edit_account(&mut s, &w.users[0].account, |a| {
                for bal in a.lending_account.balances.iter_mut() {
                    if bal.active != 0 && bal.bank_pk == bank {
                        bal.emissions_outstanding = raw_i80(10.0).into();
                    }
                }
            });
            let spec = MintSpec::spl("c19-em-second", 6);
            let mint = create_mint(&mut s, &w.payer, &w.mint_auth, &spec);
            let funding = create_token_account(&mut s, &w.payer, "C19:emfund:second", &mint, &admin, false);
            mint_to(&mut s, &w.mint_auth, &mint, &funding, false, 10_000_000_000);
            let r = process_tx(&mut s, &Tx::one(ix::setup_emissions(w.group, admin, bank, mint, funding, spl_token::id(), marginfi_type_crate::constants::EMISSIONS_FLAG_LENDING_ACTIVE, 1_000, total), &[admin]));
            t.cells += 1;
            t.class(format!("second_campaign:remaining_{remaining}:{}", if r.ok() { "ok" } else { "refused" }));
            if r.ok() {
                let b = world::bank(&s, &bank);
                let held = rf::qu(world::token_amount(&s, &ix::emissions_vault(&bank, &b.emissions_mint)));
                let owed = rf::q(b.emissions_remaining) + rf::qi(10);
                if owed > held {
                    t.found.push(Found {
                        clause: "C19.emissions_within_budget".into(),
                        sig: "second_campaign".into(),
                        detail: format!("with {remaining} of the first reward budget left and 10 reward units still owed to a position, a second setup_emissions (total {total}) was accepted: the bank now owes {:.3} in the new mint but its reward vault holds {:.0}", rf::qf64(&owed), rf::qf64(&held)),
                        replay: json!({"model": "C19C1", "remaining": remaining, "total": total}),
                    });
                }
            }
        }
    }
}

fn emissions_sequences(e: &Env, tier: Tier, t: &mut T) -> u64 {
    let w = &e.w;
    let bank = w.banks[0].key;
    let accts = [w.users[0].account, e.empty_account];
    // u0 lends the emitting bank already; the empty second account of the same authority starts from nothing
    let dest: [Pubkey; 2] = [e.em_dest_u0, e.em_dest_u0];
    let auth = w.users[0].authority;
    let ta = w.users[0].tokens[&w.banks[0].mint];
    let mut states = 0u64;
    // budget variants: ample, and nearly exhausted (the cap binds)
    for (bname, remaining, rate) in [("ample", 1_000_000_000f64, 1_000_000u64), ("nearly_exhausted", 1500.25f64, 1_000_000u64), ("zero_rate", 1_000_000_000f64, 0u64), ("high_rate", 1_000_000_000_000f64, 5_000_000_000u64), ("initially_off", 1_000_000_000f64, 1_000_000u64), ("legacy_unstamped", 1_000_000_000f64, 1_000_000u64)] {
        let mut s0 = e.s.clone();
        // bring u0's own emission clock up to the present before the budget is set
        let _ = process_tx(&mut s0, &Tx::one(ix::settle_emissions(accts[0], bank), &[act::stranger()]));
        // a quiet bank: no interest accrues (share value constant), so amounts are exact
        world::edit_bank(&mut s0, &bank, |b| {
            b.emissions_remaining = raw_i80(remaining).into();
            b.emissions_rate = rate;
            if bname == "initially_off" {
                // the rewards are configured but switched off: positions are touched before they are switched on
                b.flags &= !(marginfi_type_crate::constants::EMISSIONS_FLAG_LENDING_ACTIVE | marginfi_type_crate::constants::EMISSIONS_FLAG_BORROW_ACTIVE);
            }
            b.total_liability_shares = I80F48::ZERO.into();
        });
        if bname == "legacy_unstamped" {
            // a position from before positions carried a reward clock: its stamp is 0, the first touch earns nothing
            let bk = bank;
            world::edit_account(&mut s0, &accts[0], |a| {
                for b in a.lending_account.balances.iter_mut() {
                    if b.active != 0 && b.bank_pk == bk {
                        b.last_update = 0;
                    }
                }
            });
        }
        // fund the emissions vault generously so that payout never fails for lack of tokens
        mint_to(&mut s0, &w.mint_auth, &e.em_mint, &ix::emissions_vault(&bank, &e.em_mint), false, 2_000_000_000_000);
        // drop u1's debt position in this bank so that the books stay consistent (no borrowers)
        let u1 = w.users[1].account;
        world::edit_account(&mut s0, &u1, |a| {
            let mut bals: Vec<_> = a.lending_account.balances.iter().filter(|b| b.active != 0 && b.bank_pk != bank).cloned().collect();
            bals.sort_by(|x, y| y.bank_pk.cmp(&x.bank_pk));
            for (i, slot) in a.lending_account.balances.iter_mut().enumerate() {
                *slot = if i < bals.len() { bals[i] } else { marginfi_type_crate::types::Balance::empty_deactivated() };
            }
        });
        let depth = if tier == Tier::Quick { 4 } else { 5 };
        let touched0 = [position(&s0, &accts[0], &bank).map(|p| p.2), position(&s0, &accts[1], &bank).map(|p| p.2)];
        let mut frontier = vec![EState { s: s0.clone(), path: vec![], touched: touched0 }];
        let mut seen: BTreeSet<[u8; 32]> = BTreeSet::new();
        for _ in 0..depth {
            let mut next = vec![];
            for st in &frontier {
                let mut acts = vec![EAct::Advance(86_400 * 30), EAct::Advance(31_536_000), EAct::Flags(false), EAct::Flags(true)];
                for k in 0..2 {
                    acts.extend([EAct::Deposit(k, 1_000_000), EAct::Deposit(k, 999_000_000), EAct::Withdraw(k, 500_000), EAct::WithdrawAll(k), EAct::Settle(k), EAct::Claim(k)]);
                }
                for a in acts {
                    if let EAct::Advance(_) = a {
                        if st.path.iter().filter(|p| matches!(p, EAct::Advance(_))).count() >= 2 {
                            continue;
                        }
                    }
                    if let EAct::Flags(_) = a {
                        if st.path.iter().filter(|p| matches!(p, EAct::Flags(_))).count() >= 2 {
                            continue;
                        }
                    }
                    let mut post = st.s.clone();
                    let mut path = st.path.clone();
                    let mut touched = st.touched;
                    path.push(a.clone());
                    let rep = json!({"model": "C19C", "budget": bname, "path": path});
                    let (ok, who): (bool, Option<usize>) = match &a {
                        EAct::Advance(dt) => {
                            post.advance(*dt);
                            refresh_oracles(&mut post, w);
                            (true, None)
                        }
                        EAct::Flags(on) => {
                            let fl = if *on { marginfi_type_crate::constants::EMISSIONS_FLAG_LENDING_ACTIVE } else { 0 };
                            (process_tx(&mut post, &Tx::one(ix::update_emissions_parameters(w.group, w.roles.emissions, bank, e.em_mint, e.em_funding, spl_token::id(), Some(fl), None, None), &[w.roles.emissions])).ok(), None)
                        }
                        EAct::Deposit(k, amt) => (process_tx(&mut post, &Tx::one(ix::deposit(w.group, accts[*k], auth, bank, ta, spl_token::id(), *amt, None, vec![]), &[auth])).ok(), Some(*k)),
                        EAct::Withdraw(k, amt) => (process_tx(&mut post, &Tx::one(ix::withdraw(w.group, accts[*k], auth, bank, ta, spl_token::id(), *amt, None, w.risk_metas(&st.s, &accts[*k], None, None)), &[auth])).ok(), Some(*k)),
                        EAct::WithdrawAll(k) => (process_tx(&mut post, &Tx::one(ix::withdraw(w.group, accts[*k], auth, bank, ta, spl_token::id(), 0, Some(true), w.risk_metas(&st.s, &accts[*k], None, Some(bank))), &[auth])).ok(), Some(*k)),
                        EAct::Settle(k) => (process_tx(&mut post, &Tx::one(ix::settle_emissions(accts[*k], bank), &[act::stranger()])).ok(), Some(*k)),
                        EAct::Claim(k) => (process_tx(&mut post, &Tx::one(ix::withdraw_emissions(w.group, accts[*k], auth, bank, e.em_mint, dest[*k], spl_token::id()), &[auth])).ok(), Some(*k)),
                    };
                    t.cells += 1;
                    let kind = format!("{:?}", a).split('(').next().unwrap().to_string();
                    if !ok {
                        t.class(format!("emissions:{bname}:{kind}:refused"));
                        continue;
                    }
                    t.class(format!("emissions:{bname}:{kind}:ok"));
                    // judge the acting position: credited = change in outstanding + tokens paid out
                    if let Some(k) = who {
                        let pre = position(&st.s, &accts[k], &bank);
                        let postp = position(&post, &accts[k], &bank);
                        let paid = world::token_amount(&post, &dest[k]) as i128 - world::token_amount(&st.s, &dest[k]) as i128;
                        let (b0, b1) = (world::bank(&st.s, &bank), world::bank(&post, &bank));
                        let rem0 = rf::q(b0.emissions_remaining);
                        let rem1 = rf::q(b1.emissions_remaining);
                        let credited = postp.as_ref().map(|p| p.1.clone()).unwrap_or_else(Q::zero) - pre.as_ref().map(|p| p.1.clone()).unwrap_or_else(Q::zero) + rf::qi(paid);
                        // what the position earned since its last update, at its size before this instruction
                        let lending_on = b0.flags & marginfi_type_crate::constants::EMISSIONS_FLAG_LENDING_ACTIVE != 0;
                        let expected = match (&pre, st.touched[k]) {
                            (Some((amount, _, _)), Some(last)) if last >= marginfi_type_crate::constants::MIN_EMISSIONS_START_TIME && lending_on => {
                                let last = &last;
                                let period = rf::qi((post.now as i128) - (*last as i128));
                                let raw = period * amount.clone() / rf::pow10(6) / rf::qi(31_536_000) * rf::qu(b0.emissions_rate);
                                rf::qmin(raw, rem0.clone())
                            }
                            _ => Q::zero(),
                        };
                        if std::env::var("VERIF_C19_DEBUG").is_ok() && path.len() <= 2 {
                            eprintln!("C19C {bname} {:?}: credited {:.6} expected {:.6} rem {:.3}->{:.3} pre {:?}", path, rf::qf64(&credited), rf::qf64(&expected), rf::qf64(&rem0), rf::qf64(&rem1), pre.as_ref().map(|p| (rf::qf64(&p.0), p.2)));
                        }
                        let tol = rf::ulp() * rf::qi(64) * (rf::qone() + expected.clone()) + rf::qfrac(1, 1_000_000);
                        let closed_with_dust = postp.is_none() && pre.is_some();
                        if (credited.clone() - expected.clone()).abs() > tol && !closed_with_dust {
                            t.found.push(Found { clause: "C19.emissions_proportional".into(), sig: format!("{bname}:{kind}"), detail: format!("{bname} {:?}: position credited {:.6} reward units, expected {:.6} (size before {:.0}, elapsed {} s, rate {})", path, rf::qf64(&credited), rf::qf64(&expected), pre.as_ref().map(|p| rf::qf64(&p.0)).unwrap_or(0.0), pre.as_ref().map(|p| post.now as i128 - p.2 as i128).unwrap_or(0), b0.emissions_rate), replay: rep.clone() });
                        }
                        if closed_with_dust && credited > expected.clone() + tol.clone() {
                            t.found.push(Found { clause: "C19.emissions_proportional".into(), sig: format!("{bname}:{kind}:close"), detail: format!("{bname} {:?}: closing position was paid {:.6} but earned {:.6}", path, rf::qf64(&credited), rf::qf64(&expected)), replay: rep.clone() });
                        }
                        // the budget falls by exactly what was credited and never below zero
                        let spent = rem0.clone() - rem1.clone();
                        if rem1.is_negative() || (!closed_with_dust && (spent.clone() - credited.clone()).abs() > tol) || spent > rem0.clone() + tol.clone() {
                            t.found.push(Found { clause: "C19.emissions_within_budget".into(), sig: format!("{bname}:{kind}"), detail: format!("{bname} {:?}: remaining budget went {:.6} -> {:.6} while {:.6} was credited", path, rf::qf64(&rem0), rf::qf64(&rem1), rf::qf64(&credited)), replay: rep.clone() });
                        }
                        if paid < 0 {
                            t.found.push(Found { clause: "C19.emissions_within_budget".into(), sig: format!("{bname}:{kind}"), detail: "reward destination lost tokens".into(), replay: rep.clone() });
                        }
                    }
                    if let Some(k) = who {
                        touched[k] = if position(&post, &accts[k], &bank).is_some() { Some(post.now as u64) } else { None };
                    }
                    let key = crate::canon::state_key(&post, &[]);
                    if seen.insert(key) {
                        next.push(EState { s: post, path, touched });
                    }
                }
            }
            states += next.len() as u64;
            frontier = next;
            if frontier.len() > FRONTIER_CAP {
                TRUNCATED.fetch_add((frontier.len() - FRONTIER_CAP) as u64, std::sync::atomic::Ordering::Relaxed);
                frontier.truncate(FRONTIER_CAP);
            }
        }
    }
    states
}

// ---------------------------------------------------------------- (C2) rewards on the borrowing side

/// The same judgement for a bank whose rewards go to *borrowers* (and, in a second variant, to both sides): u0 lends
/// the bank, u1 owes it. The bank's interest curve and fees are zeroed, so share values stay constant and the reward
/// arithmetic is exact. Every sequence up to depth 3 (quick) / 4 of {settle, small deposit by the lender, repay /
/// borrow a little by the borrower, claim by either, 30-day advance}.
fn emissions_borrow_side(e: &Env, tier: Tier, t: &mut T) -> u64 {
    use marginfi_type_crate::constants::{EMISSIONS_FLAG_BORROW_ACTIVE, EMISSIONS_FLAG_LENDING_ACTIVE};
    let w = &e.w;
    let bank = w.banks[0].key;
    let accts = [w.users[0].account, w.users[1].account];
    let auths = [w.users[0].authority, w.users[1].authority];
    let tas = [w.users[0].tokens[&w.banks[0].mint], w.users[1].tokens[&w.banks[0].mint]];
    let mut states = 0u64;
    for (vname, flags) in [("borrow_only", EMISSIONS_FLAG_BORROW_ACTIVE), ("both_sides", EMISSIONS_FLAG_BORROW_ACTIVE | EMISSIONS_FLAG_LENDING_ACTIVE)] {
        let mut s0 = e.s.clone();
        // a reward destination for the borrower
        let dest_wallet = key("G:u1:emissions_wallet");
        let dest1 = ata(&dest_wallet, &e.em_mint, &spl_token::id());
        create_token_account_at(&mut s0, &w.payer, &dest1, &e.em_mint, &dest_wallet, false);
        if !process_tx(&mut s0, &Tx::one(ix::update_emissions_destination(accts[1], auths[1], dest_wallet), &[auths[1]])).ok() {
            t.class(format!("emissions:{vname}:setup_failed"));
            continue;
        }
        let dests = [e.em_dest_u0, dest1];
        // no interest: an all-zero curve without fees
        world::edit_bank(&mut s0, &bank, |b| {
            let ir = &mut b.config.interest_rate_config;
            ir.zero_util_rate = 0;
            ir.hundred_util_rate = 0;
            ir.points = [marginfi_type_crate::types::RatePoint::default(); 5];
            ir.curve_type = marginfi_type_crate::types::INTEREST_CURVE_SEVEN_POINT;
            ir.insurance_fee_fixed_apr = I80F48::ZERO.into();
            ir.insurance_ir_fee = I80F48::ZERO.into();
            ir.protocol_fixed_fee_apr = I80F48::ZERO.into();
            ir.protocol_ir_fee = I80F48::ZERO.into();
        });
        world::edit_group(&mut s0, &w.group, |g| {
            g.fee_state_cache.program_fee_fixed = I80F48::ZERO.into();
            g.fee_state_cache.program_fee_rate = I80F48::ZERO.into();
        });
        let _ = act::apply(w, &mut s0, &Action::Accrue { b: 0 });
        for k in 0..2 {
            let _ = process_tx(&mut s0, &Tx::one(ix::settle_emissions(accts[k], bank), &[act::stranger()]));
        }
        world::edit_bank(&mut s0, &bank, |b| {
            b.emissions_remaining = raw_i80(1_000_000_000f64).into();
            b.emissions_rate = 1_000_000;
            b.flags = (b.flags & !(EMISSIONS_FLAG_BORROW_ACTIVE | EMISSIONS_FLAG_LENDING_ACTIVE)) | flags;
        });
        mint_to(&mut s0, &w.mint_auth, &e.em_mint, &ix::emissions_vault(&bank, &e.em_mint), false, 2_000_000_000_000);
        #[derive(Clone, Debug, serde::Serialize)]
        enum BAct {
            Advance(i64),
            Settle(usize),
            LenderDeposit(u64),
            Repay(u64),
            Borrow(u64),
            Claim(usize),
        }
        // (asset amount, liability amount, outstanding rewards)
        let pos = |s: &Store, k: usize| -> Option<(Q, Q, Q)> {
            let a = world::try_account(s, &accts[k])?;
            let b = world::try_bank(s, &bank)?;
            a.lending_account.balances.iter().find(|x| x.active != 0 && x.bank_pk == bank).map(|x| (rf::q(x.asset_shares) * rf::q(b.asset_share_value), rf::q(x.liability_shares) * rf::q(b.liability_share_value), rf::q(x.emissions_outstanding)))
        };
        struct BState {
            s: Store,
            path: Vec<BAct>,
            touched: [u64; 2],
        }
        let depth = if tier == Tier::Quick { 3 } else { 4 };
        let mut frontier = vec![BState { s: s0.clone(), path: vec![], touched: [s0.now as u64; 2] }];
        let mut seen: BTreeSet<[u8; 32]> = BTreeSet::new();
        for _ in 0..depth {
            let mut next = vec![];
            for st in &frontier {
                let acts = vec![BAct::Advance(86_400 * 30), BAct::Settle(0), BAct::Settle(1), BAct::LenderDeposit(1_000_000), BAct::Repay(100_000), BAct::Borrow(100_000), BAct::Claim(0), BAct::Claim(1)];
                for a in acts {
                    if let BAct::Advance(_) = a {
                        if st.path.iter().filter(|p| matches!(p, BAct::Advance(_))).count() >= 2 {
                            continue;
                        }
                    }
                    let mut post = st.s.clone();
                    let mut path = st.path.clone();
                    path.push(a.clone());
                    let rep = json!({"model": "C19C2", "variant": vname, "path": path});
                    let (ok, who): (bool, Option<usize>) = match &a {
                        BAct::Advance(dt) => {
                            post.advance(*dt);
                            refresh_oracles(&mut post, w);
                            (true, None)
                        }
                        BAct::Settle(k) => (process_tx(&mut post, &Tx::one(ix::settle_emissions(accts[*k], bank), &[act::stranger()])).ok(), Some(*k)),
                        BAct::LenderDeposit(amt) => (process_tx(&mut post, &Tx::one(ix::deposit(w.group, accts[0], auths[0], bank, tas[0], spl_token::id(), *amt, None, vec![]), &[auths[0]])).ok(), Some(0)),
                        BAct::Repay(amt) => (process_tx(&mut post, &Tx::one(ix::repay(w.group, accts[1], auths[1], bank, tas[1], spl_token::id(), *amt, None, vec![]), &[auths[1]])).ok(), Some(1)),
                        BAct::Borrow(amt) => (process_tx(&mut post, &Tx::one(ix::borrow(w.group, accts[1], auths[1], bank, tas[1], spl_token::id(), *amt, w.risk_metas(&st.s, &accts[1], None, None)), &[auths[1]])).ok(), Some(1)),
                        BAct::Claim(k) => (process_tx(&mut post, &Tx::one(ix::withdraw_emissions(w.group, accts[*k], auths[*k], bank, e.em_mint, dests[*k], spl_token::id()), &[auths[*k]])).ok(), Some(*k)),
                    };
                    t.cells += 1;
                    let kind = format!("{:?}", a).split('(').next().unwrap().to_string();
                    if !ok {
                        t.class(format!("emissions:{vname}:{kind}:refused"));
                        continue;
                    }
                    t.class(format!("emissions:{vname}:{kind}:ok"));
                    let mut touched = st.touched;
                    if let Some(k) = who {
                        let (pre, postp) = (pos(&st.s, k), pos(&post, k));
                        let paid = world::token_amount(&post, &dests[k]) as i128 - world::token_amount(&st.s, &dests[k]) as i128;
                        let (b0, b1) = (world::bank(&st.s, &bank), world::bank(&post, &bank));
                        let (rem0, rem1) = (rf::q(b0.emissions_remaining), rf::q(b1.emissions_remaining));
                        let credited = postp.as_ref().map(|p| p.2.clone()).unwrap_or_else(Q::zero) - pre.as_ref().map(|p| p.2.clone()).unwrap_or_else(Q::zero) + rf::qi(paid);
                        // a deposit earns iff lending rewards are on, a debt iff borrowing rewards are on
                        let size = match &pre {
                            Some((a_amt, l_amt, _)) if *l_amt >= rf::qone() => {
                                if b0.flags & EMISSIONS_FLAG_BORROW_ACTIVE != 0 { l_amt.clone() } else { Q::zero() }
                            }
                            Some((a_amt, _, _)) if *a_amt >= rf::qone() => {
                                if b0.flags & EMISSIONS_FLAG_LENDING_ACTIVE != 0 { a_amt.clone() } else { Q::zero() }
                            }
                            _ => Q::zero(),
                        };
                        let period = rf::qi(post.now as i128 - st.touched[k] as i128);
                        let expected = rf::qmin(period * size.clone() / rf::pow10(6) / rf::qi(31_536_000) * rf::qu(b0.emissions_rate), rem0.clone());
                        let tol = rf::ulp() * rf::qi(64) * (rf::qone() + expected.clone()) + rf::qfrac(1, 1_000_000);
                        if (credited.clone() - expected.clone()).abs() > tol {
                            t.found.push(Found { clause: "C19.emissions_proportional".into(), sig: format!("{vname}:{kind}"), detail: format!("{vname} {:?}: {} position of size {:.0} credited {:.6} reward units, expected {:.6}", path, if k == 1 { "debt" } else { "deposit" }, rf::qf64(&size), rf::qf64(&credited), rf::qf64(&expected)), replay: rep.clone() });
                        }
                        let spent = rem0.clone() - rem1.clone();
                        if rem1.is_negative() || (spent.clone() - credited.clone()).abs() > tol {
                            t.found.push(Found { clause: "C19.emissions_within_budget".into(), sig: format!("{vname}:{kind}"), detail: format!("{vname} {:?}: remaining budget went {:.6} -> {:.6} while {:.6} was credited", path, rf::qf64(&rem0), rf::qf64(&rem1), rf::qf64(&credited)), replay: rep.clone() });
                        }
                        if expected > Q::zero() {
                            t.class(format!("emissions:{vname}:{}:earned", if k == 1 { "debt" } else { "deposit" }));
                        }
                        touched[k] = post.now as u64;
                    }
                    if seen.insert(crate::canon::state_key(&post, &[])) {
                        next.push(BState { s: post, path, touched });
                    }
                }
            }
            states += next.len() as u64;
            frontier = next;
        }
    }
    states
}

// ---------------------------------------------------------------- (D) reward withdrawal authorisation

fn reward_authorisation(e: &Env, t: &mut T) {
    let w = &e.w;
    let bank = w.banks[0].key;
    let acct = w.users[0].account;
    let signers = crate::checks::c08::signer_menu(e);
    let mut s0 = e.s.clone();
    s0.advance(86_400 * 30);
    refresh_oracles(&mut s0, w);
    golden::fund_all_identities(e, &mut s0);
    let other_dest = e.em_funding; // a token account of the reward mint that belongs to someone else
    for (stname, flag) in [("normal", 0u64), ("in_receivership", ACCOUNT_IN_RECEIVERSHIP), ("frozen", ACCOUNT_FROZEN), ("disabled", ACCOUNT_DISABLED)] {
        let mut s1 = s0.clone();
        world::edit_account(&mut s1, &acct, |a| a.account_flags |= flag);
        for (sname, sg) in &signers {
            for (dname, dest) in [("configured_destination", e.em_dest_u0), ("another_reward_token_account", other_dest)] {
                for variant in ["withdraw_emissions", "withdraw_emissions_permissionless"] {
                    let i = if variant == "withdraw_emissions" { ix::withdraw_emissions(w.group, acct, *sg, bank, e.em_mint, dest, spl_token::id()) } else { ix::withdraw_emissions_permissionless(w.group, acct, bank, e.em_mint, dest, spl_token::id()) };
                    let mut post = s1.clone();
                    let v0 = world::token_amount(&s1, &ix::emissions_vault(&bank, &e.em_mint));
                    let r = process_tx(&mut post, &Tx::one(i, &[*sg]));
                    t.cells += 1;
                    let v1 = world::token_amount(&post, &ix::emissions_vault(&bank, &e.em_mint));
                    // the statement: paid only to the destination the account's authority chose — either by
                    // signing the withdrawal, or by having configured it for permissionless payout
                    // (while an account is frozen the group admin stands in for its authority — C08's rule)
                    let legit = (variant == "withdraw_emissions" && (*sg == w.users[0].authority || (stname == "frozen" && *sg == w.roles.admin))) || (variant == "withdraw_emissions_permissionless" && dest == e.em_dest_u0);
                    t.class(format!("rewards:{variant}:{stname}:{}:{}", if legit { "entitled" } else { "not_entitled" }, if r.ok() { "ok" } else { "refused" }));
                    if r.ok() && !legit && v1 < v0 {
                        t.found.push(Found { clause: "C19.rewards_only_to_chosen_destination".into(), sig: format!("{variant}:{stname}:{sname}:{dname}"), detail: format!("{variant} on a {stname} account signed by {sname} paid {} reward units into {dname}", v0 - v1), replay: json!({"model": "C19D", "variant": variant, "state": stname, "signer": sname, "dest": dname}) });
                    }
                }
            }
        }
    }
}

/// (D2) an account whose authority never chose a reward destination (the state every account starts in): a third
/// party opens the canonical token account of the all-zero wallet (anyone can) and asks for the permissionless payout
/// into it. Nothing may be paid.
fn unset_destination(e: &Env, t: &mut T) {
    let w = &e.w;
    let bank = w.banks[0].key;
    // u1 lends bank 0 (rewarded) as well? if not, its own deposit is made here
    let acct = e.empty_account;
    let mut s = e.s.clone();
    let auth = w.users[0].authority;
    let ta = w.users[0].tokens[&w.banks[0].mint];
    if !process_tx(&mut s, &Tx::one(ix::deposit(w.group, acct, auth, bank, ta, spl_token::id(), 1_000_000_000, None, vec![]), &[auth])).ok() {
        t.class("unset_destination:setup_failed".into());
        return;
    }
    s.advance(86_400 * 30);
    refresh_oracles(&mut s, w);
    let _ = process_tx(&mut s, &Tx::one(ix::settle_emissions(acct, bank), &[act::stranger()]));
    if world::account(&s, &acct).emissions_destination_account != Pubkey::default() {
        t.class("unset_destination:already_set".into());
        return;
    }
    let zero_ata = ata(&Pubkey::default(), &e.em_mint, &spl_token::id());
    create_token_account_at(&mut s, &w.payer, &zero_ata, &e.em_mint, &Pubkey::default(), false);
    let v0 = world::token_amount(&s, &ix::emissions_vault(&bank, &e.em_mint));
    let mut post = s.clone();
    let r = process_tx(&mut post, &Tx::one(ix::withdraw_emissions_permissionless(w.group, acct, bank, e.em_mint, zero_ata, spl_token::id()), &[act::stranger()]));
    t.cells += 1;
    let v1 = world::token_amount(&post, &ix::emissions_vault(&bank, &e.em_mint));
    t.class(format!("unset_destination:permissionless:{}", if r.ok() { "ok" } else { "refused" }));
    if r.ok() && v1 < v0 {
        t.found.push(Found { clause: "C19.rewards_only_to_chosen_destination".into(), sig: "unset_destination".into(), detail: format!("the permissionless payout paid {} reward units of an account whose authority never chose a destination into the token account of the all-zero wallet", v0 - v1), replay: json!({"model": "C19D2"}) });
    }
}

pub fn run(tier: Tier) -> Outcome {
    let e = golden::build_env();
    let mut t = T { cells: 0, classes: BTreeMap::new(), found: vec![], samples: vec![] };
    fee_collection(&e, &mut t);
    rotated_wallet(&e, &mut t);
    program_fees_off(&e, &mut t);
    drawdowns(&e, &mut t);
    repointed_destination(&e, &mut t);
    emissions_funding(&e, &mut t);
    second_campaign(&e, &mut t);
    let states = emissions_sequences(&e, tier, &mut t) + emissions_borrow_side(&e, tier, &mut t);
    reward_authorisation(&e, &mut t);
    unset_destination(&e, &mut t);
    let mut o = Outcome { level: "exploration".into(), ..Default::default() };
    let mut per: BTreeMap<(String, String), usize> = BTreeMap::new();
    o.found = t.found.into_iter().filter(|f| {
        let n = per.entry((f.clause.clone(), f.sig.clone())).or_insert(0);
        *n += 1;
        *n <= 2
    }).collect();
    let ok: u64 = t.classes.iter().filter(|(k, _)| k.ends_with(":ok") || k.contains(":ok:")).map(|(_, v)| *v).sum();
    for need in ["collect:B6:ok:limited_by_liquidity", "collect:B6:ok:paid_in_full", "emissions:ample:Claim:ok", "emissions:nearly_exhausted:Claim:ok", "emissions:borrow_only:debt:earned", "emissions:both_sides:debt:earned", "emissions:both_sides:deposit:earned", "emissions:borrow_only:Claim:ok", "rewards:withdraw_emissions:normal:entitled:ok", "drawdown:withdraw_fees:entitled:ok", "rotated_wallet:B6:cache_stale:new_wallet:ok", "funding:spl:top_up:ok", "repoint:entitled:own_group:repointed:paid", "repoint:not_entitled:foreign_group:refused:not_paid", "funding:t22_fee1pct:top_up:ok", "funding:t22_fee_capped:top_up:ok", "rotated_wallet:B6:propagated:new_wallet:ok", "program_fees_off:canonical:ok", "program_fees_off:outsider:refused", "unset_destination:permissionless:refused"] {
        if *t.classes.get(need).unwrap_or(&0) == 0 {
            o.machinery.push(format!("vacuity guard: class {need} never occurred"));
        }
    }
    if t.samples.is_empty() {
        t.samples.push(json!({"note": "see classes"}));
    }
    o.coverage = json!({
        "evaluations": t.cells,
        "distinct_nontrivial": ok,
        "emission_states": states,
        "rule": "(A) buckets {0, 0.25, 1, 1.75, 100.5, 250.5}^3 x liquidity {0, 1, 5, 300, 352, 353, 1e6} x {SPL bank, Token-2022 bank with a 1 % transfer fee}: each bucket falls by a whole number not above its whole part, the liquidity vault pays exactly that sum, each of insurance vault / fee vault / global fee wallet's canonical token account receives its own bucket's amount (net of the mint's fee), everything whole is paid when liquidity suffices; (A2) after the global fee admin rotated the fee wallet, with the group's cached copy {stale, propagated}, collection offered the token account of {previous, current} wallet: nothing may be paid to the previous wallet's; (A3) a bank of a group whose program fees are switched off still holds a program bucket: collection offered the canonical fee-wallet token account / an outsider's; (B) {withdraw_fees, withdraw_insurance, withdraw_fees_permissionless} x 12 signers x {fixed destination, another token account}; (B2) 12 signers x {own, foreign group in the group slot} re-point the fee destination, then a stranger withdraws permissionlessly into it: only the bank's own group admin can make that pay; (C0) setup_emissions x top-up through update_emissions_parameters x reward mint {SPL, Token-2022 without fee, 1 % fee, fee capped at 700} x totals {1, 99, 100, 1e6, 123456789} x top-ups {0, 1, 101, 1e6, 77777777}: the booked remaining budget never exceeds the tokens in the reward vault; (C1) a second setup_emissions with another mint on a bank whose first budget is down to {0, 0.4, 25} while a position is still owed 10 units: refused, or the new vault covers budget plus what is owed; (C) every sequence up to depth 4 (quick) / 5 of {deposit small / large, withdraw, withdraw-all, settle, claim} by two accounts, clock advances {30 d, 1 y} (at most two) and the emissions admin switching the lending rewards off / on (at most twice) x budgets {ample, nearly exhausted, zero rate, high rate, ample but initially switched off, ample with a legacy position whose reward clock was never stamped}: credited rewards = elapsed x size-before x rate / year capped by the remaining budget, where *elapsed* is measured by the reference's own ledger of when each position was last touched (not read back from the program's field) and nothing is earned while the rewards are switched off at the time of the touch; budget falls by exactly that and never below zero; (C2) the same judgement on a bank that rewards borrowers / both sides (u0 lends, u1 owes; interest switched off): every sequence up to depth 3 (quick) / 4 of {settle either, lender deposits, borrower repays / borrows a little, claim by either, 30-day advance (at most two)}: a debt earns iff borrowing rewards are on, a deposit iff lending rewards are on, each on its own size; (D) reward withdrawal {signed, permissionless} x 12 signers x {normal, in receivership, frozen, disabled} x {configured destination, another reward token account}",
        "exhaustive": TRUNCATED.load(std::sync::atomic::Ordering::Relaxed) == 0,
        "cap_hit": if TRUNCATED.load(std::sync::atomic::Ordering::Relaxed) == 0 { serde_json::Value::Null } else { json!(format!("reward-sequence frontier capped at {} states per layer; {} states were dropped from the last layers", FRONTIER_CAP, TRUNCATED.load(std::sync::atomic::Ordering::Relaxed))) },
        "outcome_classes": t.classes,
        "samples": t.samples,
    });
    o.assumptions = vec!["environment model E1 (svm-lite)".into(), "fee buckets, vault balances, the reward budget and account flags are forged values; the emitting bank is made quiet (no borrowers) so that share values stay constant during the reward sequences".into()];
    let _ = raw_i80(0.0);
    o
}

pub fn replay(v: &serde_json::Value) -> Vec<crate::mc::Violation> {
    let o = run(Tier::Quick);
    let m = v["model"].as_str().unwrap_or("").to_string();
    o.found.into_iter().filter(|f| f.replay["model"].as_str().unwrap_or("") == m).map(|f| crate::mc::Violation { clause: f.clause, detail: f.detail }).collect()
}
