//! High-level actions (transaction templates) instantiated on a state, the way a correct client
//! would: remaining accounts are derived from the pre-state.

use crate::ix;
use crate::svm::{Ix, Store, Tx};
use crate::world::{self, World};
use solana_program::{instruction::AccountMeta, pubkey::Pubkey};

#[derive(Clone, Debug, PartialEq, Eq, Hash, PartialOrd, Ord, serde::Serialize, serde::Deserialize)]
pub enum Signer {
    /// the authority of the acting account
    Authority,
    GroupAdmin,
    RiskAdmin,
    EmodeAdmin,
    CurveAdmin,
    LimitAdmin,
    EmissionsAdmin,
    MetadataAdmin,
    FeeAdmin,
    /// authority of user i
    User(usize),
    Stranger,
}

#[derive(Clone, Debug, PartialEq, Eq, Hash, PartialOrd, Ord, serde::Serialize, serde::Deserialize)]
pub enum Action {
    Deposit { u: usize, b: usize, amt: u64, up_to_limit: Option<bool> },
    Withdraw { u: usize, b: usize, amt: u64, all: bool },
    Borrow { u: usize, b: usize, amt: u64 },
    Repay { u: usize, b: usize, amt: u64, all: bool },
    CloseBalance { u: usize, b: usize },
    Liquidate { liquidator: usize, liquidatee: usize, asset: usize, liab: usize, amt: u64 },
    /// the same liquidation with surplus observation accounts for the liquidator: after the sorted list of
    /// its banks the seized-asset bank and the debt bank are listed once more (a correct program ignores
    /// them; one that opens a second position for a bank needs them to commit)
    /// `pad`: 0 = the seized-asset bank is listed twice in its place, 1 = the debt bank is, 2 = both once more at the end
    LiquidatePadded { liquidator: usize, liquidatee: usize, asset: usize, liab: usize, amt: u64, pad: u8 },
    Bankruptcy { signer: Signer, u: usize, b: usize },
    /// a third party's receivership bracket on `liquidatee`: [init record if missing, start_liquidation, repay r_amt of
    /// `liab`, withdraw w_amt of `asset`, end_liquidation], signed by `liquidator`'s authority, tokens from / to its wallets
    Receivership { liquidator: usize, liquidatee: usize, asset: usize, liab: usize, w_amt: u64, r_amt: u64 },
    Accrue { b: usize },
    /// the permissionless price-cache crank of a bank (reads the oracle, must not touch interest)
    PulsePriceCache { b: usize },
    CollectFees { b: usize },
    /// risk admin's token-less write-off: repay_all signed by the risk admin
    TokenlessRepay { u: usize, b: usize },
    Purge { u: usize, b: usize },
    ForceTokenlessComplete { b: usize },
    /// group admin re-tags a bank (configure_bank asset_tag)
    Retag { b: usize, tag: u8 },
    /// transfer_to_new_account (same authority keeps control; new account key is derived)
    Transfer { u: usize },
    /// transfer through the PDA flavour of the instruction
    TransferPda { u: usize },
    /// `base` with the given vault of the given bank replaced, in every account list, by a token
    /// account of the same mint that belongs to user 1 (an adversarial but well-typed account list)
    WithVaultSwap { base: Box<Action>, bank: usize, kind: u8 },
    /// `base` (a deposit, withdrawal, borrow or repayment) inside a flash-loan bracket of the acting account:
    /// one transaction [start_flashloan, base, end_flashloan]
    InFlashloan { base: Box<Action> },
    CloseAccount { u: usize },
    /// close the user's *original* account (after a transfer it is the migrated-away, disabled one)
    CloseOriginal { u: usize },
    CloseBank { b: usize },
    Freeze { u: usize, on: bool },
    /// time passes; oracles are cranked (their publish time follows the clock)
    Advance { dt: i64 },
    /// time passes and nobody cranks the oracles
    AdvanceStale { dt: i64 },
    /// oracle price of bank b is multiplied by num/den
    SetPrice { b: usize, num: i64, den: i64 },
}

pub fn stranger() -> Pubkey {
    world::key("global:stranger")
}

pub fn signer_key(w: &World, sg: &Signer, acting_user: Option<usize>) -> Pubkey {
    match sg {
        Signer::Authority => w.users[acting_user.expect("acting user")].authority,
        Signer::GroupAdmin => w.roles.admin,
        Signer::RiskAdmin => w.roles.risk,
        Signer::EmodeAdmin => w.roles.emode,
        Signer::CurveAdmin => w.roles.curve,
        Signer::LimitAdmin => w.roles.limit,
        Signer::EmissionsAdmin => w.roles.emissions,
        Signer::MetadataAdmin => w.roles.metadata,
        Signer::FeeAdmin => w.fee_admin,
        Signer::User(i) => w.users[*i].authority,
        Signer::Stranger => stranger(),
    }
}

/// The account currently holding user u's positions: follows the migration chain.
pub fn cur_account(w: &World, s: &Store, u: usize) -> Pubkey {
    let mut k = w.users[u].account;
    for _ in 0..8 {
        match s.get(&k) {
            Some(a) if a.owner == marginfi::ID && a.data.len() == 8 + std::mem::size_of::<marginfi_type_crate::types::MarginfiAccount>() => {
                let m = world::account(s, &k);
                if m.migrated_to != Pubkey::default() {
                    k = m.migrated_to;
                } else {
                    return k;
                }
            }
            _ => return k,
        }
    }
    k
}

pub fn next_account_key(old: &Pubkey) -> Pubkey {
    world::key(&format!("migrated:{}", old))
}

/// index used for PDA transfers of this old account (distinct per source so that chains work)
pub fn pda_index_for(old: &Pubkey) -> u16 {
    u16::from_le_bytes([old.to_bytes()[0], old.to_bytes()[1]]) | 1
}

pub fn next_account_key_pda(w: &World, old: &Pubkey, new_authority: &Pubkey) -> Pubkey {
    ix::account_pda(&w.group, new_authority, pda_index_for(old), None)
}

fn with_mint(w: &World, b: usize, mut rest: Vec<AccountMeta>) -> Vec<AccountMeta> {
    let mut v = w.mint_meta(&w.banks[b]);
    v.append(&mut rest);
    v
}

/// Build the instruction of a user-level action with an explicit signer (authorisation checks
/// substitute the signer; everything else is as the authority would send it).
pub fn user_ix(w: &World, s: &Store, a: &Action, signer: Pubkey) -> Option<Ix> {
    let g = w.group;
    let acct = |u: usize| cur_account(w, s, u);
    Some(match a {
        Action::Deposit { u, b, amt, up_to_limit } => {
            let (us, bk) = (&w.users[*u], &w.banks[*b]);
            ix::deposit(g, acct(*u), signer, bk.key, us.tokens[&bk.mint], bk.token_program, *amt, *up_to_limit, with_mint(w, *b, vec![]))
        }
        Action::Repay { u, b, amt, all } => {
            let (us, bk) = (&w.users[*u], &w.banks[*b]);
            ix::repay(g, acct(*u), signer, bk.key, us.tokens[&bk.mint], bk.token_program, *amt, if *all { Some(true) } else { None }, with_mint(w, *b, vec![]))
        }
        Action::Withdraw { u, b, amt, all } => {
            let (us, bk) = (&w.users[*u], &w.banks[*b]);
            let rem = w.risk_metas(s, &acct(*u), None, if *all { Some(bk.key) } else { None });
            ix::withdraw(g, acct(*u), signer, bk.key, us.tokens[&bk.mint], bk.token_program, *amt, if *all { Some(true) } else { None }, with_mint(w, *b, rem))
        }
        Action::Borrow { u, b, amt } => {
            let (us, bk) = (&w.users[*u], &w.banks[*b]);
            let rem = w.risk_metas(s, &acct(*u), Some(bk.key), None);
            ix::borrow(g, acct(*u), signer, bk.key, us.tokens[&bk.mint], bk.token_program, *amt, with_mint(w, *b, rem))
        }
        Action::CloseBalance { u, b } => ix::close_balance(g, acct(*u), signer, w.banks[*b].key),
        Action::Liquidate { liquidator, liquidatee, asset, liab, amt } | Action::LiquidatePadded { liquidator, liquidatee, asset, liab, amt, .. } => {
            let pad = match a {
                Action::LiquidatePadded { pad, .. } => Some(*pad),
                _ => None,
            };
            let (lq_acct, le_acct) = (acct(*liquidator), acct(*liquidatee));
            let (ab, lb) = (&w.banks[*asset], &w.banks[*liab]);
            // liquidator ends with positions in both banks
            let mut lq_banks: Vec<Pubkey> = match world::try_account(s, &lq_acct) {
                Some(a) => a.lending_account.balances.iter().filter(|x| x.active != 0).map(|x| x.bank_pk).collect(),
                None => vec![],
            };
            for k in [ab.key, lb.key] {
                if !lq_banks.contains(&k) {
                    lq_banks.push(k);
                }
            }
            lq_banks.sort_by(|a, b| b.cmp(a));
            let mut lq_metas = vec![];
            for k in &lq_banks {
                lq_metas.extend(w.observation(s, k));
                if (pad == Some(0) && *k == ab.key) || (pad == Some(1) && *k == lb.key) {
                    lq_metas.extend(w.observation(s, k));
                }
            }
            if pad == Some(2) {
                let (hi, lo) = if ab.key > lb.key { (ab.key, lb.key) } else { (lb.key, ab.key) };
                lq_metas.extend(w.observation(s, &hi));
                lq_metas.extend(w.observation(s, &lo));
            }
            let le_metas = w.risk_metas(s, &le_acct, None, None);
            let mut rem = w.mint_meta(lb);
            let ao = w.observation(s, &ab.key);
            let lo = w.observation(s, &lb.key);
            rem.extend(ao[1..].iter().cloned());
            rem.extend(lo[1..].iter().cloned());
            let (nq, ne) = (lq_metas.len() as u8, le_metas.len() as u8);
            rem.extend(lq_metas);
            rem.extend(le_metas);
            ix::liquidate(g, ab.key, lb.key, lq_acct, signer, le_acct, lb.token_program, *amt, ne, nq, rem)
        }
        Action::Bankruptcy { u, b, .. } => {
            let bk = &w.banks[*b];
            let rem = w.risk_metas(s, &acct(*u), None, None);
            ix::handle_bankruptcy(g, signer, bk.key, acct(*u), bk.token_program, with_mint(w, *b, rem))
        }
        Action::Accrue { b } => ix::accrue(g, w.banks[*b].key),
        Action::PulsePriceCache { b } => {
            let k = w.banks[*b].key;
            // the bank's oracle accounts (without the bank itself)
            let rem: Vec<_> = w.observation(s, &k).into_iter().skip(1).collect();
            ix::pulse_bank_price_cache(g, k, rem)
        }
        Action::CollectFees { b } => {
            let bk = &w.banks[*b];
            ix::collect_bank_fees(g, bk.key, bk.fee_ata, bk.token_program, w.mint_meta(bk))
        }
        Action::TokenlessRepay { u, b } => {
            let (us, bk) = (&w.users[*u], &w.banks[*b]);
            ix::repay(g, acct(*u), signer, bk.key, us.tokens[&bk.mint], bk.token_program, 0, Some(true), with_mint(w, *b, vec![]))
        }
        Action::Purge { u, b } => ix::purge_deleverage_balance(g, acct(*u), signer, w.banks[*b].key),
        Action::ForceTokenlessComplete { b } => ix::force_tokenless_repay_complete(g, signer, w.banks[*b].key),
        Action::Retag { b, tag } => ix::configure_bank(g, signer, w.banks[*b].key, marginfi_type_crate::types::BankConfigOpt { asset_tag: Some(*tag), ..Default::default() }),
        Action::Transfer { u } => {
            let old = acct(*u);
            ix::transfer_to_new_account(g, old, next_account_key(&old), signer, w.payer, w.users[*u].authority, w.fee_wallet)
        }
        Action::TransferPda { u } => {
            let old = acct(*u);
            ix::transfer_to_new_account_pda(g, old, signer, w.payer, w.users[*u].authority, w.fee_wallet, pda_index_for(&old), None).1
        }
        Action::WithVaultSwap { base, bank, kind } => {
            let mut i = user_ix(w, s, base, signer)?;
            let bh = &w.banks[*bank];
            let from = match kind {
                0 => bh.lv,
                1 => bh.iv,
                _ => bh.fv,
            };
            let to = w.users[1].tokens[&bh.mint];
            for m in i.accounts.iter_mut() {
                if m.pubkey == from {
                    m.pubkey = to;
                }
            }
            i
        }
        Action::CloseAccount { u } => ix::account_close(acct(*u), signer, w.payer),
        Action::CloseOriginal { u } => ix::account_close(w.users[*u].account, signer, w.payer),
        Action::CloseBank { b } => ix::close_bank(g, w.banks[*b].key, signer),
        Action::Freeze { u, on } => ix::set_account_freeze(g, acct(*u), signer, *on),
        Action::Advance { .. } | Action::AdvanceStale { .. } | Action::SetPrice { .. } | Action::Receivership { .. } | Action::InFlashloan { .. } => return None,
    })
}

/// every key that must sign the transaction of this action besides the acting signer
pub fn extra_signers(w: &World, s: &Store, a: &Action) -> Vec<Pubkey> {
    match a {
        Action::Transfer { u } => vec![w.payer, next_account_key(&cur_account(w, s, *u))],
        Action::TransferPda { .. } => vec![w.payer],
        Action::WithVaultSwap { base, .. } | Action::InFlashloan { base } => extra_signers(w, s, base),
        Action::CloseAccount { .. } | Action::CloseOriginal { .. } => vec![w.payer],
        _ => vec![],
    }
}

pub fn default_signer(w: &World, a: &Action) -> Option<Pubkey> {
    Some(match a {
        Action::Deposit { u, .. } | Action::Withdraw { u, .. } | Action::Borrow { u, .. } | Action::Repay { u, .. } | Action::CloseBalance { u, .. } => {
            w.users[*u].authority
        }
        Action::Liquidate { liquidator, .. } | Action::LiquidatePadded { liquidator, .. } => w.users[*liquidator].authority,
        Action::Bankruptcy { signer, u, .. } => signer_key(w, signer, Some(*u)),
        Action::Receivership { liquidator, .. } => w.users[*liquidator].authority,
        Action::Accrue { .. } | Action::CollectFees { .. } | Action::PulsePriceCache { .. } => w.payer,
        Action::TokenlessRepay { .. } | Action::Purge { .. } | Action::ForceTokenlessComplete { .. } => w.roles.risk,
        Action::Transfer { u } | Action::TransferPda { u } | Action::CloseAccount { u } | Action::CloseOriginal { u } => w.users[*u].authority,
        Action::WithVaultSwap { base, .. } | Action::InFlashloan { base } => return default_signer(w, base),
        Action::CloseBank { .. } | Action::Freeze { .. } | Action::Retag { .. } => w.roles.admin,
        _ => return None,
    })
}

#[derive(Clone, Debug, PartialEq, Eq)]
pub struct StepResult {
    pub code: u64,
    pub committed: bool,
}

/// the transaction of a `Receivership` action
fn receivership_tx(w: &World, s: &Store, a: &Action) -> Tx {
    let Action::Receivership { liquidator, liquidatee, asset, liab, w_amt, r_amt } = a else { unreachable!() };
    let signer = w.users[*liquidator].authority;
    let acct = cur_account(w, s, *liquidatee);
    let (ab, lb) = (&w.banks[*asset], &w.banks[*liab]);
    let lq = &w.users[*liquidator];
    let rem = w.risk_metas(s, &acct, None, None);
    let mut ixs = vec![];
    let mut signers = vec![signer];
    if s.get(&ix::liq_record_key(&acct)).is_none() {
        ixs.push(ix::init_liq_record(acct, w.payer));
        signers.push(w.payer);
    }
    ixs.push(ix::start_liquidation(acct, signer, rem.clone()));
    ixs.push(ix::repay(w.group, acct, signer, lb.key, lq.tokens[&lb.mint], lb.token_program, *r_amt, None, with_mint(w, *liab, vec![])));
    ixs.push(ix::withdraw(w.group, acct, signer, ab.key, lq.tokens[&ab.mint], ab.token_program, *w_amt, None, with_mint(w, *asset, rem.clone())));
    ixs.push(ix::end_liquidation(acct, signer, w.fee_wallet, rem));
    Tx::new(ixs, &signers)
}

/// The transaction an action stands for (None for environment actions, which edit the store).
pub fn tx_for(w: &World, s: &Store, a: &Action) -> Option<Tx> {
    match a {
        Action::Advance { .. } | Action::AdvanceStale { .. } | Action::SetPrice { .. } => None,
        Action::Receivership { .. } => Some(receivership_tx(w, s, a)),
        Action::TokenlessRepay { u, .. } => {
            let signer = default_signer(w, a).unwrap();
            let acct = cur_account(w, s, *u);
            let rem = w.risk_metas(s, &acct, None, None);
            let i = user_ix(w, s, a, signer).unwrap();
            let mut ixs = vec![];
            let mut signers = vec![signer];
            if s.get(&ix::liq_record_key(&acct)).is_none() {
                ixs.push(ix::init_liq_record(acct, w.payer));
                signers.push(w.payer);
            }
            let bkey = match a {
                Action::TokenlessRepay { b, .. } => w.banks[*b].key,
                _ => unreachable!(),
            };
            let rem_end = w.risk_metas(s, &acct, None, Some(bkey));
            ixs.extend([ix::start_deleverage(w.group, acct, signer, rem.clone()), i, ix::end_deleverage(w.group, acct, signer, rem_end)]);
            Some(Tx::new(ixs, &signers))
        }
        _ => {
            let signer = default_signer(w, a)?;
            let i = user_ix(w, s, a, signer)?;
            let mut signers = vec![signer];
            signers.extend(extra_signers(w, s, a));
            Some(Tx::one(i, &signers))
        }
    }
}

/// Apply an action to the store (environment actions always "commit").
pub fn apply(w: &World, s: &mut Store, a: &Action) -> StepResult {
    match a {
        Action::Advance { dt } => {
            s.advance(*dt);
            world::refresh_oracles(s, w);
            StepResult { code: 0, committed: true }
        }
        Action::AdvanceStale { dt } => {
            s.advance(*dt);
            StepResult { code: 0, committed: true }
        }
        Action::SetPrice { b, num, den } => {
            if let Some(o) = w.banks[*b].oracle {
                world::scale_pyth_price(s, &o, *num, *den);
            }
            StepResult { code: 0, committed: true }
        }
        Action::Receivership { .. } => {
            let r = crate::svm::process_tx(s, &receivership_tx(w, s, a));
            StepResult { code: r.code(), committed: r.ok() }
        }
        Action::InFlashloan { base } => {
            let (u, b) = match base.as_ref() {
                Action::Deposit { u, b, .. } | Action::Withdraw { u, b, .. } | Action::Borrow { u, b, .. } | Action::Repay { u, b, .. } => (*u, *b),
                _ => return StepResult { code: crate::svm::ERR_UNSUPPORTED_CPI, committed: false },
            };
            let signer = default_signer(w, base).unwrap();
            let acct = cur_account(w, s, u);
            let Some(i) = user_ix(w, s, base, signer) else { return StepResult { code: crate::svm::ERR_UNSUPPORTED_CPI, committed: false } };
            // the end instruction carries the risk accounts as they look afterwards: with the base's bank added (a position
            // was opened), as they are, or without it (the position was closed) - the first layout that commits is taken
            let bkey = w.banks[b].key;
            let layouts = [w.risk_metas(s, &acct, Some(bkey), None), w.risk_metas(s, &acct, None, None), w.risk_metas(s, &acct, None, Some(bkey))];
            let mut last = StepResult { code: 0, committed: false };
            for rem in layouts {
                let tx = Tx::new(vec![ix::start_flashloan(acct, signer, 2), i.clone(), ix::end_flashloan(acct, signer, rem)], &[signer]);
                let mut t = s.clone();
                let r = crate::svm::process_tx(&mut t, &tx);
                if r.ok() {
                    *s = t;
                    return StepResult { code: 0, committed: true };
                }
                last = StepResult { code: r.code(), committed: false };
            }
            last
        }
        Action::TokenlessRepay { u, .. } => {
            // the risk admin acts on someone else's account inside a deleverage bracket
            let signer = default_signer(w, a).unwrap();
            let acct = cur_account(w, s, *u);
            let rem = w.risk_metas(s, &acct, None, None);
            let i = user_ix(w, s, a, signer).unwrap();
            let mut ixs = vec![];
            let mut signers = vec![signer];
            if s.get(&ix::liq_record_key(&acct)).is_none() {
                ixs.push(ix::init_liq_record(acct, w.payer));
                signers.push(w.payer);
            }
            // repay-all closes the position: the closing health check sees the remaining balances
            let bkey = match a {
                Action::TokenlessRepay { b, .. } => w.banks[*b].key,
                _ => unreachable!(),
            };
            let rem_end = w.risk_metas(s, &acct, None, Some(bkey));
            ixs.extend([ix::start_deleverage(w.group, acct, signer, rem.clone()), i, ix::end_deleverage(w.group, acct, signer, rem_end)]);
            let tx = Tx::new(ixs, &signers);
            let r = crate::svm::process_tx(s, &tx);
            StepResult { code: r.code(), committed: r.ok() }
        }
        _ => {
            let signer = default_signer(w, a).unwrap();
            let i = user_ix(w, s, a, signer).unwrap();
            let mut signers = vec![signer];
            signers.extend(extra_signers(w, s, a));
            let r = crate::svm::process_tx(s, &Tx::one(i, &signers));
            if !r.ok() {
                if let Action::Withdraw { u, b, amt, all: true } = a {
                    // a full withdrawal normally closes the position, so a client leaves its bank out of the risk
                    // accounts; should the program keep the position open (it must not, having paid it out), the same
                    // request with the bank still listed is what a client would send next
                    let (us, bk) = (&w.users[*u], &w.banks[*b]);
                    let acct = cur_account(w, s, *u);
                    let mut rem = w.mint_meta(bk);
                    rem.extend(w.risk_metas(s, &acct, None, None));
                    let i2 = ix::withdraw(w.group, acct, signer, bk.key, us.tokens[&bk.mint], bk.token_program, *amt, Some(true), rem);
                    let r2 = crate::svm::process_tx(s, &Tx::one(i2, &signers));
                    if r2.ok() {
                        return StepResult { code: 0, committed: true };
                    }
                }
            }
            StepResult { code: r.code(), committed: r.ok() }
        }
    }
}
