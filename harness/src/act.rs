//! High-level actions (transaction templates) instantiated on a state, the way a correct client
//! would: remaining accounts are derived from the pre-state.

use crate::ix;
use crate::svm::{Ix, Store, Tx};
use crate::world::{self, World};
use solana_program::{instruction::AccountMeta, pubkey::Pubkey};

#[derive(Clone, Debug, PartialEq, Eq, Hash, PartialOrd, Ord)]
pub enum Signer {
    /// the authority of the acting account
    Authority,
    GroupAdmin,
    RiskAdmin,
    EmodeAdmin,
    CurveAdmin,
    LimitAdmin,
    EmissionsAdmin,
    MetadataAdmin,
    FeeAdmin,
    /// authority of user i
    User(usize),
    Stranger,
}

#[derive(Clone, Debug, PartialEq, Eq, Hash, PartialOrd, Ord)]
pub enum Action {
    Deposit { u: usize, b: usize, amt: u64, up_to_limit: Option<bool> },
    Withdraw { u: usize, b: usize, amt: u64, all: bool },
    Borrow { u: usize, b: usize, amt: u64 },
    Repay { u: usize, b: usize, amt: u64, all: bool },
    CloseBalance { u: usize, b: usize },
    Liquidate { liquidator: usize, liquidatee: usize, asset: usize, liab: usize, amt: u64 },
    Bankruptcy { signer: Signer, u: usize, b: usize },
    Accrue { b: usize },
    CollectFees { b: usize },
    /// time passes; oracles are cranked (their publish time follows the clock)
    Advance { dt: i64 },
    /// time passes and nobody cranks the oracles
    AdvanceStale { dt: i64 },
    /// oracle price of bank b is multiplied by num/den
    SetPrice { b: usize, num: i64, den: i64 },
}

pub fn stranger() -> Pubkey {
    world::key("global:stranger")
}

pub fn signer_key(w: &World, sg: &Signer, acting_user: Option<usize>) -> Pubkey {
    match sg {
        Signer::Authority => w.users[acting_user.expect("acting user")].authority,
        Signer::GroupAdmin => w.roles.admin,
        Signer::RiskAdmin => w.roles.risk,
        Signer::EmodeAdmin => w.roles.emode,
        Signer::CurveAdmin => w.roles.curve,
        Signer::LimitAdmin => w.roles.limit,
        Signer::EmissionsAdmin => w.roles.emissions,
        Signer::MetadataAdmin => w.roles.metadata,
        Signer::FeeAdmin => w.fee_admin,
        Signer::User(i) => w.users[*i].authority,
        Signer::Stranger => stranger(),
    }
}

fn with_mint(w: &World, b: usize, mut rest: Vec<AccountMeta>) -> Vec<AccountMeta> {
    let mut v = w.mint_meta(&w.banks[b]);
    v.append(&mut rest);
    v
}

/// Build the instruction of a user-level action with an explicit signer (authorisation checks
/// substitute the signer; everything else is as the authority would send it).
pub fn user_ix(w: &World, s: &Store, a: &Action, signer: Pubkey) -> Option<Ix> {
    let g = w.group;
    Some(match a {
        Action::Deposit { u, b, amt, up_to_limit } => {
            let (us, bk) = (&w.users[*u], &w.banks[*b]);
            ix::deposit(g, us.account, signer, bk.key, us.tokens[&bk.mint], bk.token_program, *amt, *up_to_limit, with_mint(w, *b, vec![]))
        }
        Action::Repay { u, b, amt, all } => {
            let (us, bk) = (&w.users[*u], &w.banks[*b]);
            ix::repay(g, us.account, signer, bk.key, us.tokens[&bk.mint], bk.token_program, *amt, if *all { Some(true) } else { None }, with_mint(w, *b, vec![]))
        }
        Action::Withdraw { u, b, amt, all } => {
            let (us, bk) = (&w.users[*u], &w.banks[*b]);
            let rem = w.risk_metas(s, &us.account, None, if *all { Some(bk.key) } else { None });
            ix::withdraw(g, us.account, signer, bk.key, us.tokens[&bk.mint], bk.token_program, *amt, if *all { Some(true) } else { None }, with_mint(w, *b, rem))
        }
        Action::Borrow { u, b, amt } => {
            let (us, bk) = (&w.users[*u], &w.banks[*b]);
            let rem = w.risk_metas(s, &us.account, Some(bk.key), None);
            ix::borrow(g, us.account, signer, bk.key, us.tokens[&bk.mint], bk.token_program, *amt, with_mint(w, *b, rem))
        }
        Action::CloseBalance { u, b } => ix::close_balance(g, w.users[*u].account, signer, w.banks[*b].key),
        Action::Liquidate { liquidator, liquidatee, asset, liab, amt } => {
            let (lq, le) = (&w.users[*liquidator], &w.users[*liquidatee]);
            let (ab, lb) = (&w.banks[*asset], &w.banks[*liab]);
            // liquidator ends with positions in both banks
            let mut lq_banks: Vec<Pubkey> = world::account(s, &lq.account)
                .lending_account
                .balances
                .iter()
                .filter(|x| x.active != 0)
                .map(|x| x.bank_pk)
                .collect();
            for k in [ab.key, lb.key] {
                if !lq_banks.contains(&k) {
                    lq_banks.push(k);
                }
            }
            lq_banks.sort_by(|a, b| b.cmp(a));
            let mut lq_metas = vec![];
            for k in &lq_banks {
                lq_metas.extend(w.observation(s, k));
            }
            let le_metas = w.risk_metas(s, &le.account, None, None);
            let mut rem = w.mint_meta(lb);
            let ao = w.observation(s, &ab.key);
            let lo = w.observation(s, &lb.key);
            rem.extend(ao[1..].iter().cloned());
            rem.extend(lo[1..].iter().cloned());
            let (nq, ne) = (lq_metas.len() as u8, le_metas.len() as u8);
            rem.extend(lq_metas);
            rem.extend(le_metas);
            ix::liquidate(g, ab.key, lb.key, lq.account, signer, le.account, lb.token_program, *amt, ne, nq, rem)
        }
        Action::Bankruptcy { u, b, .. } => {
            let (us, bk) = (&w.users[*u], &w.banks[*b]);
            let rem = w.risk_metas(s, &us.account, None, None);
            ix::handle_bankruptcy(g, signer, bk.key, us.account, bk.token_program, with_mint(w, *b, rem))
        }
        Action::Accrue { b } => ix::accrue(g, w.banks[*b].key),
        Action::CollectFees { b } => {
            let bk = &w.banks[*b];
            ix::collect_bank_fees(g, bk.key, bk.fee_ata, bk.token_program, w.mint_meta(bk))
        }
        Action::Advance { .. } | Action::AdvanceStale { .. } | Action::SetPrice { .. } => return None,
    })
}

pub fn default_signer(w: &World, a: &Action) -> Option<Pubkey> {
    Some(match a {
        Action::Deposit { u, .. } | Action::Withdraw { u, .. } | Action::Borrow { u, .. } | Action::Repay { u, .. } | Action::CloseBalance { u, .. } => {
            w.users[*u].authority
        }
        Action::Liquidate { liquidator, .. } => w.users[*liquidator].authority,
        Action::Bankruptcy { signer, u, .. } => signer_key(w, signer, Some(*u)),
        Action::Accrue { .. } | Action::CollectFees { .. } => w.payer,
        _ => return None,
    })
}

#[derive(Clone, Debug, PartialEq, Eq)]
pub struct StepResult {
    pub code: u64,
    pub committed: bool,
}

/// Apply an action to the store (environment actions always "commit").
pub fn apply(w: &World, s: &mut Store, a: &Action) -> StepResult {
    match a {
        Action::Advance { dt } => {
            s.advance(*dt);
            world::refresh_oracles(s, w);
            StepResult { code: 0, committed: true }
        }
        Action::AdvanceStale { dt } => {
            s.advance(*dt);
            StepResult { code: 0, committed: true }
        }
        Action::SetPrice { b, num, den } => {
            if let Some(o) = w.banks[*b].oracle {
                world::scale_pyth_price(s, &o, *num, *den);
            }
            StepResult { code: 0, committed: true }
        }
        _ => {
            let signer = default_signer(w, a).unwrap();
            let i = user_ix(w, s, a, signer).unwrap();
            let r = crate::svm::process_tx(s, &Tx::one(i, &[signer]));
            StepResult { code: r.code(), committed: r.ok() }
        }
    }
}
