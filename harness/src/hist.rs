//! History models: bounded-exhaustive exploration of action sequences through `marginfi::entry`,
//! with pluggable per-transition oracles (C01 solvency, C02 ledger consistency, ...).

use crate::act::{self, Action, StepResult};
use crate::canon;
use crate::mc::{Key, Model, Step, Violation};
use crate::refmodel::{self as rf, BankNums};
use crate::svm::Store;
use crate::world::{self, World};
use marginfi_type_crate::constants::*;
use num_bigint::BigInt;
use num_traits::{Signed, Zero};
use solana_program::pubkey::Pubkey;

#[derive(Clone)]
pub struct HState {
    pub s: Store,
    pub clock_devs: u8,
    pub price_devs: u8,
    /// number of balance deactivations that left the bank total untouched (C02 dust budget), per bank
    pub closes: Vec<u32>,
    /// whether this state descends from a forged root (absolute-form invariants are skipped)
    pub forged: bool,
}

pub struct StepCtx<'a> {
    pub w: &'a World,
    pub pre: &'a HState,
    pub a: &'a Action,
    pub res: &'a StepResult,
    /// post store (== pre store when the transaction was rejected)
    pub post: &'a Store,
    pub pre_nums: &'a [BankNums],
    pub post_nums: &'a [BankNums],
}

pub trait StepOracle: Sync + Send {
    fn name(&self) -> &'static str;
    /// push violations, and non-vacuity tags into `tags`
    fn check(&self, c: &StepCtx, out: &mut Vec<Violation>, tags: &mut Vec<&'static str>);
}

#[derive(Clone, Debug)]
pub struct Alphabet {
    pub users: Vec<usize>,
    pub banks: Vec<usize>,
    pub deposit: bool,
    pub withdraw: bool,
    pub borrow: bool,
    pub repay: bool,
    pub close_balance: bool,
    pub liquidate: bool,
    pub liquidate_padded: bool,
    /// borrows, withdrawals, a repay-all and a deposit also inside a flash-loan bracket of the acting account
    pub flash_wrap: bool,
    /// a third party's receivership bracket (start, repay, withdraw, end) at two sizes with a fair repayment
    pub receivership: bool,
    pub bankruptcy: bool,
    pub accrue: bool,
    /// the permissionless price-cache crank
    pub pulse: bool,
    pub collect: bool,
    pub transfer: bool,
    pub close_account: bool,
    pub close_bank: bool,
    pub clock_dts: Vec<i64>,
    pub price_moves: Vec<(i64, i64)>,
    pub max_clock_devs: u8,
    pub max_price_devs: u8,
    /// drop actions that the state makes trivially inapplicable (no position to withdraw, ...)
    pub prune: bool,
    /// richer amount menus
    pub rich_amounts: bool,
    /// amounts around multiples of the (ceiled) share values: k*ceil(sv) + {-1,0,1}, k in {1,2,7}
    pub sv_multiples: bool,
    /// further fixed amounts offered for deposit / withdraw / borrow / repay
    pub extra_amounts: Vec<u64>,
    /// risk-admin actions on banks in token-less repayment mode (offered only where the flags allow)
    pub tokenless: bool,
    /// the group admin toggles banks between the default and the SOL asset tag
    pub retag: bool,
    /// well-typed but adversarial account lists: a bank's vault replaced by user 1's own token account
    pub vault_swaps: bool,
}

impl Alphabet {
    pub fn standard(users: Vec<usize>, banks: Vec<usize>) -> Self {
        Alphabet {
            users,
            banks,
            deposit: true,
            withdraw: true,
            borrow: true,
            repay: true,
            close_balance: true,
            liquidate: true,
            liquidate_padded: false,
            flash_wrap: false,
            receivership: false,
            bankruptcy: true,
            accrue: true,
            pulse: false,
            collect: true,
            transfer: false,
            close_account: false,
            close_bank: false,
            clock_dts: vec![1, 3600, 31_536_000],
            price_moves: vec![(1, 2), (2, 1), (1, 20)],
            max_clock_devs: 1,
            max_price_devs: 1,
            prune: true,
            rich_amounts: false,
            sv_multiples: false,
            extra_amounts: vec![],
            tokenless: false,
            retag: false,
            vault_swaps: false,
        }
    }
}

pub struct Hist {
    pub w: World,
    pub roots: Vec<(String, HState)>,
    pub alpha: Alphabet,
    pub oracles: Vec<Box<dyn StepOracle>>,
}

fn floor_u64(x: &rf::Q) -> u64 {
    use num_traits::ToPrimitive;
    rf::qfloor(x).to_u64().unwrap_or(u64::MAX)
}

impl Hist {
    pub fn nums(&self, s: &Store) -> Vec<BankNums> {
        self.w.banks.iter().map(|b| if world::try_bank(s, &b.key).is_some() { rf::bank_nums(s, b) } else { BankNums::default_closed() }).collect()
    }

    fn position(&self, s: &Store, u: usize, b: usize) -> (rf::Q, rf::Q, bool) {
        let ak = act::cur_account(&self.w, s, u);
        let Some(a) = world::try_account(s, &ak) else { return (rf::qzero(), rf::qzero(), false) };
        let bk = self.w.banks[b].key;
        let Some(bank) = world::try_bank(s, &bk) else { return (rf::qzero(), rf::qzero(), false) };
        for bal in a.lending_account.balances.iter() {
            if bal.active != 0 && bal.bank_pk == bk {
                let av = rf::q(bal.asset_shares) * rf::q(bank.asset_share_value);
                let lv = rf::q(bal.liability_shares) * rf::q(bank.liability_share_value);
                return (av, lv, true);
            }
        }
        (rf::qzero(), rf::qzero(), false)
    }
}

impl BankNums {
    pub fn default_closed() -> Self {
        BankNums { a_sh: 0, l_sh: 0, asv: 0, lsv: 0, f_ins: 0, f_grp: 0, f_prog: 0, vault: 0, ins_vault: 0, fee_vault: 0, flags: 0, op_state: 255, last_update: 0 }
    }
}

impl Model for Hist {
    type State = HState;
    type Action = Action;

    fn roots(&self) -> Vec<(String, HState)> {
        self.roots.clone()
    }

    fn key(&self, st: &HState) -> Key {
        let mut extra = vec![st.clock_devs, st.price_devs];
        for c in &st.closes {
            extra.extend_from_slice(&c.to_le_bytes());
        }
        canon::state_key(&st.s, &extra)
    }

    fn actions(&self, st: &HState) -> Vec<Action> {
        let al = &self.alpha;
        let s = &st.s;
        let mut v: Vec<Action> = vec![];
        let one = |b: usize| 10u64.pow((self.w.banks[b].decimals as u32).min(13));
        for &u in &al.users {
            for &b in &al.banks {
                let (av, lv, has) = self.position(s, u, b);
                let has_asset = av > rf::qfrac(1, 10_000);
                let has_liab = lv > rf::qfrac(1, 10_000);
                if al.deposit && (!al.prune || !has_liab) {
                    v.push(Action::Deposit { u, b, amt: 1, up_to_limit: None });
                    v.push(Action::Deposit { u, b, amt: 100 * one(b) + 7, up_to_limit: None });
                    if self.w.mints.get(&self.w.banks[b].mint).and_then(|m| m.fee).is_some() {
                        // an amount whose transfer fee is neither rounded to one unit nor capped
                        v.push(Action::Deposit { u, b, amt: 100_003, up_to_limit: None });
                    }
                    if al.rich_amounts {
                        v.push(Action::Deposit { u, b, amt: 3, up_to_limit: None });
                        v.push(Action::Deposit { u, b, amt: one(b), up_to_limit: Some(true) });
                    }
                }
                if al.withdraw && (!al.prune || has_asset) {
                    let fl = floor_u64(&av);
                    v.push(Action::Withdraw { u, b, amt: 0, all: true });
                    v.push(Action::Withdraw { u, b, amt: 1, all: false });
                    if fl > 2 {
                        v.push(Action::Withdraw { u, b, amt: fl / 2, all: false });
                        v.push(Action::Withdraw { u, b, amt: fl, all: false });
                    }
                    if al.rich_amounts && fl > 2 {
                        v.push(Action::Withdraw { u, b, amt: fl - 1, all: false });
                        v.push(Action::Withdraw { u, b, amt: fl + 1, all: false });
                    }
                    if al.rich_amounts && world::try_bank(s, &self.w.banks[b].key).is_some() {
                        // bank-relative amounts: what the bank's lenders are owed beyond what is lent out
                        // (the utilisation boundary) and everything the liquidity vault holds (which also
                        // contains the uncollected fees)
                        let n = rf::bank_nums(s, &self.w.banks[b]);
                        let free = n.deposits() - n.liabs();
                        let free = if free > rf::qi(0) { floor_u64(&free) } else { 0 };
                        let mut xs = vec![free, free + 1, n.vault as u64];
                        xs.sort();
                        xs.dedup();
                        for x in xs {
                            if x > 1 && x <= fl && x != fl / 2 && x != fl - 1 {
                                v.push(Action::Withdraw { u, b, amt: x, all: false });
                            }
                        }
                    }
                }
                if al.borrow && (!al.prune || !has_asset) {
                    v.push(Action::Borrow { u, b, amt: 1 });
                    v.push(Action::Borrow { u, b, amt: 10 * one(b) + 3 });
                    if al.rich_amounts {
                        v.push(Action::Borrow { u, b, amt: one(b) / 3 + 1 });
                    }
                }
                if al.repay && (!al.prune || has_liab) {
                    let fl = floor_u64(&lv);
                    v.push(Action::Repay { u, b, amt: 0, all: true });
                    v.push(Action::Repay { u, b, amt: 1, all: false });
                    if fl > 2 {
                        v.push(Action::Repay { u, b, amt: fl / 2, all: false });
                        v.push(Action::Repay { u, b, amt: fl, all: false });
                    }
                }
                {
                    // additional amount menus (C03 sweep)
                    let mut extra: Vec<u64> = al.extra_amounts.clone();
                    if al.sv_multiples {
                        if let Some(bank) = world::try_bank(s, &self.w.banks[b].key) {
                            for sv in [rf::q(bank.asset_share_value), rf::q(bank.liability_share_value)] {
                                let c = floor_u64(&sv.ceil()).max(1);
                                for k in [1u64, 2, 7] {
                                    for d in [-1i64, 0, 1] {
                                        let x = (k * c) as i64 + d;
                                        if x > 0 {
                                            extra.push(x as u64);
                                        }
                                    }
                                }
                            }
                        }
                    }
                    extra.sort();
                    extra.dedup();
                    for &amt in &extra {
                        if al.deposit && (!al.prune || !has_liab) {
                            v.push(Action::Deposit { u, b, amt, up_to_limit: None });
                        }
                        if al.withdraw && (!al.prune || has_asset) {
                            v.push(Action::Withdraw { u, b, amt, all: false });
                        }
                        if al.borrow && (!al.prune || !has_asset) {
                            v.push(Action::Borrow { u, b, amt });
                        }
                        if al.repay && (!al.prune || has_liab) {
                            v.push(Action::Repay { u, b, amt, all: false });
                        }
                    }
                }
                if al.close_balance && (!al.prune || has) {
                    v.push(Action::CloseBalance { u, b });
                }
                if al.bankruptcy && (!al.prune || has_liab) {
                    v.push(Action::Bankruptcy { signer: act::Signer::RiskAdmin, u, b });
                }
            }
            if al.transfer {
                v.push(Action::Transfer { u });
                v.push(Action::TransferPda { u });
            }
            if al.close_account {
                v.push(Action::CloseAccount { u });
                if al.transfer && act::cur_account(&self.w, s, u) != self.w.users[u].account {
                    v.push(Action::CloseOriginal { u });
                }
            }
        }
        if al.liquidate {
            for &lq in &al.users {
                for &le in &al.users {
                    if lq == le {
                        continue;
                    }
                    for &ab in &al.banks {
                        for &lb in &al.banks {
                            if ab == lb {
                                continue;
                            }
                            let (av, _, _) = self.position(s, le, ab);
                            let (_, lv, _) = self.position(s, le, lb);
                            if al.prune && !(av >= rf::qone() && lv >= rf::qone()) {
                                continue;
                            }
                            let fl = floor_u64(&av);
                            v.push(Action::Liquidate { liquidator: lq, liquidatee: le, asset: ab, liab: lb, amt: 1 });
                            if fl >= 8 {
                                v.push(Action::Liquidate { liquidator: lq, liquidatee: le, asset: ab, liab: lb, amt: fl / 8 });
                                v.push(Action::Liquidate { liquidator: lq, liquidatee: le, asset: ab, liab: lb, amt: fl / 2 + 1 });
                            }
                            if fl >= 1 {
                                v.push(Action::Liquidate { liquidator: lq, liquidatee: le, asset: ab, liab: lb, amt: fl });
                            }
                            if al.liquidate_padded {
                                for pad in 0..3u8 {
                                    v.push(Action::LiquidatePadded { liquidator: lq, liquidatee: le, asset: ab, liab: lb, amt: 1, pad });
                                    if fl >= 8 && pad == 0 {
                                        v.push(Action::LiquidatePadded { liquidator: lq, liquidatee: le, asset: ab, liab: lb, amt: fl / 8, pad });
                                    }
                                }
                            }
                        }
                    }
                }
            }
        }
        if al.receivership {
            for &lq in &al.users {
                for &le in &al.users {
                    if lq == le {
                        continue;
                    }
                    let le_acct = act::cur_account(&self.w, s, le);
                    let Some(eq) = crate::health::health(s, &le_acct, crate::health::Req::Equity) else { continue };
                    for &ab in &al.banks {
                        for &lb in &al.banks {
                            if ab == lb {
                                continue;
                            }
                            let (av, _, _) = self.position(s, le, ab);
                            let (_, lv, _) = self.position(s, le, lb);
                            if !(av >= rf::qi(8) && lv >= rf::qi(8)) {
                                continue;
                            }
                            // dollar value per native unit of either position, from the reference valuation
                            let unit = |bank: &solana_program::pubkey::Pubkey, liab: bool| -> Option<rf::Q> {
                                eq.positions.iter().find(|p| p.bank == *bank && p.is_liability == liab && p.amount > rf::qzero() && p.value > rf::qzero()).map(|p| p.value.clone() / p.amount.clone())
                            };
                            let (Some(ua), Some(ul)) = (unit(&self.w.banks[ab].key, false), unit(&self.w.banks[lb].key, true)) else { continue };
                            let fl = floor_u64(&av);
                            for w_amt in [fl / 8, fl / 2 + 1] {
                                // a repayment worth the withdrawal less a 3 % premium (under the 5 % minimum cap), never the whole debt
                                let r = rf::qi(w_amt as i128) * ua.clone() / ul.clone() * rf::qfrac(100, 103);
                                let r_amt = floor_u64(&r).min(floor_u64(&lv).saturating_sub(1)).max(1);
                                v.push(Action::Receivership { liquidator: lq, liquidatee: le, asset: ab, liab: lb, w_amt, r_amt });
                            }
                        }
                    }
                }
            }
        }
        if al.retag {
            for &b in &al.banks {
                if let Some(bank) = world::try_bank(s, &self.w.banks[b].key) {
                    if bank.config.asset_tag <= 1 {
                        v.push(Action::Retag { b, tag: 1 - bank.config.asset_tag });
                    }
                }
            }
        }
        if al.tokenless {
            for &b in &al.banks {
                let Some(bank) = world::try_bank(s, &self.w.banks[b].key) else { continue };
                if bank.flags & TOKENLESS_REPAYMENTS_ALLOWED != 0 {
                    v.push(Action::ForceTokenlessComplete { b });
                    for &u in &al.users {
                        let (_, lv, _) = self.position(s, u, b);
                        if lv > rf::qfrac(1, 10_000) {
                            v.push(Action::TokenlessRepay { u, b });
                        }
                    }
                }
                if bank.flags & TOKENLESS_REPAYMENTS_COMPLETE != 0 {
                    for &u in &al.users {
                        let (_, _, has) = self.position(s, u, b);
                        if has {
                            v.push(Action::Purge { u, b });
                        }
                    }
                }
            }
        }
        for &b in &al.banks {
            if al.accrue {
                v.push(Action::Accrue { b });
            }
            if al.pulse {
                v.push(Action::PulsePriceCache { b });
            }
            if al.collect {
                v.push(Action::CollectFees { b });
            }
            if al.close_bank {
                v.push(Action::CloseBank { b });
            }
        }
        if al.flash_wrap {
            let mut seen_dep = std::collections::BTreeSet::new();
            let wrapped: Vec<Action> = v
                .iter()
                .filter(|a| match a {
                    Action::Borrow { .. } | Action::Withdraw { .. } | Action::Repay { all: true, .. } => true,
                    Action::Deposit { u, b, up_to_limit: None, .. } => seen_dep.insert((*u, *b)),
                    _ => false,
                })
                .map(|a| Action::InFlashloan { base: Box::new(a.clone()) })
                .collect();
            v.extend(wrapped);
        }
        if al.vault_swaps {
            // every vault of a bank the instruction names, for the instructions that name vaults
            let base: Vec<Action> = v.iter().filter(|a| matches!(a, Action::Bankruptcy { .. } | Action::CollectFees { .. } | Action::Liquidate { amt: 1, .. }) || matches!(a, Action::Deposit { amt: 1, .. } | Action::Repay { amt: 1, .. } | Action::Withdraw { amt: 1, all: false, .. } | Action::Borrow { amt: 1, .. })).cloned().collect();
            for a in base {
                let banks: Vec<usize> = match &a {
                    Action::Bankruptcy { b, .. } | Action::CollectFees { b } | Action::Deposit { b, .. } | Action::Repay { b, .. } | Action::Withdraw { b, .. } | Action::Borrow { b, .. } => vec![*b],
                    Action::Liquidate { asset, liab, .. } => vec![*asset, *liab],
                    _ => vec![],
                };
                for bank in banks {
                    for kind in 0..3u8 {
                        v.push(Action::WithVaultSwap { base: Box::new(a.clone()), bank, kind });
                    }
                }
            }
        }
        if st.clock_devs < al.max_clock_devs {
            for &dt in &al.clock_dts {
                v.push(Action::Advance { dt });
            }
        }
        if st.price_devs < al.max_price_devs {
            for &b in &al.banks {
                if self.w.banks[b].oracle.is_some() {
                    for &(n, d) in &al.price_moves {
                        v.push(Action::SetPrice { b, num: n, den: d });
                    }
                }
            }
        }
        v
    }

    fn step(&self, st: &HState, a: &Action) -> Step<HState> {
        let mut post = st.s.clone();
        let res = act::apply(&self.w, &mut post, a);
        let mut next = HState { s: post, clock_devs: st.clock_devs, price_devs: st.price_devs, closes: st.closes.clone(), forged: st.forged };
        match a {
            Action::Advance { .. } | Action::AdvanceStale { .. } => next.clock_devs += 1,
            Action::SetPrice { .. } => next.price_devs += 1,
            _ => {}
        }
        let pre_nums = self.nums(&st.s);
        let post_nums = if res.committed { self.nums(&next.s) } else { pre_nums.clone() };
        let mut violations = vec![];
        let mut tags: Vec<&'static str> = vec![];
        {
            let ctx = StepCtx { w: &self.w, pre: st, a, res: &res, post: &next.s, pre_nums: &pre_nums, post_nums: &post_nums };
            for o in &self.oracles {
                o.check(&ctx, &mut violations, &mut tags);
            }
            // C02 dust budget bookkeeping: count deactivations that did not change the bank total
            if res.committed {
                for (bi, bh) in self.w.banks.iter().enumerate() {
                    if deactivated_without_total_change(&st.s, &next.s, &bh.key, &pre_nums[bi], &post_nums[bi]) {
                        next.closes[bi] += 1;
                    }
                }
            }
        }
        if !violations.is_empty() {
            // descendants of a violating transition are not re-reported by the absolute-form clauses
            next.forged = true;
        }
        tags.sort();
        tags.dedup();
        let class = format!("{}:{}{}", action_kind(a), crate::svm::err_name(res.code), if tags.is_empty() { String::new() } else { format!(":{}", tags.join("+")) });
        Step { next: if res.committed { Some(next) } else { None }, class, violations }
    }
}

pub fn action_kind(a: &Action) -> &'static str {
    match a {
        Action::Deposit { up_to_limit: Some(true), .. } => "deposit_up_to_limit",
        Action::Deposit { .. } => "deposit",
        Action::Withdraw { all: true, .. } => "withdraw_all",
        Action::Withdraw { .. } => "withdraw",
        Action::Borrow { .. } => "borrow",
        Action::Repay { all: true, .. } => "repay_all",
        Action::Repay { .. } => "repay",
        Action::CloseBalance { .. } => "close_balance",
        Action::Liquidate { .. } => "liquidate",
        Action::LiquidatePadded { .. } => "liquidate_padded",
        Action::InFlashloan { .. } => "in_flashloan",
        Action::Receivership { .. } => "receivership",
        Action::Bankruptcy { .. } => "bankruptcy",
        Action::Accrue { .. } => "accrue",
        Action::PulsePriceCache { .. } => "pulse_price_cache",
        Action::CollectFees { .. } => "collect_fees",
        Action::TokenlessRepay { .. } => "tokenless_repay",
        Action::Purge { .. } => "purge",
        Action::ForceTokenlessComplete { .. } => "force_tokenless_complete",
        Action::Retag { .. } => "retag_bank",
        Action::Transfer { .. } => "transfer_account",
        Action::TransferPda { .. } => "transfer_account_pda",
        Action::WithVaultSwap { base, .. } => match action_kind(base) {
            "bankruptcy" => "bankruptcy+vault_swap",
            "liquidate" => "liquidate+vault_swap",
            "collect_fees" => "collect_fees+vault_swap",
            "deposit" => "deposit+vault_swap",
            "repay" => "repay+vault_swap",
            "withdraw" => "withdraw+vault_swap",
            "borrow" => "borrow+vault_swap",
            _ => "other+vault_swap",
        },
        Action::CloseAccount { .. } => "close_account",
        Action::CloseOriginal { .. } => "close_original_account",
        Action::CloseBank { .. } => "close_bank",
        Action::Freeze { .. } => "freeze",
        Action::Advance { .. } => "advance",
        Action::AdvanceStale { .. } => "advance_stale",
        Action::SetPrice { .. } => "set_price",
    }
}

/// active balances of `bank` per account: (account key, asset shares, liab shares)
fn balances_in(s: &Store, bank: &Pubkey) -> Vec<(Pubkey, i128, i128)> {
    let mut v = vec![];
    for (k, ma) in rf::all_accounts(s) {
        for b in ma.lending_account.balances.iter() {
            if b.active != 0 && b.bank_pk == *bank {
                v.push((k, rf::raw(b.asset_shares), rf::raw(b.liability_shares)));
            }
        }
    }
    v
}

/// a balance slot of `bank` disappeared (deactivated, or its whole account was closed) while the
/// bank total did not change by the same amount
fn deactivated_without_total_change(pre: &Store, post: &Store, bank: &Pubkey, pn: &BankNums, qn: &BankNums) -> bool {
    let a = balances_in(pre, bank);
    let b = balances_in(post, bank);
    let gone: Vec<&(Pubkey, i128, i128)> = a.iter().filter(|(k, _, _)| !b.iter().any(|(k2, _, _)| k2 == k)).collect();
    if gone.is_empty() {
        return false;
    }
    let (sa0, sl0): (i128, i128) = a.iter().fold((0, 0), |acc, x| (acc.0 + x.1, acc.1 + x.2));
    let (sa1, sl1): (i128, i128) = b.iter().fold((0, 0), |acc, x| (acc.0 + x.1, acc.1 + x.2));
    (qn.a_sh - pn.a_sh) != (sa1 - sa0) || (qn.l_sh - pn.l_sh) != (sl1 - sl0)
}

// ------------------------------------------------------------------------------------------------
// C01 — solvency

pub struct SolvencyOracle {
    /// safety factor on the derived allowance
    pub safety: i64,
}

fn is_own_funds_bank(tag: u8) -> bool {
    matches!(tag, ASSET_TAG_DEFAULT | ASSET_TAG_SOL | ASSET_TAG_STAKED)
}

/// Allowance (native units, exact rational) for the change of the solvency gap of one bank over
/// one instruction, derived from pre/post magnitudes: see DESIGN.md §5.4.
pub fn solvency_allowance(pre: &BankNums, post: &BankNums, now: i64, balance_ops: i64, safety: i64) -> rf::Q {
    let u = rf::ulp();
    let asv = rf::qmax(rf::q_raw(pre.asv), rf::q_raw(post.asv));
    let lsv = rf::qmax(rf::q_raw(pre.lsv), rf::q_raw(post.lsv));
    // share/amount conversions: one truncated quotient or product per side per balance operation
    let mut bound = rf::qi(2 * balance_ops as i128) * (rf::qone() + asv + lsv);
    if pre.last_update != now && pre.op_state != 255 {
        // an accrual happened in this instruction
        let dt = rf::qi((now - pre.last_update).max(0) as i128);
        let l_true = pre.liabs();
        let yr = rf::qi(31_536_000);
        bound = bound + l_true * (dt / yr + rf::qi(2)) + rf::q_raw(pre.l_sh) + rf::qone();
    }
    bound * u * rf::qi(safety as i128)
}

impl StepOracle for SolvencyOracle {
    fn name(&self) -> &'static str {
        "C01"
    }
    fn check(&self, c: &StepCtx, out: &mut Vec<Violation>, tags: &mut Vec<&'static str>) {
        if !c.res.committed {
            return;
        }
        for (bi, bh) in c.w.banks.iter().enumerate() {
            let (pn, qn) = (&c.pre_nums[bi], &c.post_nums[bi]);
            if pn == qn || pn.op_state == 255 || qn.op_state == 255 {
                continue;
            }
            let Some(bank_post) = world::try_bank(c.post, &bh.key) else { continue };
            let tag = bank_post.config.asset_tag;
            if !is_own_funds_bank(tag) {
                continue;
            }
            let d96: BigInt = qn.gap96() - pn.gap96();
            // sanctioned exceptions, recognised by what the step is
            let killed_now = qn.op_state == 3 && pn.op_state != 3;
            if killed_now {
                tags.push("bank_killed");
                if qn.asv != 0 {
                    out.push(Violation { clause: "C01.kill_asv_zero".into(), detail: format!("bank {} killed but asset share value is {}", bh.label, rf::qf64(&rf::q_raw(qn.asv))) });
                }
                if qn.vault < pn.vault {
                    out.push(Violation { clause: "C01.kill_no_outflow".into(), detail: format!("bank {} killed and vault decreased {} -> {}", bh.label, pn.vault, qn.vault) });
                }
                continue;
            }
            if matches!(c.a, Action::TokenlessRepay { .. }) && (pn.flags & TOKENLESS_REPAYMENTS_ALLOWED) != 0 {
                tags.push("tokenless_writeoff");
                continue;
            }
            let ops = match c.a {
                Action::Liquidate { .. } | Action::LiquidatePadded { .. } | Action::Receivership { .. } => 3,
                _ => 1,
            };
            let allow = solvency_allowance(pn, qn, c.post.now, ops, self.safety);
            let d = rf::Q::new(d96, BigInt::from(1) << 96);
            if qn.vault != pn.vault {
                tags.push("tokens_moved");
            }
            if d.is_negative() && (-d.clone()) > allow {
                out.push(Violation {
                    clause: "C01.delta_gap".into(),
                    detail: format!(
                        "bank {}: vault-vs-books gap fell by {:.12} native units (allowance {:.3e}); vault {}->{}, deposits {:.6}->{:.6}, liabs {:.6}->{:.6}, fees {:.6}->{:.6}",
                        bh.label,
                        -rf::qf64(&d),
                        rf::qf64(&allow),
                        pn.vault,
                        qn.vault,
                        rf::qf64(&pn.deposits()),
                        rf::qf64(&qn.deposits()),
                        rf::qf64(&pn.liabs()),
                        rf::qf64(&qn.liabs()),
                        rf::scale96_to_f64(&pn.fees96()),
                        rf::scale96_to_f64(&qn.fees96())
                    ),
                });
            }
            // absolute form for states that descend from instruction-built roots only
            // (a bank flagged for token-less repayment may carry a sanctioned write-off from any
            // earlier step: for it only the per-step form above is demanded)
            if !c.pre.forged && qn.op_state != 3 && (qn.flags & TOKENLESS_REPAYMENTS_ALLOWED) == 0 {
                let g = qn.gap();
                let abs_allow = allow * rf::qi(64);
                if g.is_negative() && (-g.clone()) > abs_allow {
                    out.push(Violation {
                        clause: "C01.absolute_gap".into(),
                        detail: format!("bank {}: vault {} < deposits - liabs + fees by {:.12}", bh.label, qn.vault, -rf::qf64(&g)),
                    });
                }
            }
        }
    }
}

// ------------------------------------------------------------------------------------------------
// C02 — ledger consistency

pub struct LedgerOracle;

/// 0.0001 as exact rational
fn dust() -> rf::Q {
    rf::qfrac(1, 10_000)
}

impl StepOracle for LedgerOracle {
    fn name(&self) -> &'static str {
        "C02"
    }
    fn check(&self, c: &StepCtx, out: &mut Vec<Violation>, tags: &mut Vec<&'static str>) {
        if !c.res.committed {
            return;
        }
        for (bi, bh) in c.w.banks.iter().enumerate() {
            let (pn, qn) = (&c.pre_nums[bi], &c.post_nums[bi]);
            if matches!(c.a, Action::CloseBank { b } if *b == bi) && qn.op_state == 255 {
                // the bank account is gone: nobody may still hold more than dust in it
                tags.push("bank_closed");
                let bank_pre = world::bank(&c.pre.s, &bh.key);
                for (k, ma) in rf::all_accounts(c.post) {
                    for b in ma.lending_account.balances.iter() {
                        if b.active != 0 && b.bank_pk == bh.key {
                            let av = rf::q(b.asset_shares) * rf::q(bank_pre.asset_share_value);
                            let lv = rf::q(b.liability_shares) * rf::q(bank_pre.liability_share_value);
                            if av >= dust() || lv >= dust() {
                                out.push(Violation {
                                    clause: "C02.close_bank_positions".into(),
                                    detail: format!("bank {} closed while account {} holds assets {:.6} / liabs {:.6}", bh.label, world::label_of(&k), rf::qf64(&av), rf::qf64(&lv)),
                                });
                            }
                        }
                    }
                }
                continue;
            }
            if pn.op_state == 255 || qn.op_state == 255 {
                continue;
            }
            let pre_b = balances_in(&c.pre.s, &bh.key);
            let post_b = balances_in(c.post, &bh.key);
            if pn.a_sh == qn.a_sh && pn.l_sh == qn.l_sh && pre_b == post_b {
                continue;
            }
            let (sa0, sl0): (i128, i128) = pre_b.iter().fold((0, 0), |acc, x| (acc.0 + x.1, acc.1 + x.2));
            let (sa1, sl1): (i128, i128) = post_b.iter().fold((0, 0), |acc, x| (acc.0 + x.1, acc.1 + x.2));
            let da = (qn.a_sh - pn.a_sh) - (sa1 - sa0);
            let dl = (qn.l_sh - pn.l_sh) - (sl1 - sl0);
            let slot_gone = pre_b.iter().any(|(k, _, _)| !post_b.iter().any(|(k2, _, _)| k2 == k));
            if !slot_gone {
                tags.push("ledger_delta_checked");
                if da != 0 || dl != 0 {
                    out.push(Violation {
                        clause: "C02.delta_exact".into(),
                        detail: format!(
                            "bank {}: total asset shares changed by {} raw but positions by {} raw; liability totals {} vs positions {} (raw 2^-48 units)",
                            bh.label,
                            qn.a_sh - pn.a_sh,
                            sa1 - sa0,
                            qn.l_sh - pn.l_sh,
                            sl1 - sl0
                        ),
                    });
                }
            } else {
                tags.push("slot_deactivated");
                // the abandoned remainder must be non-negative dust
                let asv = rf::q_raw(qn.asv.max(pn.asv));
                let lsv = rf::q_raw(qn.lsv.max(pn.lsv));
                let av = rf::q_raw(da) * asv;
                let lv = rf::q_raw(dl) * lsv;
                if da != 0 || dl != 0 {
                    tags.push("dust_abandoned");
                }
                if da < 0 || dl < 0 || av >= dust() || lv >= dust() {
                    out.push(Violation {
                        clause: "C02.close_dust".into(),
                        detail: format!(
                            "bank {}: closing a position left the totals off by assets {:.9} / liabilities {:.9} native units (must be in [0, 0.0001))",
                            bh.label,
                            rf::qf64(&av),
                            rf::qf64(&lv)
                        ),
                    });
                    continue;
                }
            }
            // global form
            if !c.pre.forged {
                let ex_a = qn.a_sh - sa1;
                let ex_l = qn.l_sh - sl1;
                let budget = rf::qi((c.pre.closes[bi] + 1) as i128) * dust();
                let exa_v = rf::q_raw(ex_a) * rf::q_raw(qn.asv);
                let exl_v = rf::q_raw(ex_l) * rf::q_raw(qn.lsv);
                if ex_a < 0 || ex_l < 0 || sa1 < 0 || sl1 < 0 || exa_v > budget || exl_v > budget {
                    out.push(Violation {
                        clause: "C02.global_excess".into(),
                        detail: format!(
                            "bank {}: totals minus positions = assets {:.9} / liabs {:.9} native units with {} dust-abandoning closes so far",
                            bh.label,
                            rf::qf64(&exa_v),
                            rf::qf64(&exl_v),
                            c.pre.closes[bi]
                        ),
                    });
                }
            }
        }
    }
}

pub fn zero_is_zero() -> bool {
    BigInt::zero().is_zero()
}

// ------------------------------------------------------------------------------------------------
// C06(b) — freshness: every handler first accrues the banks it transacts in (differential A/B)

pub struct FreshnessOracle;

fn involved_banks(a: &Action) -> Vec<usize> {
    match a {
        Action::Deposit { b, .. } | Action::Withdraw { b, .. } | Action::Borrow { b, .. } | Action::Repay { b, .. } | Action::CloseBalance { b, .. } | Action::Bankruptcy { b, .. } => vec![*b],
        Action::Liquidate { asset, liab, .. } | Action::LiquidatePadded { asset, liab, .. } => vec![*asset, *liab],
        Action::InFlashloan { base } => involved_banks(base),
        _ => vec![],
    }
}

impl StepOracle for FreshnessOracle {
    fn name(&self) -> &'static str {
        "C06b"
    }
    fn check(&self, c: &StepCtx, out: &mut Vec<Violation>, tags: &mut Vec<&'static str>) {
        let banks = involved_banks(c.a);
        // whatever the instruction: a bank whose interest clock was moved forward must carry the share values
        // the real accrue instruction gives it from the same pre-state at the same time (else the elapsed
        // interest was dropped or booked twice). Banks the instruction transacts in are covered below.
        if c.res.committed && !matches!(c.a, Action::Accrue { .. } | Action::Bankruptcy { .. }) {
            for b in 0..c.w.banks.len() {
                if banks.contains(&b) {
                    continue;
                }
                let (pn, qn) = (&c.pre_nums[b], &c.post_nums[b]);
                if qn.last_update > pn.last_update && pn.l_sh > 0 && pn.a_sh > 0 && pn.op_state != 255 {
                    let mut t = c.pre.s.clone();
                    if act::apply(c.w, &mut t, &Action::Accrue { b }).committed {
                        let rn = rf::bank_nums(&t, &c.w.banks[b]);
                        tags.push("clock_moved_on_uninvolved_bank");
                        if rn.asv != qn.asv || rn.lsv != qn.lsv {
                            out.push(Violation {
                                clause: "C06.fresh_state".into(),
                                detail: format!(
                                    "{:?} moved the interest clock of bank {} from {} to {} but its share values are {:.9} / {:.9}, not the accrued {:.9} / {:.9}",
                                    c.a,
                                    c.w.banks[b].label,
                                    pn.last_update,
                                    qn.last_update,
                                    rf::qf64(&rf::q_raw(qn.asv)),
                                    rf::qf64(&rf::q_raw(qn.lsv)),
                                    rf::qf64(&rf::q_raw(rn.asv)),
                                    rf::qf64(&rf::q_raw(rn.lsv))
                                ),
                            });
                        }
                    }
                }
            }
        }
        if banks.is_empty() {
            return;
        }
        let now = c.pre.s.now;
        // only interesting when some involved bank has pending interest
        let pending: Vec<usize> = banks.iter().cloned().filter(|b| c.pre_nums[*b].op_state != 255 && c.pre_nums[*b].last_update < now && c.pre_nums[*b].l_sh > 0 && c.pre_nums[*b].a_sh > 0).collect();
        if pending.is_empty() {
            return;
        }
        // path B: explicit accrue of every involved bank, then the same action
        let mut sb = c.pre.s.clone();
        let mut changed = false;
        for b in &banks {
            let before = sb.accts.get(&c.w.banks[*b].key).cloned();
            let r = act::apply(c.w, &mut sb, &Action::Accrue { b: *b });
            if !r.committed {
                return; // cannot build the reference path (e.g. paused group): not a verdict
            }
            if let (Some(x), Some(y)) = (before, sb.accts.get(&c.w.banks[*b].key)) {
                let (bx, by): (marginfi_type_crate::types::Bank, marginfi_type_crate::types::Bank) = (world::read_pod(&x.data), world::read_pod(&y.data));
                if bx.asset_share_value != by.asset_share_value || bx.liability_share_value != by.liability_share_value {
                    changed = true;
                }
            }
        }
        if changed {
            tags.push("accrual_mattered");
        }
        let rb = act::apply(c.w, &mut sb, c.a);
        if rb.committed != c.res.committed {
            tags.push("ab_outcome_differs");
            out.push(Violation {
                clause: "C06.fresh_outcome".into(),
                detail: format!(
                    "{:?}: without a prior explicit accrual the instruction returned {}, after accruing the involved banks it returned {}",
                    c.a,
                    crate::svm::err_name(c.res.code),
                    crate::svm::err_name(rb.code)
                ),
            });
            return;
        }
        if !rb.committed {
            return;
        }
        tags.push("ab_compared");
        let ka = canon::state_key(c.post, &[]);
        let kb = canon::state_key(&sb, &[]);
        if ka != kb {
            // find the first differing account for the report
            let mut which = String::new();
            for (k, a) in c.post.accts.iter() {
                match sb.accts.get(k) {
                    Some(b) if canon::acct_digest(a) == canon::acct_digest(b) => {}
                    _ => {
                        which = world::label_of(k);
                        break;
                    }
                }
            }
            out.push(Violation {
                clause: "C06.fresh_state".into(),
                detail: format!("{:?}: the end state differs from the one reached after explicitly accruing the involved banks first (first differing account: {})", c.a, which),
            });
        }
    }
}

// ------------------------------------------------------------------------------------------------
// C03 — no free value

pub struct NoFreeValueOracle;

fn position_shares(w: &World, s: &Store, u: usize, b: usize) -> (rf::Q, rf::Q) {
    let ak = act::cur_account(w, s, u);
    let Some(a) = world::try_account(s, &ak) else { return (rf::qzero(), rf::qzero()) };
    for bal in a.lending_account.balances.iter() {
        if bal.active != 0 && bal.bank_pk == w.banks[b].key {
            return (rf::q(bal.asset_shares), rf::q(bal.liability_shares));
        }
    }
    (rf::qzero(), rf::qzero())
}

/// (asset value, liability value) of the user's position in bank b, in native units, exact
fn position_value(w: &World, s: &Store, u: usize, b: usize) -> (rf::Q, rf::Q) {
    let ak = act::cur_account(w, s, u);
    let (Some(a), Some(bank)) = (world::try_account(s, &ak), world::try_bank(s, &w.banks[b].key)) else { return (rf::qzero(), rf::qzero()) };
    for bal in a.lending_account.balances.iter() {
        if bal.active != 0 && bal.bank_pk == w.banks[b].key {
            return (rf::q(bal.asset_shares) * rf::q(bank.asset_share_value), rf::q(bal.liability_shares) * rf::q(bank.liability_share_value));
        }
    }
    (rf::qzero(), rf::qzero())
}

impl StepOracle for NoFreeValueOracle {
    fn name(&self) -> &'static str {
        "C03"
    }
    fn check(&self, c: &StepCtx, out: &mut Vec<Violation>, tags: &mut Vec<&'static str>) {
        if !c.res.committed {
            return;
        }
        // an instruction re-issued with a look-alike in the place of one of the bank's vaults is judged like the
        // instruction itself: the position may be credited only what reached the bank's real vault
        let a_eff: &Action = match c.a {
            Action::WithVaultSwap { base, .. } | Action::InFlashloan { base } => base.as_ref(),
            x => x,
        };
        let (u, b) = match a_eff {
            Action::Deposit { u, b, .. } | Action::Withdraw { u, b, .. } | Action::Borrow { u, b, .. } | Action::Repay { u, b, .. } | Action::CloseBalance { u, b } => (*u, *b),
            _ => return,
        };
        let closing = matches!(a_eff, Action::CloseBalance { .. });
        let (pn, qn) = (&c.pre_nums[b], &c.post_nums[b]);
        let bh = &c.w.banks[b];
        let ta = c.w.users[u].tokens[&bh.mint];
        let t0 = world::token_amount(&c.pre.s, &ta) as i128;
        let t1 = world::token_amount(c.post, &ta) as i128;
        let ((a0, l0), (a1, l1)) = if pn.asv != qn.asv || pn.lsv != qn.lsv || pn.last_update != c.pre.s.now {
            // the bank was stale: both positions are valued at the share values of the bank brought up
            // to date by the real accrue instruction on a copy of the pre-state
            tags.push("stale_bank_valued_at_accrued_share_values");
            let mut t = c.pre.s.clone();
            if !act::apply(c.w, &mut t, &Action::Accrue { b }).committed {
                return;
            }
            let Some(fresh) = world::try_bank(&t, &bh.key) else { return };
            let val = |s: &Store| {
                let (a_sh, l_sh) = position_shares(c.w, s, u, b);
                (a_sh * rf::q(fresh.asset_share_value), l_sh * rf::q(fresh.liability_share_value))
            };
            (val(&c.pre.s), val(c.post))
        } else {
            (position_value(c.w, &c.pre.s, u, b), position_value(c.w, c.post, u, b))
        };
        let d_tokens = rf::qi(t1 - t0);
        let d_pos = (a1.clone() - l1.clone()) - (a0.clone() - l0.clone());
        let d_w = d_tokens.clone() + d_pos.clone();
        let mut allow = rf::ulp() * rf::qi(8) * (rf::qone() + rf::q_raw(qn.asv) + rf::q_raw(qn.lsv));
        if closing {
            // closing a position forgives what is left of it: the program's documented dust threshold of
            // 0.0001 native units (the same figure C02 allows to be abandoned per closed position)
            allow = allow + rf::qfrac(1, 10_000);
            tags.push("close_dust_bounded");
        }
        tags.push("wealth_checked");
        if t1 != t0 {
            tags.push("tokens_moved");
        }
        if d_w.is_negative() && d_w < -rf::qfrac(1, 2) {
            tags.push("user_lost_rounding");
        }
        // the bank's side of the same operation: what leaves the liquidity vault (a transfer-fee mint withholds part
        // of it on the way to the user) is at most what the position was debited
        if matches!(a_eff, Action::Withdraw { .. } | Action::Borrow { .. }) {
            let v0 = world::token_amount(&c.pre.s, &bh.lv) as i128;
            let v1 = world::token_amount(c.post, &bh.lv) as i128;
            let paid_out = rf::qi(v0 - v1);
            let debited = -d_pos.clone();
            if paid_out > debited.clone() + allow.clone() {
                out.push(Violation {
                    clause: "C03.no_gain".into(),
                    detail: format!("{:?}: the liquidity vault paid out {} native units for a position debit of {:.9} (the user's token account received {})", c.a, v0 - v1, rf::qf64(&debited), t1 - t0),
                });
            }
            tags.push("vault_side_checked");
        }
        // ... and what a position is credited on the way in (deposit, repayment) is at most what arrived in the
        // liquidity vault (a transfer-fee mint withholds part of what the user sent); the risk admin's sanctioned
        // token-less repayment on a bank flagged for it is the one credit without tokens
        let tokenless_ok = matches!(a_eff, Action::Repay { all: true, .. }) && world::try_bank(&c.pre.s, &bh.key).map(|x| x.flags & marginfi_type_crate::constants::TOKENLESS_REPAYMENTS_ALLOWED != 0).unwrap_or(false);
        if matches!(a_eff, Action::Deposit { .. } | Action::Repay { .. }) && !tokenless_ok {
            let v0 = world::token_amount(&c.pre.s, &bh.lv) as i128;
            let v1 = world::token_amount(c.post, &bh.lv) as i128;
            let received = rf::qi(v1 - v0);
            if d_pos.clone() > received.clone() + allow.clone() {
                out.push(Violation {
                    clause: "C03.no_gain".into(),
                    detail: format!("{:?}: the position was credited {:.9} native units while the liquidity vault received {} (the user's token account paid {})", c.a, rf::qf64(&d_pos), v1 - v0, t0 - t1),
                });
            }
            tags.push("vault_inflow_checked");
        }
        if d_w > allow {
            out.push(Violation {
                clause: "C03.no_gain".into(),
                detail: format!(
                    "{:?}: user tokens changed by {} and position value by {:.12} (asset {:.9}->{:.9}, liability {:.9}->{:.9}): net gain {:.12} native units (allowance {:.2e})",
                    c.a,
                    t1 - t0,
                    rf::qf64(&d_pos),
                    rf::qf64(&a0),
                    rf::qf64(&a1),
                    rf::qf64(&l0),
                    rf::qf64(&l1),
                    rf::qf64(&d_w),
                    rf::qf64(&allow)
                ),
            });
        }
    }
}

// ------------------------------------------------------------------------------------------------
// C17 — caps and utilisation

pub struct CapsOracle;

pub const ERR_ASSET_CAPACITY: u64 = 6003;

impl StepOracle for CapsOracle {
    fn name(&self) -> &'static str {
        "C17"
    }
    fn check(&self, c: &StepCtx, out: &mut Vec<Violation>, tags: &mut Vec<&'static str>) {
        // (an action inside a flash-loan bracket of the acting account is judged like the action itself)
        let a_eff: &Action = match c.a {
            Action::InFlashloan { base } => base.as_ref(),
            x => x,
        };
        let b = match a_eff {
            Action::Deposit { b, .. } | Action::Withdraw { b, .. } | Action::Borrow { b, .. } => *b,
            _ => return,
        };
        let bh = &c.w.banks[b];
        let Some(bank_pre) = world::try_bank(&c.pre.s, &bh.key) else { return };
        if let Action::Deposit { up_to_limit: Some(true), .. } = a_eff {
            if !c.res.committed && c.res.code == ERR_ASSET_CAPACITY {
                out.push(Violation {
                    clause: "C17.up_to_limit_never_capacity_fails".into(),
                    detail: format!(
                        "{:?} failed with BankAssetCapacityExceeded (deposit limit {}, deposits before {:.6}, bank last accrued {} s ago)",
                        c.a,
                        bank_pre.config.deposit_limit,
                        rf::qf64(&c.pre_nums[b].deposits()),
                        c.pre.s.now - c.pre_nums[b].last_update
                    ),
                });
            }
        }
        if let Action::Deposit { up_to_limit: Some(true), .. } = a_eff {
            if !c.res.committed && c.res.code != ERR_ASSET_CAPACITY && bank_pre.config.deposit_limit != u64::MAX {
                // differential: the same deposit with the limit lifted; if it commits, the cap caused the failure
                let mut t = c.pre.s.clone();
                world::edit_bank(&mut t, &bh.key, |bk| bk.config.deposit_limit = u64::MAX);
                if crate::act::apply(c.w, &mut t, c.a).committed {
                    out.push(Violation {
                        clause: "C17.up_to_limit_never_capacity_fails".into(),
                        detail: format!(
                            "{:?} failed with {} and succeeds once the deposit limit is lifted (deposit limit {}, deposits before {:.6}): the cap made an up-to-limit deposit fail",
                            c.a,
                            crate::svm::err_name(c.res.code),
                            bank_pre.config.deposit_limit,
                            rf::qf64(&c.pre_nums[b].deposits())
                        ),
                    });
                }
            }
        }
        if !c.res.committed {
            if c.res.code == ERR_ASSET_CAPACITY {
                tags.push("capacity_rejected");
            }
            return;
        }
        let Some(bank) = world::try_bank(c.post, &bh.key) else { return };
        let qn = &c.post_nums[b];
        match a_eff {
            Action::Deposit { up_to_limit, .. } => {
                // a clipped-to-zero up-to-limit deposit is a no-op, not a deposit
                if bank.config.deposit_limit != u64::MAX && qn.a_sh > c.pre_nums[b].a_sh {
                    tags.push("deposit_cap_checked");
                    let lim = rf::qu(bank.config.deposit_limit);
                    if qn.deposits() >= lim {
                        out.push(Violation {
                            clause: "C17.deposit_below_limit".into(),
                            detail: format!("{:?} succeeded and left total deposits {:.9} >= deposit limit {}", c.a, rf::qf64(&qn.deposits()), bank.config.deposit_limit),
                        });
                    }
                    if *up_to_limit == Some(true) && lim.clone() - qn.deposits() < rf::qi(2) {
                        tags.push("filled_to_limit");
                    }
                }
            }
            Action::Borrow { .. } => {
                if bank.config.borrow_limit != u64::MAX {
                    tags.push("borrow_cap_checked");
                    if qn.liabs() >= rf::qu(bank.config.borrow_limit) {
                        out.push(Violation {
                            clause: "C17.borrow_below_limit".into(),
                            detail: format!("{:?} succeeded and left total debt {:.9} >= borrow limit {}", c.a, rf::qf64(&qn.liabs()), bank.config.borrow_limit),
                        });
                    }
                }
            }
            _ => {}
        }
        if matches!(c.a, Action::Withdraw { .. } | Action::Borrow { .. }) {
            tags.push("utilisation_checked");
            // the program compares amounts truncated to 2^-48: allow one ulp
            if qn.deposits() + rf::ulp() < qn.liabs() {
                out.push(Violation {
                    clause: "C17.deposits_cover_debt".into(),
                    detail: format!("{:?} succeeded and left total deposits {:.9} below total debt {:.9}", c.a, rf::qf64(&qn.deposits()), rf::qf64(&qn.liabs())),
                });
            }
        }
    }
}

// ------------------------------------------------------------------------------------------------
// C16 — account structure

pub struct StructureOracle;

fn is_default_class(tag: u8) -> bool {
    matches!(tag, ASSET_TAG_DEFAULT | ASSET_TAG_KAMINO | ASSET_TAG_DRIFT | ASSET_TAG_SOLEND)
}

pub fn structure_violations(ma: &marginfi_type_crate::types::MarginfiAccount, who: &str) -> Vec<Violation> {
    let mut out = vec![];
    let bals = &ma.lending_account.balances;
    let active: Vec<&marginfi_type_crate::types::Balance> = bals.iter().filter(|b| b.active != 0).collect();
    for i in 0..active.len() {
        for j in i + 1..active.len() {
            if active[i].bank_pk == active[j].bank_pk {
                out.push(Violation { clause: "C16.one_position_per_bank".into(), detail: format!("{who}: two active positions in bank {}", world::label_of(&active[i].bank_pk)) });
            }
        }
    }
    for b in &active {
        if rf::q(b.asset_shares) >= rf::qone() && rf::q(b.liability_shares) >= rf::qone() {
            out.push(Violation { clause: "C16.one_side_per_bank".into(), detail: format!("{who}: bank {} holds {:.4} asset shares and {:.4} liability shares", world::label_of(&b.bank_pk), rf::qf64(&rf::q(b.asset_shares)), rf::qf64(&rf::q(b.liability_shares))) });
        }
    }
    // active positions form a prefix, ordered by bank key descending
    let mut seen_inactive = false;
    let mut prev: Option<Pubkey> = None;
    for b in bals.iter() {
        if b.active == 0 {
            seen_inactive = true;
            continue;
        }
        if seen_inactive {
            out.push(Violation { clause: "C16.sorted".into(), detail: format!("{who}: an active position follows an empty slot") });
            break;
        }
        if let Some(p) = prev {
            if b.bank_pk > p {
                out.push(Violation { clause: "C16.sorted".into(), detail: format!("{who}: positions are not in descending bank-key order") });
                break;
            }
        }
        prev = Some(b.bank_pk);
    }
    let staked = active.iter().any(|b| b.bank_asset_tag == ASSET_TAG_STAKED);
    let default_like = active.iter().any(|b| is_default_class(b.bank_asset_tag));
    if staked && default_like {
        out.push(Violation { clause: "C16.tag_compat".into(), detail: format!("{who}: staked-collateral and default-class positions in one account") });
    }
    let integ = active.iter().filter(|b| matches!(b.bank_asset_tag, ASSET_TAG_KAMINO | ASSET_TAG_DRIFT | ASSET_TAG_SOLEND)).count();
    if integ > 8 || active.len() > 16 {
        out.push(Violation { clause: "C16.bounded".into(), detail: format!("{who}: {} integration positions, {} positions", integ, active.len()) });
    }
    out
}

impl StepOracle for StructureOracle {
    fn name(&self) -> &'static str {
        "C16"
    }
    fn check(&self, c: &StepCtx, out: &mut Vec<Violation>, tags: &mut Vec<&'static str>) {
        use marginfi_type_crate::types::{ACCOUNT_DISABLED, ACCOUNT_FROZEN, ACCOUNT_IN_FLASHLOAN, ACCOUNT_IN_RECEIVERSHIP};
        let acting = match c.a {
            Action::Deposit { u, .. } | Action::Withdraw { u, .. } | Action::Borrow { u, .. } | Action::Repay { u, .. } | Action::CloseAccount { u } | Action::Transfer { u } | Action::TransferPda { u } => Some(*u),
            _ => None,
        };
        if !c.res.committed {
            return;
        }
        // disabled accounts cannot transact
        if let (Some(u), Action::Deposit { .. } | Action::Withdraw { .. } | Action::Borrow { .. } | Action::Repay { .. }) = (acting, c.a) {
            if let Some(pre) = world::try_account(&c.pre.s, &act::cur_account(c.w, &c.pre.s, u)) {
                if pre.account_flags & ACCOUNT_DISABLED != 0 {
                    out.push(Violation { clause: "C16.disabled_cannot_transact".into(), detail: format!("{:?} succeeded on a disabled account", c.a) });
                }
            }
        }
        if let Action::CloseAccount { u } | Action::CloseOriginal { u } = c.a {
            tags.push("account_closed");
            let target = if matches!(c.a, Action::CloseOriginal { .. }) { c.w.users[*u].account } else { act::cur_account(c.w, &c.pre.s, *u) };
            if let Some(pre) = world::try_account(&c.pre.s, &target) {
                // empty = no position holds anything at all (a position of less than one share is still a position:
                // closing the account over it would strand it in the bank's totals)
                let nonempty = pre.lending_account.balances.iter().any(|b| b.active != 0 && (rf::q(b.asset_shares) > rf::qzero() || rf::q(b.liability_shares) > rf::qzero()));
                let bad_flags = pre.account_flags & (ACCOUNT_DISABLED | ACCOUNT_FROZEN | ACCOUNT_IN_FLASHLOAN | ACCOUNT_IN_RECEIVERSHIP);
                if nonempty || bad_flags != 0 {
                    out.push(Violation { clause: "C16.close_only_when_empty".into(), detail: format!("account closed with non-empty positions={} flags={:#b}", nonempty, pre.account_flags) });
                }
            }
        }
        if let Action::Transfer { u } | Action::TransferPda { u } = c.a {
            tags.push("transferred");
            let old_k = act::cur_account(c.w, &c.pre.s, *u);
            let new_k = if matches!(c.a, Action::TransferPda { .. }) { act::next_account_key_pda(c.w, &old_k, &c.w.users[*u].authority) } else { act::next_account_key(&old_k) };
            let (pre_old, post_old, post_new) = (world::try_account(&c.pre.s, &old_k), world::try_account(c.post, &old_k), world::try_account(c.post, &new_k));
            if let (Some(po), Some(qo), Some(qn)) = (pre_old, post_old, post_new) {
                if qo.lending_account.balances.iter().any(|b| b.active != 0) || qo.account_flags & ACCOUNT_DISABLED == 0 || qo.migrated_to != new_k {
                    out.push(Violation { clause: "C16.transfer_moves_everything".into(), detail: "after transfer the old account is not empty + disabled + pointing at the new account".into() });
                }
                if qn.lending_account != po.lending_account {
                    out.push(Violation { clause: "C16.transfer_moves_everything".into(), detail: "the new account does not hold exactly the old positions".into() });
                }
                // a disabled (bankrupt) account does not become usable again by moving house
                if po.account_flags & ACCOUNT_DISABLED != 0 {
                    tags.push("disabled_source");
                    if qn.account_flags & ACCOUNT_DISABLED == 0 {
                        out.push(Violation { clause: "C16.disabled_cannot_transact".into(), detail: format!("{:?}: the source account was disabled, the account that now holds its positions is not (flags {:#b} -> {:#b})", c.a, po.account_flags, qn.account_flags) });
                    }
                }
                // only once: transferring the old account again must fail
                let mut t = c.post.clone();
                let again = crate::ix::transfer_to_new_account(c.w.group, old_k, world::key("c16:second-transfer-target"), c.w.users[*u].authority, c.w.payer, c.w.users[*u].authority, c.w.fee_wallet);
                let r = crate::svm::process_tx(&mut t, &crate::svm::Tx::one(again, &[c.w.users[*u].authority, c.w.payer, world::key("c16:second-transfer-target")]));
                if r.ok() {
                    out.push(Violation { clause: "C16.transfer_once".into(), detail: "a migrated account was transferred a second time".into() });
                }
                // ... by the PDA flavour of the instruction either
                let mut t = c.post.clone();
                let auth = c.w.users[*u].authority;
                let (_k, again) = crate::ix::transfer_to_new_account_pda(c.w.group, old_k, auth, c.w.payer, auth, c.w.fee_wallet, 77, None);
                let r = crate::svm::process_tx(&mut t, &crate::svm::Tx::one(again, &[auth, c.w.payer]));
                if r.ok() {
                    out.push(Violation { clause: "C16.transfer_once".into(), detail: "a migrated account was transferred a second time (PDA variant)".into() });
                }
            } else {
                out.push(Violation { clause: "C16.transfer_moves_everything".into(), detail: "transfer succeeded but old/new accounts cannot be read".into() });
            }
        }
        // structural invariants of every account + tag stability of live slots
        let pre_accts = rf::all_accounts(&c.pre.s);
        for (k, ma) in rf::all_accounts(c.post) {
            let pre = pre_accts.iter().find(|(pk, _)| *pk == k).map(|x| &x.1);
            if pre.map(|p| p.lending_account == ma.lending_account).unwrap_or(false) {
                continue;
            }
            tags.push("structure_checked");
            out.extend(structure_violations(&ma, &world::label_of(&k)));
            if let Some(p) = pre {
                for b in ma.lending_account.balances.iter().filter(|b| b.active != 0) {
                    if let Some(pb) = p.lending_account.balances.iter().find(|x| x.active != 0 && x.bank_pk == b.bank_pk) {
                        if pb.bank_asset_tag != b.bank_asset_tag {
                            out.push(Violation { clause: "C16.tag_stable".into(), detail: format!("position in bank {} changed its asset tag {} -> {}", world::label_of(&b.bank_pk), pb.bank_asset_tag, b.bank_asset_tag) });
                        }
                    }
                }
            }
        }
    }
}
