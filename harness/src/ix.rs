//! Instruction builders. Discriminators, argument encodings and account orders come from the
//! program's own generated client modules (`marginfi::accounts`, `marginfi::instruction`).

use crate::svm::Ix;
use anchor_lang::{InstructionData, ToAccountMetas};
use marginfi::{accounts as A, instruction as I};
use marginfi_type_crate::constants::*;
use marginfi_type_crate::types::{
    BankConfigCompact, BankConfigOpt, EmodeEntry, InterestRateConfigOpt, WrappedI80F48, MAX_EMODE_ENTRIES,
};
use solana_program::{instruction::AccountMeta, pubkey::Pubkey, system_program, sysvar};

pub const PID: Pubkey = id_crate::ID_CONST;

pub fn mk<Acc: ToAccountMetas, D: InstructionData>(a: Acc, d: D, rem: Vec<AccountMeta>) -> Ix {
    let mut accounts = a.to_account_metas(None);
    accounts.extend(rem);
    Ix { program_id: PID, accounts, data: d.data(), proxy: None }
}

pub fn ro(k: Pubkey) -> AccountMeta {
    AccountMeta::new_readonly(k, false)
}
pub fn rw(k: Pubkey) -> AccountMeta {
    AccountMeta::new(k, false)
}

pub fn fee_state_key() -> Pubkey {
    Pubkey::find_program_address(&[FEE_STATE_SEED.as_bytes()], &PID).0
}
pub fn liquidity_vault(bank: &Pubkey) -> (Pubkey, u8) {
    Pubkey::find_program_address(&[LIQUIDITY_VAULT_SEED.as_bytes(), bank.as_ref()], &PID)
}
pub fn liquidity_vault_auth(bank: &Pubkey) -> (Pubkey, u8) {
    Pubkey::find_program_address(&[LIQUIDITY_VAULT_AUTHORITY_SEED.as_bytes(), bank.as_ref()], &PID)
}
pub fn insurance_vault(bank: &Pubkey) -> (Pubkey, u8) {
    Pubkey::find_program_address(&[INSURANCE_VAULT_SEED.as_bytes(), bank.as_ref()], &PID)
}
pub fn insurance_vault_auth(bank: &Pubkey) -> (Pubkey, u8) {
    Pubkey::find_program_address(&[INSURANCE_VAULT_AUTHORITY_SEED.as_bytes(), bank.as_ref()], &PID)
}
pub fn fee_vault(bank: &Pubkey) -> (Pubkey, u8) {
    Pubkey::find_program_address(&[FEE_VAULT_SEED.as_bytes(), bank.as_ref()], &PID)
}
pub fn fee_vault_auth(bank: &Pubkey) -> (Pubkey, u8) {
    Pubkey::find_program_address(&[FEE_VAULT_AUTHORITY_SEED.as_bytes(), bank.as_ref()], &PID)
}
pub fn liq_record_key(account: &Pubkey) -> Pubkey {
    Pubkey::find_program_address(&[LIQUIDATION_RECORD_SEED.as_bytes(), account.as_ref()], &PID).0
}
pub fn emissions_auth(bank: &Pubkey, mint: &Pubkey) -> Pubkey {
    Pubkey::find_program_address(&[EMISSIONS_AUTH_SEED.as_bytes(), bank.as_ref(), mint.as_ref()], &PID).0
}
pub fn emissions_vault(bank: &Pubkey, mint: &Pubkey) -> Pubkey {
    Pubkey::find_program_address(&[EMISSIONS_TOKEN_ACCOUNT_SEED.as_bytes(), bank.as_ref(), mint.as_ref()], &PID).0
}
pub fn staked_settings_key(group: &Pubkey) -> Pubkey {
    Pubkey::find_program_address(&[STAKED_SETTINGS_SEED.as_bytes(), group.as_ref()], &PID).0
}
pub fn metadata_key(bank: &Pubkey) -> Pubkey {
    Pubkey::find_program_address(&[METADATA_SEED.as_bytes(), bank.as_ref()], &PID).0
}
pub fn bank_with_seed_key(group: &Pubkey, mint: &Pubkey, seed: u64) -> Pubkey {
    Pubkey::find_program_address(&[group.as_ref(), mint.as_ref(), &seed.to_le_bytes()], &PID).0
}
pub fn account_pda(group: &Pubkey, authority: &Pubkey, index: u16, third: Option<u16>) -> Pubkey {
    Pubkey::find_program_address(
        &[
            MARGINFI_ACCOUNT_SEED.as_bytes(),
            group.as_ref(),
            authority.as_ref(),
            &index.to_le_bytes(),
            &third.unwrap_or(0).to_le_bytes(),
        ],
        &PID,
    )
    .0
}

pub fn w(x: fixed::types::I80F48) -> WrappedI80F48 {
    x.into()
}

// ---------------------------------------------------------------------------- global / group

#[allow(clippy::too_many_arguments)]
pub fn init_global_fee_state(
    payer: Pubkey,
    admin: Pubkey,
    fee_wallet: Pubkey,
    bank_init_flat_sol_fee: u32,
    liquidation_flat_sol_fee: u32,
    program_fee_fixed: WrappedI80F48,
    program_fee_rate: WrappedI80F48,
    liquidation_max_fee: WrappedI80F48,
) -> Ix {
    mk(
        A::InitFeeState { payer, fee_state: fee_state_key(), system_program: system_program::id() },
        I::InitGlobalFeeState {
            admin,
            fee_wallet,
            bank_init_flat_sol_fee,
            liquidation_flat_sol_fee,
            program_fee_fixed,
            program_fee_rate,
            liquidation_max_fee,
        },
        vec![],
    )
}

#[allow(clippy::too_many_arguments)]
pub fn edit_global_fee_state(
    global_fee_admin: Pubkey,
    admin: Pubkey,
    fee_wallet: Pubkey,
    bank_init_flat_sol_fee: u32,
    liquidation_flat_sol_fee: u32,
    program_fee_fixed: WrappedI80F48,
    program_fee_rate: WrappedI80F48,
    liquidation_max_fee: WrappedI80F48,
) -> Ix {
    mk(
        A::EditFeeState { global_fee_admin, fee_state: fee_state_key() },
        I::EditGlobalFeeState {
            admin,
            fee_wallet,
            bank_init_flat_sol_fee,
            liquidation_flat_sol_fee,
            program_fee_fixed,
            program_fee_rate,
            liquidation_max_fee,
        },
        vec![],
    )
}

pub fn group_initialize(group: Pubkey, admin: Pubkey) -> Ix {
    mk(
        A::MarginfiGroupInitialize {
            marginfi_group: group,
            admin,
            fee_state: fee_state_key(),
            system_program: system_program::id(),
        },
        I::MarginfiGroupInitialize {},
        vec![],
    )
}

#[derive(Clone, Copy, Debug, PartialEq, Eq)]
pub struct GroupRoles {
    pub admin: Pubkey,
    pub emode: Pubkey,
    pub curve: Pubkey,
    pub limit: Pubkey,
    pub emissions: Pubkey,
    pub metadata: Pubkey,
    pub risk: Pubkey,
}

pub fn group_configure(
    group: Pubkey,
    admin: Pubkey,
    roles: &GroupRoles,
    init_lev: Option<WrappedI80F48>,
    maint_lev: Option<WrappedI80F48>,
) -> Ix {
    mk(
        A::MarginfiGroupConfigure { marginfi_group: group, admin },
        I::MarginfiGroupConfigure {
            new_admin: roles.admin,
            new_emode_admin: roles.emode,
            new_curve_admin: roles.curve,
            new_limit_admin: roles.limit,
            new_emissions_admin: roles.emissions,
            new_metadata_admin: roles.metadata,
            new_risk_admin: roles.risk,
            emode_max_init_leverage: init_lev,
            emode_max_maint_leverage: maint_lev,
        },
        vec![],
    )
}

pub fn config_group_fee(group: Pubkey, global_fee_admin: Pubkey, enable: bool) -> Ix {
    mk(
        A::ConfigGroupFee { marginfi_group: group, global_fee_admin, fee_state: fee_state_key() },
        I::ConfigGroupFee { enable_program_fee: enable },
        vec![],
    )
}

pub fn propagate_fee_state(group: Pubkey) -> Ix {
    mk(A::PropagateFee { fee_state: fee_state_key(), marginfi_group: group }, I::PropagateFeeState {}, vec![])
}

pub fn panic_pause(global_fee_admin: Pubkey) -> Ix {
    mk(A::PanicPause { global_fee_admin, fee_state: fee_state_key() }, I::PanicPause {}, vec![])
}
pub fn panic_unpause(global_fee_admin: Pubkey) -> Ix {
    mk(A::PanicUnpause { global_fee_admin, fee_state: fee_state_key() }, I::PanicUnpause {}, vec![])
}
pub fn panic_unpause_permissionless() -> Ix {
    mk(A::PanicUnpausePermissionless { fee_state: fee_state_key() }, I::PanicUnpausePermissionless {}, vec![])
}

pub fn configure_deleverage_withdrawal_limit(group: Pubkey, admin: Pubkey, limit: u32) -> Ix {
    mk(
        A::ConfigureDeleverageWithdrawalLimit { marginfi_group: group, admin },
        I::ConfigureDeleverageWithdrawalLimit { limit },
        vec![],
    )
}

// ---------------------------------------------------------------------------- banks

#[allow(clippy::too_many_arguments)]
pub fn add_bank(
    group: Pubkey,
    admin: Pubkey,
    fee_payer: Pubkey,
    global_fee_wallet: Pubkey,
    mint: Pubkey,
    bank: Pubkey,
    token_program: Pubkey,
    config: BankConfigCompact,
) -> Ix {
    mk(
        A::LendingPoolAddBank {
            marginfi_group: group,
            admin,
            fee_payer,
            fee_state: fee_state_key(),
            global_fee_wallet,
            bank_mint: mint,
            bank,
            liquidity_vault_authority: liquidity_vault_auth(&bank).0,
            liquidity_vault: liquidity_vault(&bank).0,
            insurance_vault_authority: insurance_vault_auth(&bank).0,
            insurance_vault: insurance_vault(&bank).0,
            fee_vault_authority: fee_vault_auth(&bank).0,
            fee_vault: fee_vault(&bank).0,
            token_program,
            system_program: system_program::id(),
        },
        I::LendingPoolAddBank { bank_config: config },
        vec![],
    )
}

#[allow(clippy::too_many_arguments)]
pub fn add_bank_with_seed(
    group: Pubkey,
    admin: Pubkey,
    fee_payer: Pubkey,
    global_fee_wallet: Pubkey,
    mint: Pubkey,
    token_program: Pubkey,
    config: BankConfigCompact,
    seed: u64,
) -> (Pubkey, Ix) {
    let bank = bank_with_seed_key(&group, &mint, seed);
    (
        bank,
        mk(
            A::LendingPoolAddBankWithSeed {
                marginfi_group: group,
                admin,
                fee_payer,
                fee_state: fee_state_key(),
                global_fee_wallet,
                bank_mint: mint,
                bank,
                liquidity_vault_authority: liquidity_vault_auth(&bank).0,
                liquidity_vault: liquidity_vault(&bank).0,
                insurance_vault_authority: insurance_vault_auth(&bank).0,
                insurance_vault: insurance_vault(&bank).0,
                fee_vault_authority: fee_vault_auth(&bank).0,
                fee_vault: fee_vault(&bank).0,
                token_program,
                system_program: system_program::id(),
            },
            I::LendingPoolAddBankWithSeed { bank_config: config, bank_seed: seed },
            vec![],
        ),
    )
}

/// addresses the spl-single-pool program derives from a pool: (LST mint, SOL stake account)
pub fn single_pool_keys(stake_pool: &Pubkey) -> (Pubkey, Pubkey) {
    let pid = marginfi::constants::SPL_SINGLE_POOL_ID;
    (Pubkey::find_program_address(&[b"mint", stake_pool.as_ref()], &pid).0, Pubkey::find_program_address(&[b"stake", stake_pool.as_ref()], &pid).0)
}

pub fn add_bank_permissionless(group: Pubkey, fee_payer: Pubkey, stake_pool: Pubkey, seed: u64, rem: Vec<AccountMeta>) -> (Pubkey, Ix) {
    let (mint, sol_pool) = single_pool_keys(&stake_pool);
    let bank = bank_with_seed_key(&group, &mint, seed);
    (
        bank,
        mk(
            A::LendingPoolAddBankPermissionless {
                marginfi_group: group,
                staked_settings: staked_settings_key(&group),
                fee_payer,
                bank_mint: mint,
                sol_pool,
                stake_pool,
                bank,
                liquidity_vault_authority: liquidity_vault_auth(&bank).0,
                liquidity_vault: liquidity_vault(&bank).0,
                insurance_vault_authority: insurance_vault_auth(&bank).0,
                insurance_vault: insurance_vault(&bank).0,
                fee_vault_authority: fee_vault_auth(&bank).0,
                fee_vault: fee_vault(&bank).0,
                token_program: spl_token::id(),
                system_program: system_program::id(),
            },
            I::LendingPoolAddBankPermissionless { bank_seed: seed },
            rem,
        ),
    )
}

pub fn configure_bank_oracle(group: Pubkey, admin: Pubkey, bank: Pubkey, setup: u8, oracle: Pubkey, rem: Vec<AccountMeta>) -> Ix {
    mk(
        A::LendingPoolConfigureBankOracle { group, admin, bank },
        I::LendingPoolConfigureBankOracle { setup, oracle },
        rem,
    )
}

pub fn set_fixed_oracle_price(group: Pubkey, admin: Pubkey, bank: Pubkey, price: WrappedI80F48) -> Ix {
    mk(A::LendingPoolSetFixedOraclePrice { group, admin, bank }, I::LendingPoolSetFixedOraclePrice { price }, vec![])
}

pub fn configure_bank(group: Pubkey, admin: Pubkey, bank: Pubkey, opt: BankConfigOpt) -> Ix {
    mk(A::LendingPoolConfigureBank { group, admin, bank }, I::LendingPoolConfigureBank { bank_config_opt: opt }, vec![])
}

pub fn configure_bank_interest_only(group: Pubkey, curve_admin: Pubkey, bank: Pubkey, opt: InterestRateConfigOpt) -> Ix {
    mk(
        A::LendingPoolConfigureBankInterestOnly { group, delegate_curve_admin: curve_admin, bank },
        I::LendingPoolConfigureBankInterestOnly { interest_rate_config: opt },
        vec![],
    )
}

pub fn configure_bank_limits_only(
    group: Pubkey,
    limit_admin: Pubkey,
    bank: Pubkey,
    deposit_limit: Option<u64>,
    borrow_limit: Option<u64>,
    total_asset_value_init_limit: Option<u64>,
) -> Ix {
    mk(
        A::LendingPoolConfigureBankLimitsOnly { group, delegate_limit_admin: limit_admin, bank },
        I::LendingPoolConfigureBankLimitsOnly { deposit_limit, borrow_limit, total_asset_value_init_limit },
        vec![],
    )
}

pub fn configure_bank_emode(group: Pubkey, emode_admin: Pubkey, bank: Pubkey, tag: u16, entries: [EmodeEntry; MAX_EMODE_ENTRIES]) -> Ix {
    mk(
        A::LendingPoolConfigureBankEmode { group, emode_admin, bank },
        I::LendingPoolConfigureBankEmode { emode_tag: tag, entries },
        vec![],
    )
}

pub fn clone_emode(group: Pubkey, signer: Pubkey, from: Pubkey, to: Pubkey) -> Ix {
    mk(
        A::LendingPoolCloneEmode { group, signer, copy_from_bank: from, copy_to_bank: to },
        I::LendingPoolCloneEmode {},
        vec![],
    )
}

pub fn force_tokenless_repay_complete(group: Pubkey, risk_admin: Pubkey, bank: Pubkey) -> Ix {
    mk(
        A::LendingPoolForceTokenlessRepayComplete { group, risk_admin, bank },
        I::LendingPoolForceTokenlessRepayComplete {},
        vec![],
    )
}

pub fn accrue(group: Pubkey, bank: Pubkey) -> Ix {
    mk(A::LendingPoolAccrueBankInterest { group, bank }, I::LendingPoolAccrueBankInterest {}, vec![])
}

pub fn migrate_curve(bank: Pubkey) -> Ix {
    mk(A::MigrateCurve { bank }, I::MigrateCurve {}, vec![])
}

pub fn close_bank(group: Pubkey, bank: Pubkey, admin: Pubkey) -> Ix {
    mk(A::LendingPoolCloseBank { group, bank, admin }, I::LendingPoolCloseBank {}, vec![])
}

#[allow(clippy::too_many_arguments)]
pub fn collect_bank_fees(group: Pubkey, bank: Pubkey, fee_ata: Pubkey, token_program: Pubkey, rem: Vec<AccountMeta>) -> Ix {
    mk(
        A::LendingPoolCollectBankFees {
            group,
            bank,
            liquidity_vault_authority: liquidity_vault_auth(&bank).0,
            liquidity_vault: liquidity_vault(&bank).0,
            insurance_vault: insurance_vault(&bank).0,
            fee_vault: fee_vault(&bank).0,
            fee_state: fee_state_key(),
            fee_ata,
            token_program,
        },
        I::LendingPoolCollectBankFees {},
        rem,
    )
}

pub fn withdraw_fees(group: Pubkey, bank: Pubkey, admin: Pubkey, dst: Pubkey, token_program: Pubkey, amount: u64, rem: Vec<AccountMeta>) -> Ix {
    mk(
        A::LendingPoolWithdrawFees {
            group,
            bank,
            admin,
            fee_vault: fee_vault(&bank).0,
            fee_vault_authority: fee_vault_auth(&bank).0,
            dst_token_account: dst,
            token_program,
        },
        I::LendingPoolWithdrawFees { amount },
        rem,
    )
}

pub fn withdraw_insurance(group: Pubkey, bank: Pubkey, admin: Pubkey, dst: Pubkey, token_program: Pubkey, amount: u64, rem: Vec<AccountMeta>) -> Ix {
    mk(
        A::LendingPoolWithdrawInsurance {
            group,
            bank,
            admin,
            insurance_vault: insurance_vault(&bank).0,
            insurance_vault_authority: insurance_vault_auth(&bank).0,
            dst_token_account: dst,
            token_program,
        },
        I::LendingPoolWithdrawInsurance { amount },
        rem,
    )
}

pub fn update_fees_destination(group: Pubkey, bank: Pubkey, admin: Pubkey, destination_account: Pubkey) -> Ix {
    mk(
        A::LendingPoolUpdateFeesDestinationAccount { group, bank, admin, destination_account },
        I::LendingPoolUpdateFeesDestinationAccount {},
        vec![],
    )
}

pub fn withdraw_fees_permissionless(group: Pubkey, bank: Pubkey, dst: Pubkey, token_program: Pubkey, amount: u64, rem: Vec<AccountMeta>) -> Ix {
    mk(
        A::LendingPoolWithdrawFeesPermissionless {
            group,
            bank,
            fee_vault: fee_vault(&bank).0,
            fee_vault_authority: fee_vault_auth(&bank).0,
            fees_destination_account: dst,
            token_program,
        },
        I::LendingPoolWithdrawFeesPermissionless { amount },
        rem,
    )
}

#[allow(clippy::too_many_arguments)]
pub fn handle_bankruptcy(group: Pubkey, signer: Pubkey, bank: Pubkey, account: Pubkey, token_program: Pubkey, rem: Vec<AccountMeta>) -> Ix {
    mk(
        A::LendingPoolHandleBankruptcy {
            group,
            signer,
            bank,
            marginfi_account: account,
            liquidity_vault: liquidity_vault(&bank).0,
            insurance_vault: insurance_vault(&bank).0,
            insurance_vault_authority: insurance_vault_auth(&bank).0,
            token_program,
        },
        I::LendingPoolHandleBankruptcy {},
        rem,
    )
}

pub fn pulse_bank_price_cache(group: Pubkey, bank: Pubkey, rem: Vec<AccountMeta>) -> Ix {
    mk(A::LendingPoolPulseBankPriceCache { group, bank }, I::LendingPoolPulseBankPriceCache {}, rem)
}

#[allow(clippy::too_many_arguments)]
pub fn setup_emissions(
    group: Pubkey,
    emissions_admin: Pubkey,
    bank: Pubkey,
    emissions_mint: Pubkey,
    funding_account: Pubkey,
    token_program: Pubkey,
    flags: u64,
    rate: u64,
    total_emissions: u64,
) -> Ix {
    mk(
        A::LendingPoolSetupEmissions {
            group,
            delegate_emissions_admin: emissions_admin,
            bank,
            emissions_mint,
            emissions_auth: emissions_auth(&bank, &emissions_mint),
            emissions_token_account: emissions_vault(&bank, &emissions_mint),
            emissions_funding_account: funding_account,
            token_program,
            system_program: system_program::id(),
        },
        I::LendingPoolSetupEmissions { flags, rate, total_emissions },
        vec![],
    )
}

#[allow(clippy::too_many_arguments)]
pub fn update_emissions_parameters(
    group: Pubkey,
    emissions_admin: Pubkey,
    bank: Pubkey,
    emissions_mint: Pubkey,
    funding_account: Pubkey,
    token_program: Pubkey,
    flags: Option<u64>,
    rate: Option<u64>,
    additional: Option<u64>,
) -> Ix {
    mk(
        A::LendingPoolUpdateEmissionsParameters {
            group,
            delegate_emissions_admin: emissions_admin,
            bank,
            emissions_mint,
            emissions_token_account: emissions_vault(&bank, &emissions_mint),
            emissions_funding_account: funding_account,
            token_program,
        },
        I::LendingPoolUpdateEmissionsParameters { emissions_flags: flags, emissions_rate: rate, additional_emissions: additional },
        vec![],
    )
}

pub fn init_bank_metadata(bank: Pubkey, fee_payer: Pubkey) -> Ix {
    mk(
        A::InitBankMetadata { bank, fee_payer, metadata: metadata_key(&bank), system_program: system_program::id() },
        I::InitBankMetadata {},
        vec![],
    )
}

pub fn write_bank_metadata(group: Pubkey, bank: Pubkey, metadata_admin: Pubkey, ticker: Option<Vec<u8>>, description: Option<Vec<u8>>) -> Ix {
    mk(
        A::WriteBankMetadata { group, bank, metadata_admin, metadata: metadata_key(&bank) },
        I::WriteBankMetadata { ticker, description },
        vec![],
    )
}

// ---------------------------------------------------------------------------- accounts

pub fn account_initialize(group: Pubkey, account: Pubkey, authority: Pubkey, fee_payer: Pubkey) -> Ix {
    mk(
        A::MarginfiAccountInitialize {
            marginfi_group: group,
            marginfi_account: account,
            authority,
            fee_payer,
            system_program: system_program::id(),
        },
        I::MarginfiAccountInitialize {},
        vec![],
    )
}

pub fn account_initialize_pda(group: Pubkey, authority: Pubkey, fee_payer: Pubkey, index: u16, third: Option<u16>) -> (Pubkey, Ix) {
    let account = account_pda(&group, &authority, index, third);
    (
        account,
        mk(
            A::MarginfiAccountInitializePda {
                marginfi_group: group,
                marginfi_account: account,
                authority,
                fee_payer,
                instructions_sysvar: sysvar::instructions::id(),
                system_program: system_program::id(),
            },
            I::MarginfiAccountInitializePda { account_index: index, third_party_id: third },
            vec![],
        ),
    )
}

#[allow(clippy::too_many_arguments)]
pub fn deposit(
    group: Pubkey,
    account: Pubkey,
    authority: Pubkey,
    bank: Pubkey,
    signer_token_account: Pubkey,
    token_program: Pubkey,
    amount: u64,
    up_to_limit: Option<bool>,
    rem: Vec<AccountMeta>,
) -> Ix {
    mk(
        A::LendingAccountDeposit {
            group,
            marginfi_account: account,
            authority,
            bank,
            signer_token_account,
            liquidity_vault: liquidity_vault(&bank).0,
            token_program,
        },
        I::LendingAccountDeposit { amount, deposit_up_to_limit: up_to_limit },
        rem,
    )
}

#[allow(clippy::too_many_arguments)]
pub fn repay(
    group: Pubkey,
    account: Pubkey,
    authority: Pubkey,
    bank: Pubkey,
    signer_token_account: Pubkey,
    token_program: Pubkey,
    amount: u64,
    repay_all: Option<bool>,
    rem: Vec<AccountMeta>,
) -> Ix {
    mk(
        A::LendingAccountRepay {
            group,
            marginfi_account: account,
            authority,
            bank,
            signer_token_account,
            liquidity_vault: liquidity_vault(&bank).0,
            token_program,
        },
        I::LendingAccountRepay { amount, repay_all },
        rem,
    )
}

#[allow(clippy::too_many_arguments)]
pub fn withdraw(
    group: Pubkey,
    account: Pubkey,
    authority: Pubkey,
    bank: Pubkey,
    destination: Pubkey,
    token_program: Pubkey,
    amount: u64,
    withdraw_all: Option<bool>,
    rem: Vec<AccountMeta>,
) -> Ix {
    mk(
        A::LendingAccountWithdraw {
            group,
            marginfi_account: account,
            authority,
            bank,
            destination_token_account: destination,
            bank_liquidity_vault_authority: liquidity_vault_auth(&bank).0,
            liquidity_vault: liquidity_vault(&bank).0,
            token_program,
        },
        I::LendingAccountWithdraw { amount, withdraw_all },
        rem,
    )
}

#[allow(clippy::too_many_arguments)]
pub fn borrow(
    group: Pubkey,
    account: Pubkey,
    authority: Pubkey,
    bank: Pubkey,
    destination: Pubkey,
    token_program: Pubkey,
    amount: u64,
    rem: Vec<AccountMeta>,
) -> Ix {
    mk(
        A::LendingAccountBorrow {
            group,
            marginfi_account: account,
            authority,
            bank,
            destination_token_account: destination,
            bank_liquidity_vault_authority: liquidity_vault_auth(&bank).0,
            liquidity_vault: liquidity_vault(&bank).0,
            token_program,
        },
        I::LendingAccountBorrow { amount },
        rem,
    )
}

pub fn close_balance(group: Pubkey, account: Pubkey, authority: Pubkey, bank: Pubkey) -> Ix {
    mk(
        A::LendingAccountCloseBalance { group, marginfi_account: account, authority, bank },
        I::LendingAccountCloseBalance {},
        vec![],
    )
}

#[allow(clippy::too_many_arguments)]
pub fn liquidate(
    group: Pubkey,
    asset_bank: Pubkey,
    liab_bank: Pubkey,
    liquidator_account: Pubkey,
    authority: Pubkey,
    liquidatee_account: Pubkey,
    token_program: Pubkey,
    asset_amount: u64,
    liquidatee_accounts: u8,
    liquidator_accounts: u8,
    rem: Vec<AccountMeta>,
) -> Ix {
    mk(
        A::LendingAccountLiquidate {
            group,
            asset_bank,
            liab_bank,
            liquidator_marginfi_account: liquidator_account,
            authority,
            liquidatee_marginfi_account: liquidatee_account,
            bank_liquidity_vault_authority: liquidity_vault_auth(&liab_bank).0,
            bank_liquidity_vault: liquidity_vault(&liab_bank).0,
            bank_insurance_vault: insurance_vault(&liab_bank).0,
            token_program,
        },
        I::LendingAccountLiquidate { asset_amount, liquidatee_accounts, liquidator_accounts },
        rem,
    )
}

pub fn start_flashloan(account: Pubkey, authority: Pubkey, end_index: u64) -> Ix {
    mk(
        A::LendingAccountStartFlashloan { marginfi_account: account, authority, ixs_sysvar: sysvar::instructions::id() },
        I::LendingAccountStartFlashloan { end_index },
        vec![],
    )
}

pub fn end_flashloan(account: Pubkey, authority: Pubkey, rem: Vec<AccountMeta>) -> Ix {
    mk(A::LendingAccountEndFlashloan { marginfi_account: account, authority }, I::LendingAccountEndFlashloan {}, rem)
}

pub fn set_account_freeze(group: Pubkey, account: Pubkey, admin: Pubkey, frozen: bool) -> Ix {
    mk(A::SetAccountFreeze { group, marginfi_account: account, admin }, I::MarginfiAccountSetFreeze { frozen }, vec![])
}

pub fn account_close(account: Pubkey, authority: Pubkey, fee_payer: Pubkey) -> Ix {
    mk(A::MarginfiAccountClose { marginfi_account: account, authority, fee_payer }, I::MarginfiAccountClose {}, vec![])
}

pub fn init_liq_record(account: Pubkey, fee_payer: Pubkey) -> Ix {
    mk(
        A::InitLiquidationRecord {
            marginfi_account: account,
            fee_payer,
            liquidation_record: liq_record_key(&account),
            system_program: system_program::id(),
        },
        I::MarginfiAccountInitLiqRecord {},
        vec![],
    )
}

pub fn start_liquidation(account: Pubkey, receiver: Pubkey, rem: Vec<AccountMeta>) -> Ix {
    mk(
        A::StartLiquidation {
            marginfi_account: account,
            liquidation_record: liq_record_key(&account),
            liquidation_receiver: receiver,
            instruction_sysvar: sysvar::instructions::id(),
        },
        I::StartLiquidation {},
        rem,
    )
}

pub fn end_liquidation(account: Pubkey, receiver: Pubkey, global_fee_wallet: Pubkey, rem: Vec<AccountMeta>) -> Ix {
    mk(
        A::EndLiquidation {
            marginfi_account: account,
            liquidation_record: liq_record_key(&account),
            liquidation_receiver: receiver,
            fee_state: fee_state_key(),
            global_fee_wallet,
            system_program: system_program::id(),
        },
        I::EndLiquidation {},
        rem,
    )
}

pub fn start_deleverage(group: Pubkey, account: Pubkey, risk_admin: Pubkey, rem: Vec<AccountMeta>) -> Ix {
    mk(
        A::StartDeleverage {
            marginfi_account: account,
            liquidation_record: liq_record_key(&account),
            group,
            risk_admin,
            instruction_sysvar: sysvar::instructions::id(),
        },
        I::StartDeleverage {},
        rem,
    )
}

pub fn end_deleverage(group: Pubkey, account: Pubkey, risk_admin: Pubkey, rem: Vec<AccountMeta>) -> Ix {
    mk(
        A::EndDeleverage { marginfi_account: account, liquidation_record: liq_record_key(&account), group, risk_admin },
        I::EndDeleverage {},
        rem,
    )
}

pub fn purge_deleverage_balance(group: Pubkey, account: Pubkey, risk_admin: Pubkey, bank: Pubkey) -> Ix {
    mk(
        A::LendingAccountPurgeDelevBalance { group, marginfi_account: account, risk_admin, bank },
        I::PurgeDeleverageBalance {},
        vec![],
    )
}

pub fn pulse_health(account: Pubkey, rem: Vec<AccountMeta>) -> Ix {
    mk(A::PulseHealth { marginfi_account: account }, I::LendingAccountPulseHealth {}, rem)
}

#[allow(clippy::too_many_arguments)]
pub fn transfer_to_new_account(
    group: Pubkey,
    old_account: Pubkey,
    new_account: Pubkey,
    authority: Pubkey,
    fee_payer: Pubkey,
    new_authority: Pubkey,
    global_fee_wallet: Pubkey,
) -> Ix {
    mk(
        A::TransferToNewAccount {
            group,
            old_marginfi_account: old_account,
            new_marginfi_account: new_account,
            authority,
            fee_payer,
            new_authority,
            global_fee_wallet,
            system_program: system_program::id(),
        },
        I::TransferToNewAccount {},
        vec![],
    )
}

#[allow(clippy::too_many_arguments)]
pub fn transfer_to_new_account_pda(group: Pubkey, old_account: Pubkey, authority: Pubkey, fee_payer: Pubkey, new_authority: Pubkey, global_fee_wallet: Pubkey, index: u16, third: Option<u16>) -> (Pubkey, Ix) {
    let new_account = account_pda(&group, &new_authority, index, third);
    (
        new_account,
        mk(
            A::TransferToNewAccountPda {
                group,
                old_marginfi_account: old_account,
                new_marginfi_account: new_account,
                authority,
                fee_payer,
                new_authority,
                global_fee_wallet,
                instructions_sysvar: sysvar::instructions::id(),
                system_program: system_program::id(),
            },
            I::TransferToNewAccountPda { account_index: index, third_party_id: third },
            vec![],
        ),
    )
}

pub fn settle_emissions(account: Pubkey, bank: Pubkey) -> Ix {
    mk(A::LendingAccountSettleEmissions { marginfi_account: account, bank }, I::LendingAccountSettleEmissions {}, vec![])
}

#[allow(clippy::too_many_arguments)]
pub fn withdraw_emissions(
    group: Pubkey,
    account: Pubkey,
    authority: Pubkey,
    bank: Pubkey,
    emissions_mint: Pubkey,
    destination: Pubkey,
    token_program: Pubkey,
) -> Ix {
    mk(
        A::LendingAccountWithdrawEmissions {
            group,
            marginfi_account: account,
            authority,
            bank,
            emissions_mint,
            emissions_auth: emissions_auth(&bank, &emissions_mint),
            emissions_vault: emissions_vault(&bank, &emissions_mint),
            destination_account: destination,
            token_program,
        },
        I::LendingAccountWithdrawEmissions {},
        vec![],
    )
}

pub fn withdraw_emissions_permissionless(
    group: Pubkey,
    account: Pubkey,
    bank: Pubkey,
    emissions_mint: Pubkey,
    destination: Pubkey,
    token_program: Pubkey,
) -> Ix {
    mk(
        A::LendingAccountWithdrawEmissionsPermissionless {
            group,
            marginfi_account: account,
            bank,
            emissions_mint,
            emissions_auth: emissions_auth(&bank, &emissions_mint),
            emissions_vault: emissions_vault(&bank, &emissions_mint),
            destination_account: destination,
            token_program,
        },
        I::LendingAccountWithdrawEmissionsPermissionless {},
        vec![],
    )
}

pub fn update_emissions_destination(account: Pubkey, authority: Pubkey, destination_account: Pubkey) -> Ix {
    mk(
        A::MarginfiAccountUpdateEmissionsDestinationAccount { marginfi_account: account, authority, destination_account },
        I::MarginfiAccountUpdateEmissionsDestinationAccount {},
        vec![],
    )
}

pub fn init_staked_settings(group: Pubkey, admin: Pubkey, fee_payer: Pubkey, settings: marginfi::instructions::StakedSettingsConfig) -> Ix {
    mk(
        A::InitStakedSettings { marginfi_group: group, admin, fee_payer, staked_settings: staked_settings_key(&group), system_program: system_program::id() },
        I::InitStakedSettings { settings },
        vec![],
    )
}

pub fn edit_staked_settings(group: Pubkey, admin: Pubkey, settings: marginfi::instructions::StakedSettingsEditConfig) -> Ix {
    mk(A::EditStakedSettings { marginfi_group: group, admin, staked_settings: staked_settings_key(&group) }, I::EditStakedSettings { settings }, vec![])
}

pub fn propagate_staked_settings(group: Pubkey, bank: Pubkey, rem: Vec<AccountMeta>) -> Ix {
    mk(A::PropagateStakedSettings { marginfi_group: group, staked_settings: staked_settings_key(&group), bank }, I::PropagateStakedSettings {}, rem)
}

// ---------------------------------------------------------------- venue instructions (Drift), see venue.rs

#[allow(clippy::too_many_arguments)]
pub fn drift_deposit(group: Pubkey, account: Pubkey, authority: Pubkey, bank: Pubkey, oracle: Option<Pubkey>, signer_tokens: Pubkey, d: &crate::venue::DriftBank, mint: Pubkey, token_program: Pubkey, amount: u64) -> Ix {
    mk(
        A::DriftDeposit {
            group,
            marginfi_account: account,
            authority,
            bank,
            drift_oracle: oracle,
            liquidity_vault_authority: liquidity_vault_auth(&bank).0,
            liquidity_vault: liquidity_vault(&bank).0,
            signer_token_account: signer_tokens,
            drift_state: d.state,
            integration_acc_2: d.user,
            integration_acc_3: d.user_stats,
            integration_acc_1: d.spot_market,
            drift_spot_market_vault: d.market_vault,
            mint,
            drift_program: drift_mocks::ID,
            token_program,
            system_program: system_program::id(),
        },
        I::DriftDeposit { amount },
        vec![],
    )
}

#[allow(clippy::too_many_arguments)]
pub fn drift_withdraw(group: Pubkey, account: Pubkey, authority: Pubkey, bank: Pubkey, oracle: Option<Pubkey>, destination: Pubkey, d: &crate::venue::DriftBank, mint: Pubkey, token_program: Pubkey, amount: u64, withdraw_all: Option<bool>, rem: Vec<AccountMeta>) -> Ix {
    mk(
        A::DriftWithdraw {
            group,
            marginfi_account: account,
            authority,
            bank,
            drift_oracle: oracle,
            liquidity_vault_authority: liquidity_vault_auth(&bank).0,
            liquidity_vault: liquidity_vault(&bank).0,
            destination_token_account: destination,
            drift_state: d.state,
            integration_acc_2: d.user,
            integration_acc_3: d.user_stats,
            integration_acc_1: d.spot_market,
            drift_spot_market_vault: d.market_vault,
            drift_reward_oracle: None,
            drift_reward_spot_market: None,
            drift_reward_mint: None,
            drift_reward_oracle_2: None,
            drift_reward_spot_market_2: None,
            drift_reward_mint_2: None,
            drift_signer: d.signer,
            mint,
            drift_program: drift_mocks::ID,
            token_program,
            system_program: system_program::id(),
        },
        I::DriftWithdraw { amount, withdraw_all },
        rem,
    )
}
