use vh::act::{apply, Action};
use vh::world::*;

fn main() {
    let banks = vec![
        BankSpec { label: "B6".into(), mint: MintSpec::spl("usdc", 6), oracle: OracleSpec::pyth_usd(100_000_000), config: BankCfg::default() },
        BankSpec { label: "B9".into(), mint: MintSpec::spl("sol", 9), oracle: OracleSpec::pyth_usd_conf(10_000_000_000, 50_000_000), config: BankCfg::default() },
        BankSpec { label: "BF".into(), mint: MintSpec::t22("fee", 6, Some((100, 5000))), oracle: OracleSpec::pyth_usd(100_000_000), config: BankCfg::default() },
        BankSpec { label: "BT".into(), mint: MintSpec::t22("t22", 8, None), oracle: OracleSpec::Swb { value: 2_000_000_000_000_000_000, std_dev: 0 }, config: BankCfg::default() },
    ];
    let t0 = std::time::Instant::now();
    let (w, mut s) = build_world(&WorldSpec::new("smoke", banks, &["u0", "u1"]));
    println!("world built in {:?}, {} accounts", t0.elapsed(), s.accts.len());
    let acts = vec![
        Action::Deposit { u: 0, b: 0, amt: 1_000_000_000, up_to_limit: None },
        Action::Deposit { u: 1, b: 1, amt: 10_000_000_000, up_to_limit: None },
        Action::Deposit { u: 1, b: 2, amt: 5_000_000, up_to_limit: None },
        Action::Deposit { u: 1, b: 3, amt: 500_000_000, up_to_limit: None },
        Action::Borrow { u: 0, b: 1, amt: 1_000_000_000 },
        Action::Borrow { u: 0, b: 1, amt: u64::MAX / 4 },
        Action::Borrow { u: 0, b: 2, amt: 1_000_000 },
        Action::Borrow { u: 0, b: 3, amt: 1_000_000 },
        Action::Advance { dt: 3600 },
        Action::Accrue { b: 1 },
        Action::CollectFees { b: 1 },
        Action::Repay { u: 0, b: 1, amt: 0, all: true },
        Action::Repay { u: 0, b: 2, amt: 0, all: true },
        Action::Repay { u: 0, b: 3, amt: 0, all: true },
        Action::Withdraw { u: 0, b: 0, amt: 0, all: true },
        Action::Withdraw { u: 1, b: 2, amt: 100, all: false },
    ];
    for a in &acts {
        let t = std::time::Instant::now();
        let r = apply(&w, &mut s, a);
        println!("{:?} -> {} ({:?}) panic={:?}", a, vh::svm::err_name(r.code), t.elapsed(), if r.code == vh::svm::ERR_PANIC { vh::svm::last_panic() } else { None });
    }
    for b in &w.banks {
        let bk = bank(&s, &b.key);
        println!("{}: vault={} assets_sh={:?} liab_sh={:?} asv={:?} lsv={:?} ins={:?} grp={:?} prog={:?}", b.label, token_amount(&s, &b.lv), bk.total_asset_shares, bk.total_liability_shares, bk.asset_share_value, bk.liability_share_value, bk.collected_insurance_fees_outstanding, bk.collected_group_fees_outstanding, bk.collected_program_fees_outstanding);
    }
    // timing
    let t = std::time::Instant::now();
    let n = 20000;
    for i in 0..n {
        let mut s2 = s.clone();
        let _ = apply(&w, &mut s2, &Action::Deposit { u: 0, b: 0, amt: 1000 + i, up_to_limit: None });
    }
    println!("{} clone+deposit in {:?}", n, t.elapsed());
}
