fn main() { println!("ok"); }
