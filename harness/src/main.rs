use std::time::Instant;
use vh::checks::{self, Tier};
use vh::evidence;

fn usage() -> ! {
    eprintln!("{}", format!("usage: check <ID> [--tier quick|thorough] [--replay <file>]"));
    std::process::exit(2)
}

fn main() {
    let args: Vec<String> = std::env::args().collect();
    if args.len() < 2 {
        usage();
    }
    let id = args[1].clone();
    let mut tier = match std::env::var("VERIF_TIER").as_deref() {
        Ok("thorough") => Tier::Thorough,
        _ => Tier::Quick,
    };
    let mut replay: Option<String> = None;
    let mut i = 2;
    while i < args.len() {
        match args[i].as_str() {
            "--tier" => {
                tier = match args.get(i + 1).map(|s| s.as_str()) {
                    Some("quick") => Tier::Quick,
                    Some("thorough") => Tier::Thorough,
                    _ => usage(),
                };
                i += 2;
            }
            "--replay" => {
                replay = args.get(i + 1).cloned();
                i += 2;
            }
            _ => usage(),
        }
    }
    vh::evidence::capture_stdout();
    let seed: i64 = std::env::var("VERIF_SEED").ok().and_then(|s| s.parse().ok()).unwrap_or(0);
    // all work happens on a big-stack thread (the program's zero-copy structs are large)
    let h = std::thread::Builder::new()
        .stack_size(256 << 20)
        .spawn(move || {
            vh::svm::init();
            if let Some(path) = replay {
                let txt = std::fs::read_to_string(&path).expect("replay file");
                let v: serde_json::Value = serde_json::from_str(&txt).expect("replay json");
                let r1 = checks::replay(&id, &v["replay"]).expect("no replay support for this property");
                let r2 = checks::replay(&id, &v["replay"]).expect("no replay support for this property");
                let f = |r: &Vec<vh::mc::Violation>| r.iter().map(|x| format!("{}|{}", x.clause, x.detail)).collect::<Vec<_>>();
                if f(&r1) != f(&r2) {
                    vh::evidence::outln(&format!("MACHINERY-FAILURE property={} replay is not deterministic", id));
                    return 2;
                }
                let want = v["clause"].as_str().unwrap_or("");
                let hit: Vec<_> = r1.iter().filter(|x| x.clause == want || want.is_empty()).collect();
                if hit.is_empty() {
                    vh::evidence::outln(&format!("replay of {} did not reproduce clause {} (observed {:?})", path, want, f(&r1)));
                    0
                } else {
                    vh::evidence::outln(&format!("VIOLATION property={} replay={}", id, path));
                    for x in hit {
                        vh::evidence::outln(&format!("  clause={} :: {}", x.clause, x.detail));
                    }
                    1
                }
            } else {
                let t0 = Instant::now();
                match checks::run(&id, tier) {
                    None => {
                        eprintln!("{}", format!("unknown property id {id}"));
                        2
                    }
                    Some(o) => evidence::conclude(&id, if tier == Tier::Quick { "quick" } else { "thorough" }, seed, t0.elapsed().as_secs_f64(), &o),
                }
            }
        })
        .unwrap();
    let code = h.join().unwrap_or(2);
    std::process::exit(code);
}
