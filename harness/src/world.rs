//! Deterministic world construction through real instructions, plus typed readers of the store.

use crate::ix::{self, GroupRoles};
use crate::svm::{process_tx, Acct, Ix, Store, Tx, TxResult};
use anchor_lang::{AnchorSerialize, Discriminator};
use fixed::types::I80F48;
use marginfi_type_crate::types::{
    Bank, BankConfigCompact, BankOperationalState, FeeState, InterestRateConfigCompact, LiquidationRecord,
    MarginfiAccount, MarginfiGroup, OracleSetup, RatePoint, RiskTier,
};
use sha2::{Digest, Sha256};
use solana_program::{instruction::AccountMeta, program_pack::Pack, pubkey::Pubkey, system_instruction, system_program};
use std::collections::BTreeMap;
use std::sync::Mutex;

// ------------------------------------------------------------------------------------------------
// deterministic keys: every label is the seed of an ed25519 keypair, so that the very same
// identities can sign real transactions on the reference runtime (E4).

static KEY_CACHE: Mutex<BTreeMap<String, Pubkey>> = Mutex::new(BTreeMap::new());

pub fn seed_of(label: &str) -> [u8; 32] {
    let mut h = Sha256::new();
    h.update(b"verif-signer:");
    h.update(label.as_bytes());
    h.finalize().into()
}

pub fn key(label: &str) -> Pubkey {
    if let Some(k) = KEY_CACHE.lock().unwrap().get(label) {
        return *k;
    }
    let secret = ed25519_dalek::SecretKey::from_bytes(&seed_of(label)).unwrap();
    let public = ed25519_dalek::PublicKey::from(&secret);
    let k = Pubkey::new_from_array(public.to_bytes());
    KEY_CACHE.lock().unwrap().insert(label.to_string(), k);
    k
}

/// reverse lookup for pretty-printing
pub fn label_of(k: &Pubkey) -> String {
    for (l, kk) in KEY_CACHE.lock().unwrap().iter() {
        if kk == k {
            return l.clone();
        }
    }
    let s = k.to_string();
    s[..8].to_string()
}

// ------------------------------------------------------------------------------------------------
// typed readers

pub fn read_pod<T: bytemuck::Pod>(data: &[u8]) -> T {
    bytemuck::pod_read_unaligned(&data[8..8 + std::mem::size_of::<T>()])
}

pub fn bank(s: &Store, k: &Pubkey) -> Bank {
    read_pod::<Bank>(s.data(k))
}
pub fn account(s: &Store, k: &Pubkey) -> MarginfiAccount {
    read_pod::<MarginfiAccount>(s.data(k))
}
/// None when the account does not exist (closed) or is not a marginfi account
pub fn try_account(s: &Store, k: &Pubkey) -> Option<MarginfiAccount> {
    match s.get(k) {
        Some(a) if a.owner == marginfi::ID && a.data.len() == 8 + std::mem::size_of::<MarginfiAccount>() => Some(read_pod::<MarginfiAccount>(&a.data)),
        _ => None,
    }
}
pub fn try_bank(s: &Store, k: &Pubkey) -> Option<Bank> {
    match s.get(k) {
        Some(a) if a.owner == marginfi::ID && a.data.len() == 8 + std::mem::size_of::<Bank>() => Some(read_pod::<Bank>(&a.data)),
        _ => None,
    }
}
pub fn group(s: &Store, k: &Pubkey) -> MarginfiGroup {
    read_pod::<MarginfiGroup>(s.data(k))
}
pub fn fee_state(s: &Store) -> FeeState {
    read_pod::<FeeState>(s.data(&ix::fee_state_key()))
}
pub fn liq_record(s: &Store, k: &Pubkey) -> LiquidationRecord {
    read_pod::<LiquidationRecord>(s.data(k))
}

pub fn write_pod<T: bytemuck::Pod>(s: &mut Store, k: &Pubkey, v: &T) {
    let a = s.get_mut(k).expect("write_pod: no account");
    a.data[8..8 + std::mem::size_of::<T>()].copy_from_slice(bytemuck::bytes_of(v));
}

/// Apply a typed in-place edit to a zero-copy account (forging; every use is listed in evidence).
pub fn edit_bank(s: &mut Store, k: &Pubkey, f: impl FnOnce(&mut Bank)) {
    let mut b = bank(s, k);
    f(&mut b);
    write_pod(s, k, &b);
}
pub fn edit_account(s: &mut Store, k: &Pubkey, f: impl FnOnce(&mut MarginfiAccount)) {
    let mut a = account(s, k);
    f(&mut a);
    write_pod(s, k, &a);
}
pub fn edit_group(s: &mut Store, k: &Pubkey, f: impl FnOnce(&mut MarginfiGroup)) {
    let mut g = group(s, k);
    f(&mut g);
    write_pod(s, k, &g);
}

/// amount field of an SPL token / Token-2022 account
pub fn token_amount(s: &Store, k: &Pubkey) -> u64 {
    match s.get(k) {
        Some(a) if a.data.len() >= 72 => u64::from_le_bytes(a.data[64..72].try_into().unwrap()),
        _ => 0,
    }
}
pub fn token_owner(s: &Store, k: &Pubkey) -> Pubkey {
    Pubkey::new_from_array(s.data(k)[32..64].try_into().unwrap())
}
pub fn token_mint(s: &Store, k: &Pubkey) -> Pubkey {
    Pubkey::new_from_array(s.data(k)[0..32].try_into().unwrap())
}
pub fn set_token_amount(s: &mut Store, k: &Pubkey, amt: u64) {
    let a = s.get_mut(k).expect("token account");
    a.data[64..72].copy_from_slice(&amt.to_le_bytes());
}

// ------------------------------------------------------------------------------------------------
// specs

#[derive(Clone, Debug)]
pub struct MintSpec {
    pub label: String,
    pub decimals: u8,
    pub t22: bool,
    /// (basis points, maximum fee)
    pub fee: Option<(u16, u64)>,
}

impl MintSpec {
    pub fn spl(label: &str, decimals: u8) -> Self {
        MintSpec { label: label.into(), decimals, t22: false, fee: None }
    }
    pub fn t22(label: &str, decimals: u8, fee: Option<(u16, u64)>) -> Self {
        MintSpec { label: label.into(), decimals, t22: true, fee }
    }
    pub fn token_program(&self) -> Pubkey {
        if self.t22 {
            spl_token_2022::id()
        } else {
            spl_token::id()
        }
    }
}

#[derive(Clone, Debug)]
pub enum OracleSpec {
    /// price * 10^expo dollars per whole token
    Pyth { price: i64, conf: u64, ema_price: i64, ema_conf: u64, expo: i32 },
    /// value / 1e18 dollars per whole token
    Swb { value: i128, std_dev: i128 },
    Fixed { price: I80F48 },
}

impl OracleSpec {
    /// dollars per whole token with 8 decimals of precision, zero confidence
    pub fn pyth_usd(price_e8: i64) -> Self {
        OracleSpec::Pyth { price: price_e8, conf: 0, ema_price: price_e8, ema_conf: 0, expo: -8 }
    }
    pub fn pyth_usd_conf(price_e8: i64, conf_e8: u64) -> Self {
        OracleSpec::Pyth { price: price_e8, conf: conf_e8, ema_price: price_e8, ema_conf: conf_e8, expo: -8 }
    }
}

#[derive(Clone, Debug)]
pub struct BankSpec {
    pub label: String,
    pub mint: MintSpec,
    pub oracle: OracleSpec,
    pub config: BankCfg,
}

#[derive(Clone, Debug)]
pub struct BankCfg {
    pub asset_weight_init: I80F48,
    pub asset_weight_maint: I80F48,
    pub liability_weight_init: I80F48,
    pub liability_weight_maint: I80F48,
    pub deposit_limit: u64,
    pub borrow_limit: u64,
    pub risk_tier: RiskTier,
    pub asset_tag: u8,
    pub operational_state: BankOperationalState,
    pub total_asset_value_init_limit: u64,
    pub oracle_max_age: u16,
    pub oracle_max_confidence: u32,
    pub ir: IrCfg,
}

#[derive(Clone, Debug)]
pub struct IrCfg {
    pub insurance_fee_fixed_apr: I80F48,
    pub insurance_ir_fee: I80F48,
    pub protocol_fixed_fee_apr: I80F48,
    pub protocol_ir_fee: I80F48,
    pub protocol_origination_fee: I80F48,
    pub zero_util_rate: u32,
    pub hundred_util_rate: u32,
    pub points: [RatePoint; 5],
}

pub fn rate_u32(apr: f64) -> u32 {
    // a %, as u32, out of 1000 %
    ((apr / 10.0) * (u32::MAX as f64)) as u32
}
pub fn util_u32(u: f64) -> u32 {
    (u * (u32::MAX as f64)) as u32
}

impl Default for IrCfg {
    fn default() -> Self {
        let mut points = [RatePoint::default(); 5];
        points[0] = RatePoint::new(util_u32(0.5), rate_u32(0.10));
        points[1] = RatePoint::new(util_u32(0.9), rate_u32(0.40));
        IrCfg {
            insurance_fee_fixed_apr: I80F48::from_num(0.01),
            insurance_ir_fee: I80F48::from_num(0.05),
            protocol_fixed_fee_apr: I80F48::from_num(0.005),
            protocol_ir_fee: I80F48::from_num(0.10),
            protocol_origination_fee: I80F48::ZERO,
            zero_util_rate: rate_u32(0.02),
            hundred_util_rate: rate_u32(3.0),
            points,
        }
    }
}

impl Default for BankCfg {
    fn default() -> Self {
        BankCfg {
            asset_weight_init: I80F48::from_num(0.8),
            asset_weight_maint: I80F48::from_num(0.9),
            liability_weight_init: I80F48::from_num(1.25),
            liability_weight_maint: I80F48::from_num(1.1),
            deposit_limit: u64::MAX,
            borrow_limit: u64::MAX,
            risk_tier: RiskTier::Collateral,
            asset_tag: 0,
            operational_state: BankOperationalState::Operational,
            total_asset_value_init_limit: 0,
            oracle_max_age: 120,
            oracle_max_confidence: 0,
            ir: IrCfg::default(),
        }
    }
}

impl BankCfg {
    pub fn compact(&self) -> BankConfigCompact {
        BankConfigCompact {
            asset_weight_init: self.asset_weight_init.into(),
            asset_weight_maint: self.asset_weight_maint.into(),
            liability_weight_init: self.liability_weight_init.into(),
            liability_weight_maint: self.liability_weight_maint.into(),
            deposit_limit: self.deposit_limit,
            interest_rate_config: InterestRateConfigCompact {
                insurance_fee_fixed_apr: self.ir.insurance_fee_fixed_apr.into(),
                insurance_ir_fee: self.ir.insurance_ir_fee.into(),
                protocol_fixed_fee_apr: self.ir.protocol_fixed_fee_apr.into(),
                protocol_ir_fee: self.ir.protocol_ir_fee.into(),
                protocol_origination_fee: self.ir.protocol_origination_fee.into(),
                zero_util_rate: self.ir.zero_util_rate,
                hundred_util_rate: self.ir.hundred_util_rate,
                points: self.ir.points,
            },
            operational_state: self.operational_state,
            borrow_limit: self.borrow_limit,
            risk_tier: self.risk_tier,
            asset_tag: self.asset_tag,
            config_flags: 1,
            _pad0: [0; 5],
            total_asset_value_init_limit: self.total_asset_value_init_limit,
            oracle_max_age: self.oracle_max_age,
            oracle_max_confidence: self.oracle_max_confidence,
        }
    }
}

// ------------------------------------------------------------------------------------------------
// handles

#[derive(Clone, Debug)]
pub struct BankH {
    pub label: String,
    pub key: Pubkey,
    pub mint: Pubkey,
    pub decimals: u8,
    pub token_program: Pubkey,
    pub t22: bool,
    pub oracle: Option<Pubkey>,
    pub lv: Pubkey,
    pub lv_auth: Pubkey,
    pub iv: Pubkey,
    pub iv_auth: Pubkey,
    pub fv: Pubkey,
    pub fv_auth: Pubkey,
    pub fee_ata: Pubkey,
}

#[derive(Clone, Debug)]
pub struct UserH {
    pub label: String,
    pub authority: Pubkey,
    pub account: Pubkey,
    /// mint -> token account
    pub tokens: BTreeMap<Pubkey, Pubkey>,
}

#[derive(Clone, Debug)]
pub struct World {
    pub payer: Pubkey,
    pub fee_admin: Pubkey,
    pub fee_wallet: Pubkey,
    pub mint_auth: Pubkey,
    pub group: Pubkey,
    pub roles: GroupRoles,
    pub banks: Vec<BankH>,
    pub users: Vec<UserH>,
    pub mints: BTreeMap<Pubkey, MintSpec>,
}

pub const RICH: u64 = 1_000_000_000_000_000;

pub fn fund(s: &mut Store, k: &Pubkey, lamports: u64) {
    match s.get_mut(k) {
        Some(a) => a.lamports += lamports,
        None => s.set(*k, Acct::new(lamports, vec![], system_program::id())),
    }
}

pub fn must(s: &mut Store, tx: Tx, what: &str) {
    let r = process_tx(s, &tx);
    if !r.ok() {
        // (the inner panic text is clipped: it may itself quote an earlier construction failure)
        let inner = crate::svm::last_panic().map(|p| p.chars().take(200).collect::<String>());
        panic!("world construction step failed: {what}: {:?} ({}) panic={:?}", r, crate::svm::err_name(r.code()), inner);
    }
}

pub fn run(s: &mut Store, ix: Ix, signers: &[Pubkey]) -> TxResult {
    process_tx(s, &Tx::one(ix, signers))
}

fn rent(space: usize) -> u64 {
    solana_program::rent::Rent::default().minimum_balance(space)
}

pub fn ata(wallet: &Pubkey, mint: &Pubkey, token_program: &Pubkey) -> Pubkey {
    spl_associated_token_account::get_associated_token_address_with_program_id(wallet, mint, token_program)
}

pub fn create_mint(s: &mut Store, payer: &Pubkey, mint_auth: &Pubkey, spec: &MintSpec) -> Pubkey {
    let mint = key(&format!("mint:{}", spec.label));
    if s.get(&mint).is_some() {
        return mint;
    }
    let tp = spec.token_program();
    let mut ixs: Vec<Ix> = vec![];
    if spec.t22 {
        use spl_token_2022::extension::ExtensionType;
        let exts: Vec<ExtensionType> = if spec.fee.is_some() { vec![ExtensionType::TransferFeeConfig] } else { vec![] };
        let space = ExtensionType::try_calculate_account_len::<spl_token_2022::state::Mint>(&exts).unwrap();
        ixs.push(Ix::from(system_instruction::create_account(payer, &mint, rent(space), space as u64, &tp)));
        if let Some((bps, max)) = spec.fee {
            ixs.push(Ix::from(
                spl_token_2022::extension::transfer_fee::instruction::initialize_transfer_fee_config(
                    &tp,
                    &mint,
                    Some(mint_auth),
                    Some(mint_auth),
                    bps,
                    max,
                )
                .unwrap(),
            ));
        }
        ixs.push(Ix::from(
            spl_token_2022::instruction::initialize_mint2(&tp, &mint, mint_auth, None, spec.decimals).unwrap(),
        ));
    } else {
        let space = spl_token::state::Mint::LEN;
        ixs.push(Ix::from(system_instruction::create_account(payer, &mint, rent(space), space as u64, &tp)));
        ixs.push(Ix::from(spl_token::instruction::initialize_mint2(&tp, &mint, mint_auth, None, spec.decimals).unwrap()));
    }
    must(s, Tx::new(ixs, &[*payer, mint]), "create mint");
    mint
}

fn token_account_space(s: &Store, mint: &Pubkey, t22: bool) -> usize {
    if !t22 {
        return spl_token::state::Account::LEN;
    }
    use spl_token_2022::extension::{BaseStateWithExtensions, ExtensionType, StateWithExtensions};
    let data = s.data(mint);
    let st = StateWithExtensions::<spl_token_2022::state::Mint>::unpack(data).unwrap();
    let exts = st.get_extension_types().unwrap();
    let req = ExtensionType::get_required_init_account_extensions(&exts);
    ExtensionType::try_calculate_account_len::<spl_token_2022::state::Account>(&req).unwrap()
}

/// Create (through the real token program) a token account at the keypair address `label`.
pub fn create_token_account(s: &mut Store, payer: &Pubkey, label: &str, mint: &Pubkey, owner: &Pubkey, t22: bool) -> Pubkey {
    let k = key(label);
    let tp = if t22 { spl_token_2022::id() } else { spl_token::id() };
    let space = token_account_space(s, mint, t22);
    let init = if t22 {
        spl_token_2022::instruction::initialize_account3(&tp, &k, mint, owner).unwrap()
    } else {
        spl_token::instruction::initialize_account3(&tp, &k, mint, owner).unwrap()
    };
    must(
        s,
        Tx::new(
            vec![Ix::from(system_instruction::create_account(payer, &k, rent(space), space as u64, &tp)), Ix::from(init)],
            &[*payer, k],
        ),
        "create token account",
    );
    k
}

/// Token account at a program-derived address (e.g. an ATA): created at a scratch key through the
/// real token program and then moved, since nobody can sign for a PDA outside its program.
pub fn create_token_account_at(s: &mut Store, payer: &Pubkey, at: &Pubkey, mint: &Pubkey, owner: &Pubkey, t22: bool) {
    let tmp_label = format!("tmp-token:{}:{}", at, owner);
    let tmp = create_token_account(s, payer, &tmp_label, mint, owner, t22);
    let a = s.accts.remove(&tmp).unwrap();
    s.accts.insert(*at, a);
}

pub fn mint_to(s: &mut Store, mint_auth: &Pubkey, mint: &Pubkey, dst: &Pubkey, t22: bool, amount: u64) {
    let tp = if t22 { spl_token_2022::id() } else { spl_token::id() };
    let i = if t22 {
        spl_token_2022::instruction::mint_to(&tp, mint, dst, mint_auth, &[], amount).unwrap()
    } else {
        spl_token::instruction::mint_to(&tp, mint, dst, mint_auth, &[], amount).unwrap()
    };
    must(s, Tx::one(Ix::from(i), &[*mint_auth]), "mint_to");
}

pub fn pyth_account(price: i64, conf: u64, ema_price: i64, ema_conf: u64, expo: i32, publish_time: i64, full: bool) -> Acct {
    use pyth_solana_receiver_sdk::price_update::{PriceFeedMessage, PriceUpdateV2, VerificationLevel};
    let pu = PriceUpdateV2 {
        write_authority: Pubkey::default(),
        verification_level: if full { VerificationLevel::Full } else { VerificationLevel::Partial { num_signatures: 5 } },
        price_message: PriceFeedMessage {
            feed_id: [7u8; 32],
            price,
            conf,
            exponent: expo,
            publish_time,
            prev_publish_time: publish_time,
            ema_price,
            ema_conf,
        },
        posted_slot: 1,
    };
    let mut data = PriceUpdateV2::DISCRIMINATOR.to_vec();
    pu.serialize(&mut data).unwrap();
    Acct::new(1_000_000, data, pyth_solana_receiver_sdk::id())
}

pub fn swb_account(value: i128, std_dev: i128, last_update: i64) -> Acct {
    use switchboard_on_demand::PullFeedAccountData;
    let mut feed: PullFeedAccountData = bytemuck::Zeroable::zeroed();
    feed.result.value = value;
    feed.result.std_dev = std_dev;
    feed.result.mean = value;
    feed.last_update_timestamp = last_update;
    let mut data = <PullFeedAccountData as switchboard_on_demand::Discriminator>::DISCRIMINATOR.to_vec();
    data.extend_from_slice(bytemuck::bytes_of(&feed));
    Acct::new(1_000_000, data, marginfi::constants::SWITCHBOARD_PULL_ID)
}

pub fn set_oracle(s: &mut Store, oracle_key: &Pubkey, spec: &OracleSpec) {
    let now = s.now;
    match spec {
        OracleSpec::Pyth { price, conf, ema_price, ema_conf, expo } => {
            s.set(*oracle_key, pyth_account(*price, *conf, *ema_price, *ema_conf, *expo, now, true))
        }
        OracleSpec::Swb { value, std_dev } => s.set(*oracle_key, swb_account(*value, *std_dev, now)),
        OracleSpec::Fixed { .. } => {}
    }
}

/// Rewrite the publish time of every forged oracle to `s.now` (the "oracle cranks" environment
/// answer); prices are unchanged.
pub fn refresh_oracles(s: &mut Store, w: &World) {
    let now = s.now;
    for b in &w.banks {
        if let Some(o) = b.oracle {
            let owner = s.get(&o).map(|a| a.owner);
            if owner == Some(pyth_solana_receiver_sdk::id()) {
                let a = s.get_mut(&o).unwrap();
                // layout: 8 disc + 32 write_authority + 1|2 verification level + feed_id 32 + price 8 + conf 8 + expo 4 + publish 8 + prev 8
                let vl = if a.data[40] == 1 { 1 } else { 2 };
                let off = 8 + 32 + vl + 32 + 8 + 8 + 4;
                a.data[off..off + 8].copy_from_slice(&now.to_le_bytes());
                a.data[off + 8..off + 16].copy_from_slice(&now.to_le_bytes());
            } else if owner == Some(marginfi::constants::SWITCHBOARD_PULL_ID) {
                let a = s.get_mut(&o).unwrap();
                let mut feed: switchboard_on_demand::PullFeedAccountData =
                    bytemuck::pod_read_unaligned(&a.data[8..8 + std::mem::size_of::<switchboard_on_demand::PullFeedAccountData>()]);
                feed.last_update_timestamp = now;
                a.data[8..].copy_from_slice(bytemuck::bytes_of(&feed));
            }
        }
    }
}

/// Scale a Pyth oracle's price and ema price by num/den (price move deviation).
pub fn scale_pyth_price(s: &mut Store, oracle: &Pubkey, num: i64, den: i64) {
    let a = s.get_mut(oracle).unwrap();
    let vl = if a.data[40] == 1 { 1 } else { 2 };
    let p_off = 8 + 32 + vl + 32;
    let price = i64::from_le_bytes(a.data[p_off..p_off + 8].try_into().unwrap());
    a.data[p_off..p_off + 8].copy_from_slice(&(price * num / den).to_le_bytes());
    let e_off = p_off + 8 + 8 + 4 + 8 + 8;
    let ema = i64::from_le_bytes(a.data[e_off..e_off + 8].try_into().unwrap());
    a.data[e_off..e_off + 8].copy_from_slice(&(ema * num / den).to_le_bytes());
}

pub struct WorldSpec {
    pub name: String,
    pub banks: Vec<BankSpec>,
    pub users: Vec<String>,
    /// tokens minted to each user per mint, in whole tokens
    pub user_funding_whole: u64,
    pub program_fee_fixed: I80F48,
    pub program_fee_rate: I80F48,
    pub liquidation_max_fee: I80F48,
    pub bank_init_flat_sol_fee: u32,
    pub liquidation_flat_sol_fee: u32,
    pub program_fees_enabled: bool,
}

impl WorldSpec {
    pub fn new(name: &str, banks: Vec<BankSpec>, users: &[&str]) -> Self {
        WorldSpec {
            name: name.into(),
            banks,
            users: users.iter().map(|s| s.to_string()).collect(),
            user_funding_whole: 1_000_000,
            program_fee_fixed: I80F48::from_num(0.002),
            program_fee_rate: I80F48::from_num(0.05),
            liquidation_max_fee: I80F48::from_num(0.05),
            bank_init_flat_sol_fee: 1000,
            liquidation_flat_sol_fee: 5000,
            program_fees_enabled: true,
        }
    }
}

pub fn build_world(spec: &WorldSpec) -> (World, Store) {
    let mut s = Store::default();
    let w = build_world_in(&mut s, spec);
    (w, s)
}

/// Build a group with banks and users inside an existing store (the fee state is global: it is
/// initialised only if it does not exist yet). Used for the foreign group of the substitution tests.
pub fn build_world_in(s: &mut Store, spec: &WorldSpec) -> World {
    crate::svm::init();
    let n = &spec.name;
    let payer = key(&format!("{n}:payer"));
    let fee_admin = key("global:fee_admin");
    let fee_wallet = key("global:fee_wallet");
    let mint_auth = key("global:mint_auth");
    fund(s, &payer, RICH);
    if s.get(&fee_admin).is_none() {
        fund(s, &fee_admin, RICH);
        fund(s, &fee_wallet, 1_000_000_000);
        fund(s, &mint_auth, RICH);
    }

    if s.get(&ix::fee_state_key()).is_none() {
        must(
            s,
            Tx::one(
                ix::init_global_fee_state(
                    payer,
                    fee_admin,
                    fee_wallet,
                    spec.bank_init_flat_sol_fee,
                    spec.liquidation_flat_sol_fee,
                    spec.program_fee_fixed.into(),
                    spec.program_fee_rate.into(),
                    spec.liquidation_max_fee.into(),
                ),
                &[payer],
            ),
            "init_global_fee_state",
        );
    }

    let group = key(&format!("{n}:group"));
    let roles = GroupRoles {
        admin: key(&format!("{n}:admin")),
        emode: key(&format!("{n}:emode_admin")),
        curve: key(&format!("{n}:curve_admin")),
        limit: key(&format!("{n}:limit_admin")),
        emissions: key(&format!("{n}:emissions_admin")),
        metadata: key(&format!("{n}:metadata_admin")),
        risk: key(&format!("{n}:risk_admin")),
    };
    for k in [roles.admin, roles.emode, roles.curve, roles.limit, roles.emissions, roles.metadata, roles.risk] {
        fund(s, &k, RICH);
    }
    must(s, Tx::one(ix::group_initialize(group, roles.admin), &[roles.admin, group]), "group init");
    must(s, Tx::one(ix::group_configure(group, roles.admin, &roles, None, None), &[roles.admin]), "group configure");
    if !spec.program_fees_enabled {
        must(s, Tx::one(ix::config_group_fee(group, fee_admin, false), &[fee_admin]), "config group fee");
    }

    let mut w = World { payer, fee_admin, fee_wallet, mint_auth, group, roles, banks: vec![], users: vec![], mints: BTreeMap::new() };

    for bs in &spec.banks {
        add_bank_to_world(s, &mut w, n, bs);
    }

    for u in &spec.users {
        add_user(s, &mut w, n, u, spec.user_funding_whole);
    }
    w
}

pub fn add_bank_to_world(s: &mut Store, w: &mut World, n: &str, bs: &BankSpec) -> usize {
    let mint = create_mint(s, &w.payer, &w.mint_auth, &bs.mint);
    w.mints.insert(mint, bs.mint.clone());
    let bank = key(&format!("{n}:bank:{}", bs.label));
    let tp = bs.mint.token_program();
    must(
        s,
        Tx::one(
            ix::add_bank(w.group, w.roles.admin, w.payer, w.fee_wallet, mint, bank, tp, bs.config.compact()),
            &[w.roles.admin, w.payer, bank],
        ),
        "add_bank",
    );
    let oracle = match &bs.oracle {
        OracleSpec::Fixed { price } => {
            must(s, Tx::one(ix::set_fixed_oracle_price(w.group, w.roles.admin, bank, (*price).into()), &[w.roles.admin]), "set fixed price");
            None
        }
        spec => {
            let ok = key(&format!("{n}:oracle:{}", bs.label));
            set_oracle(s, &ok, spec);
            let setup = match spec {
                OracleSpec::Pyth { .. } => OracleSetup::PythPushOracle as u8,
                _ => OracleSetup::SwitchboardPull as u8,
            };
            must(
                s,
                Tx::one(ix::configure_bank_oracle(w.group, w.roles.admin, bank, setup, ok, vec![ix::ro(ok)]), &[w.roles.admin]),
                "configure oracle",
            );
            Some(ok)
        }
    };
    let fee_ata = ata(&w.fee_wallet, &mint, &tp);
    if s.get(&fee_ata).is_none() {
        create_token_account_at(s, &w.payer, &fee_ata, &mint, &w.fee_wallet, bs.mint.t22);
    }
    w.banks.push(BankH {
        label: bs.label.clone(),
        key: bank,
        mint,
        decimals: bs.mint.decimals,
        token_program: tp,
        t22: bs.mint.t22,
        oracle,
        lv: ix::liquidity_vault(&bank).0,
        lv_auth: ix::liquidity_vault_auth(&bank).0,
        iv: ix::insurance_vault(&bank).0,
        iv_auth: ix::insurance_vault_auth(&bank).0,
        fv: ix::fee_vault(&bank).0,
        fv_auth: ix::fee_vault_auth(&bank).0,
        fee_ata,
    });
    w.banks.len() - 1
}

pub fn add_user(s: &mut Store, w: &mut World, n: &str, u: &str, funding_whole: u64) -> usize {
    let authority = key(&format!("{n}:user:{u}"));
    let account = key(&format!("{n}:acct:{u}"));
    fund(s, &authority, RICH);
    must(
        s,
        Tx::one(ix::account_initialize(w.group, account, authority, w.payer), &[authority, w.payer, account]),
        "account init",
    );
    let mut tokens = BTreeMap::new();
    let mints: Vec<(Pubkey, MintSpec)> = w.mints.iter().map(|(k, v)| (*k, v.clone())).collect();
    for (mint, ms) in mints {
        let ta = create_token_account(s, &w.payer, &format!("{n}:ta:{u}:{}", ms.label), &mint, &authority, ms.t22);
        let amt = funding_whole.saturating_mul(10u64.saturating_pow(ms.decimals as u32)).min(u64::MAX / 1024);
        if amt > 0 {
            mint_to(s, &w.mint_auth, &mint, &ta, ms.t22, amt);
        }
        tokens.insert(mint, ta);
    }
    w.users.push(UserH { label: u.to_string(), authority, account, tokens });
    w.users.len() - 1
}

// ------------------------------------------------------------------------------------------------
// client-side account list derivation (what a correct client would pass)

impl World {
    pub fn bank_by_key(&self, k: &Pubkey) -> Option<&BankH> {
        self.banks.iter().find(|b| b.key == *k)
    }

    /// metas for one bank observation: bank + its oracle accounts
    pub fn observation(&self, s: &Store, bank_key: &Pubkey) -> Vec<AccountMeta> {
        let mut v = vec![ix::ro(*bank_key)];
        let Some(b) = try_bank(s, bank_key) else { return v };
        if b.config.oracle_setup != OracleSetup::Fixed {
            v.push(ix::ro(b.config.oracle_keys[0]));
            for i in 1..3 {
                if b.config.oracle_keys[i] != Pubkey::default() {
                    v.push(ix::ro(b.config.oracle_keys[i]));
                }
            }
        }
        v
    }

    /// Risk-engine remaining accounts for `account` as they must look *after* the operation:
    /// active balances plus `include`, minus `exclude`, in descending bank-key order.
    pub fn risk_metas(&self, s: &Store, account_key: &Pubkey, include: Option<Pubkey>, exclude: Option<Pubkey>) -> Vec<AccountMeta> {
        let mut banks: Vec<Pubkey> = match try_account(s, account_key) {
            Some(a) => a.lending_account.balances.iter().filter(|b| b.active != 0).map(|b| b.bank_pk).collect(),
            None => vec![],
        };
        if let Some(i) = include {
            if !banks.contains(&i) {
                banks.push(i);
            }
        }
        if let Some(e) = exclude {
            banks.retain(|b| *b != e);
        }
        banks.sort_by(|a, b| b.cmp(a));
        let mut v = vec![];
        for b in banks {
            v.extend(self.observation(s, &b));
        }
        v
    }

    /// the leading mint account for Token-2022 banks
    pub fn mint_meta(&self, b: &BankH) -> Vec<AccountMeta> {
        if b.t22 {
            vec![ix::ro(b.mint)]
        } else {
            vec![]
        }
    }
}

/// Forge what the spl-single-pool program would have created for a validator: the pool account, its LST mint
/// (a copy of `like_mint`'s bytes at the derived address) and its SOL stake account. Returns the pool key.
pub fn forge_single_pool(s: &mut Store, label: &str, like_mint: &Pubkey, stake_lamports: u64) -> Pubkey {
    let pool = key(&format!("singlepool:{label}"));
    let (mint, sol_pool) = ix::single_pool_keys(&pool);
    s.set(pool, Acct::new(1_000_000, vec![1u8; 64], marginfi::constants::SPL_SINGLE_POOL_ID));
    let m = s.get(like_mint).unwrap().clone();
    s.set(mint, Acct::new(m.lamports, m.data.clone(), spl_token::id()));
    let mut d: Vec<u8> = vec![];
    d.extend_from_slice(&2u32.to_le_bytes());
    d.extend_from_slice(&2_282_880u64.to_le_bytes());
    d.extend_from_slice(&[1u8; 32]);
    d.extend_from_slice(&[1u8; 32]);
    d.extend_from_slice(&0i64.to_le_bytes());
    d.extend_from_slice(&0u64.to_le_bytes());
    d.extend_from_slice(&[0u8; 32]);
    d.extend_from_slice(&[2u8; 32]);
    d.extend_from_slice(&stake_lamports.to_le_bytes());
    d.extend_from_slice(&0u64.to_le_bytes());
    d.extend_from_slice(&u64::MAX.to_le_bytes());
    d.extend_from_slice(&0.25f64.to_le_bytes());
    d.extend_from_slice(&0u64.to_le_bytes());
    d.push(0);
    d.resize(200, 0);
    s.set(sol_pool, Acct::new(stake_lamports + 2_282_880, d, marginfi::constants::NATIVE_STAKE_ID));
    pool
}

/// Turn an ordinary bank into a staked-collateral bank by forging what `add_bank_permissionless`
/// would have produced: asset tag STAKED, oracle setup StakedWithPythPush with the bank's own mint
/// as the LST mint and a forged native stake account as the SOL pool.
pub fn make_staked_bank(s: &mut Store, w: &World, b: usize, pool_stake_lamports: u64) {
    let pool = key(&format!("stakepool:{}", w.banks[b].label));
    // StakeStateV2::Stake(meta, stake, flags), borsh layout
    let mut d: Vec<u8> = vec![];
    d.extend_from_slice(&2u32.to_le_bytes());
    d.extend_from_slice(&2_282_880u64.to_le_bytes()); // rent exempt reserve
    d.extend_from_slice(&[1u8; 32]); // staker
    d.extend_from_slice(&[1u8; 32]); // withdrawer
    d.extend_from_slice(&0i64.to_le_bytes()); // lockup ts
    d.extend_from_slice(&0u64.to_le_bytes()); // lockup epoch
    d.extend_from_slice(&[0u8; 32]); // custodian
    d.extend_from_slice(&[2u8; 32]); // voter
    d.extend_from_slice(&pool_stake_lamports.to_le_bytes()); // delegation.stake
    d.extend_from_slice(&0u64.to_le_bytes()); // activation epoch
    d.extend_from_slice(&u64::MAX.to_le_bytes()); // deactivation epoch
    d.extend_from_slice(&0.25f64.to_le_bytes()); // warmup cooldown rate
    d.extend_from_slice(&0u64.to_le_bytes()); // credits observed
    d.push(0); // flags
    d.resize(200, 0);
    s.set(pool, Acct::new(pool_stake_lamports + 2_282_880, d, marginfi::constants::NATIVE_STAKE_ID));
    let mint = w.banks[b].mint;
    edit_bank(s, &w.banks[b].key, |bk| {
        bk.config.asset_tag = 2;
        bk.config.oracle_setup = OracleSetup::StakedWithPythPush;
        bk.config.oracle_keys[1] = mint;
        bk.config.oracle_keys[2] = pool;
    });
}
