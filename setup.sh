#!/bin/bash
# Offline build of the verification harness from files on disk (rebuilds the program crate from /repo's working tree).
set -e
cd "$(dirname "$0")/harness"
export CARGO_NET_OFFLINE=true
cargo build --release 2>&1 | tail -5
